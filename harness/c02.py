"""C02 — confocal image reconstruction conserves photon counts: correspondence + oracle (DESIGN.md 6/C02).

Case forms (all JSON):
  {"op": "sum", "data": [...], "iw": [...], "shape": [...]}            reconstruct_image_sum called directly (while it
                                                                      is reachable under that private path) AND the same
                                                                      reconstruction read off a real Kymo / Scan
  {"op": "kymo"|"scan", "gen": {...}}                                 generated object (expanded deterministically)
  {"op": "kymo"|"scan", "iw": [...], "P":, ["L", "fast", "slow", "scan_count"], "channels": {...}, "lead": {...}}
                                                                      explicit object (corpus, replays)
  {"op": "window", ...}                                               kymograph restricted to whole lines
  {"op": "seq", "kind": "kymo"|"scan", "gen": {...} | explicit keys, "queries": [0|1|2|3|4|5, ...]}
        a SEQUENCE of queries on ONE object (0,1,2 = get_image of red, green, blue; 3 = get_image("rgb");
        4 = Kymo.shape / Scan.shape; 5 = Scan.num_frames (scans only)): what an earlier query left behind (memoised
        images, a repaired start, a frame count stored back into the metadata) is visible to the later ones

Channel modes beyond builders_confocal.random_channels (made here, see `local_channel`): "after" (the stream exists
but starts at/after the end of the info wave), "before" (it ends at/before the first info-wave sample) - colours
WITHOUT DATA IN THE SCAN although the channel is there -, "late" / "late-far" (the stream starts inside the first
line / after it; sequences only).
"""
import glob
import itertools
import json
import os

import numpy as np

import builders_confocal as bc
from common import VERIF, Rng, enc_list, errname

PROP = "C02"
THEOREMS = [
    "Verif.C02.pixels_cumsum_eq_spec",
    "Verif.C02.pixels_count",
    "Verif.C02.reconstructSum_spec",
    "Verif.C02.pixel_is_segment_sum",
    "Verif.C02.stream_decomposes",
    "Verif.C02.pixel_sum_conserved",
    "Verif.C02.image_total_kymo",
    "Verif.C02.image_total_scan",
    "Verif.C02.kymo_placement",
    "Verif.C02.kymo_shape",
    "Verif.C02.scan_placement_fast_lower",
    "Verif.C02.scan_placement_fast_higher",
    "Verif.C02.scan_shape",
    "Verif.C02.scan_axes_meta",
    "Verif.C02.kymo_axes_meta",
    "Verif.C02.num_frames_spec",
    "Verif.C02.num_frames_image",
    "Verif.C02.discard_irrelevant",
    "Verif.C02.missing_colour_zero",
    "Verif.C02.full_channel",
    "Verif.C02.truncated_prefix",
    "Verif.C02.kymo_get_image",
    "Verif.C02.scan_get_image",
    "Verif.C02.segment_reconstruct",
    "Verif.C02.segment_reconstruct_dead",
    "Verif.C02.get_image_factors",
    "Verif.C02.query_colour_current",
    "Verif.C02.seq_coherent",
    "Verif.C02.repair_discards_cache",
    "Verif.C02.no_data_zero_current",
    "Verif.C02.kymo_image_shape",
    "Verif.C02.kymo_no_data_same_shape",
    # deepening round D
    "Verif.C02.pixel_sum_total",
    "Verif.C02.channelPixels_spec",
    "Verif.C02.kymo_get_image_any",
    "Verif.C02.scan_get_image_any",
    "Verif.C02.kymo_image_total",
    "Verif.C02.scan_image_total",
    "Verif.C02.expected_total_kymo",
    "Verif.C02.answers_history_independent",
    "Verif.C02.first_query_is_get_image",
    "Verif.C02.query_colour_idempotent",
    "Verif.C02.seek_regular_second_line",
    "Verif.C02.first_line_repair",
    "Verif.C02.fresh_after_repair",
    "Verif.C02.pixel_is_assigned_samples",
    "Verif.C02.kymo_entry_is_assigned",
    "Verif.C02.scan_entry_is_assigned",
    "Verif.C02.scan_shape_matches_image",
    # strengthening round H
    "Verif.C02.scan_meta_history_independent",
    "Verif.C02.scan_meta_queries_separate",
    "Verif.C02.scan_shape_query_matches_image",
]
RULE = (
    "corpus (documented interleaved-discard wave, non-constant samples per pixel, truncated colours) + exhaustive small "
    "scope: (a) reconstruct_image_sum called directly (while reachable under its private path) AND the same reconstruction "
    "read off a real Kymo (shape [P]) / Scan (shape [L,P]) made of the wave through the public API, on EVERY info wave over "
    "codes {0,1,2} up to length 8 (quick: 6) with "
    "counts 2^i (a pixel value identifies exactly which samples were summed), several target shapes, plus waves with "
    "the undocumented code 3, plus size mismatches (direct call only); (b) real Kymo objects for P<=3, k<=2, dead<=2, lead-in<=1, "
    "lines<=3 and real Scan objects for P,L in {2,3}, k<=2, dead<=2, frames<=2 (+frame dead time), both fast-axis "
    "orders, metadata frame count 0 and explicit (Scan.shape is ALSO asked first of a new object), each truncated at EVERY sample (quick: a subset of these layouts, every "
    "2nd/3rd truncation point), with a full "
    "red (ids), an early+short green and a blue channel that is absent, recorded only AFTER the item ended, or stopped "
    "BEFORE it began (a colour without data in the scan although the channel exists; in a fifth of the cases green is "
    "the one recorded after the item); (b') SEQUENCES of get_image / "
    "rgb / Kymo.shape queries on ONE object, compared answer by answer with a stateful model (start, memoised images): "
    "kymographs P<=3, 3-4 lines, k<=2, dead 1-2 whose photon stream starts at EVERY sample of the first line and just "
    "behind it, the other colours absent / complete / recorded after the item / late as well, asked in every order of "
    "a first round, then all colours and rgb once more (quick: every 37th), plus EVERY sequence of up to three queries on "
    "small kymographs and scans without a late stream (quick: every 5th; scans: Scan.shape and Scan.num_frames are queries "
    "too, metadata frame count 0 / explicit - the reconstructed count is stored by the first num_frames -), each ALSO "
    "replayed query by query on NEW objects (history independence; model: c02.kymopure/scanmpure), plus regular kymographs lead<=2, k<=3, d<=3, P<=4, n<=4 with a "
    "green stream 1 sample / half a line / a whole line late (start after the repair and the red image afterwards; quick: "
    "every 4th), plus seeded random sequences on random "
    "kymographs and scans (colours full/absent/short/long/early/after/before/late/late-far); (b'') kymographs "
    "restricted to a window of whole lines; (c) seeded random kymos/scans (85% up to 8x8x3, 12% up "
    "to 24x24, 3% up to 64x64x5 with k<=8; constant or non-constant samples per pixel, per-line dead times, interleaved "
    "discards, lead-in, tail, truncation biased to the last line/frame/first line/around a boundary, axes drawn from "
    "X,Y,Z pairs in both orders, colours full/absent/short/long/early/early+short and (12% of the cases) after/before, "
    "five count styles all with non-zero "
    "counts in discarded samples, three count dtypes, random start/sample period); (d) malformed stream: no pixel "
    "boundary in the (shared) span, size mismatch, photon stream of a scan starting late, inconsistent explicit frame "
    "count. Non-trivial: at least two completed pixels, a non-zero image and at least one discarded or unassigned "
    "sample carrying counts inside the shared span (objects); at least one pixel or an error (direct sums); a colour "
    "answered at least twice with an image and a non-zero image (sequences)."
)
TRUSTED = [
    "time alignment is modelled at the sample-index level: photon streams lie on the info wave's sample grid; "
    "Slice[start:stop] of such a stream = drop/take (that is C01's theorem cont_slice_samples, not re-proved here)",
    "float64 exactness of numpy.cumsum: photon totals stay below 2^53 (generated totals < 2^46)",
    "squeeze() is modelled for scans with at least two pixels on both axes (the property's quantifier); only the frame "
    "axis can then be squeezed away",
    "sequences: the object's state is modelled as (start as a sample index, identity of the _cache dict, memoised colour "
    "images); cachetools.cachedmethod stores a result in the dict it fetched before the call (C19 models the same)",
]
ASSUMPTIONS = [
    "a photon stream that starts inside the item: a Scan raises RuntimeError (compared with the model, not judged); a "
    "Kymo drops its truncated first line the first time that stream is read (F5 / C19: answers before and after differ). "
    "Such kymographs occur only in the sequence cases: every answer is compared with the stateful model, and the oracle "
    "judges them only once SETTLED (every such colour has been answered with an image): the colours without data are "
    "zero images of the same shape as the colours whose stream reaches the end of the info wave, rgb is their stack; "
    "which lines the settled image keeps is compared with the model (seek_timestamp_next_line), not judged",
    "for every other object each answer of a sequence is judged like a first answer (the property speaks of THE image "
    "of a colour: it cannot depend on what was asked before)",
    "info waves without any pixel boundary in the shared span raise IndexError: compared with the model, not judged by "
    "the oracle (the property text does not say what should happen)",
    "info-wave codes other than 0,1,2 (treated as 'use' by the code and the model) are compared with the model only",
    "an explicit metadata frame count that contradicts the info wave is reported verbatim by num_frames/shape while the "
    "image follows the data; the oracle judges num_frames/shape against the metadata and the image against the stream",
    "scan axes are two distinct physical axes with >= 2 pixels each; kymographs have >= 1 pixel per line",
]

COLORS = bc.COLORS
_CACHE = {}

# ------------------------------------------------------------------ expansion of generated cases


LOCAL_MODES = ("after", "before", "late", "late-far")


def second_line_start(iw, P):
    """index of the first used sample after the last boundary of the first line (len(iw) if there is none)"""
    nb = 0
    for i, c in enumerate(iw):
        if nb >= P and c != 0:
            return i
        if c == 2:
            nb += 1
    return len(iw)


def local_channel(r, iw, P, mode, base, lateness=None):
    """(counts, lead) of a colour in one of the LOCAL_MODES; `base` = a count for every info-wave sample"""
    n = len(iw)
    if mode == "after":
        gap = r.choice([0, 0, 1, r.randint(0, 9)])
        return [r.randint(1, 99) for _ in range(r.randint(1, 6))], -(n + gap)
    if mode == "before":
        ln = r.randint(1, 3)
        return [r.randint(1, 99) for _ in range(ln)], ln + r.randint(0, 5 - ln)  # lead <= 5: see FIRST_TIMESTAMP
    s2 = second_line_start(iw, P)
    first_used = next((i for i, c in enumerate(iw) if c != 0), 0)
    if lateness is not None:
        d = int(lateness)
    elif mode == "late":
        d = r.choice([1, 1, 2, first_used, first_used + 1, s2 - 1, s2, r.randint(1, max(1, s2))])
        d = min(d, s2)
    else:
        d = r.randint(s2 + 1, max(s2 + 1, min(n - 1, 3 * s2 + 2)))
    d = max(1, min(d, n - 1))
    if n < 2:
        return None, 0
    data = list(base[d:])
    if r.chance(0.2):
        data += [r.randint(1, 99) for _ in range(r.randint(1, 4))]
    return data, -d


def expand(case):
    """explicit form of a case (generated cases carry only their recipe)"""
    if "gen" not in case:
        return case
    kind = case.get("kind", case["op"])
    key = kind + json.dumps(case["gen"], sort_keys=True)
    hit = _CACHE.get(key)
    if hit is not None:
        return hit
    g = case["gen"]
    lay = g["layout"]
    iw = bc.layout_infowave(lay)
    r = Rng(g.get("seed", 0))
    modes = g.get("modes")
    local = {c: m for c, m in modes.items() if m in LOCAL_MODES} if isinstance(modes, dict) else {}
    if local:
        modes = {c: ("full" if m in LOCAL_MODES else m) for c, m in modes.items()}
    channels, lead = bc.random_channels(r, iw, modes=modes, style=g.get("style"))
    if local:
        r2 = Rng(g.get("seed", 0)).fork("c02-local-modes")
        for c in COLORS:
            if c in local:
                base = channels[c] if channels.get(c) and len(channels[c]) == len(iw) else bc.counts(r2, iw, "mixed")
                channels[c], lead[c] = local_channel(r2, iw, lay["P"], local[c], base, (g.get("lateness") or {}).get(c))
    out = {
        "op": case["op"],
        "kind": kind,
        "iw": iw,
        "P": lay["P"],
        "L": lay.get("L"),
        "fast": g.get("fast", 0),
        "slow": g.get("slow", 1),
        "channels": channels,
        "lead": lead,
        "start": g.get("start", bc.START),
        "dt": g.get("dt", bc.DT),
        "count_dtype": g.get("count_dtype", "int64"),
    }
    sc = g.get("scan_count", 0)
    if sc == "true":
        n = bc.count_pixels(iw)
        ppf = lay["P"] * (lay.get("L") or 1)
        sc = -(-n // ppf)
    out["scan_count"] = sc
    if len(_CACHE) > 64:
        _CACHE.clear()
    _CACHE[key] = out
    return out


def explicit(case):
    e = expand(case)
    if "kind" not in e:
        e = dict(e)
        e["kind"] = e["op"]
    return e


def show_shape(shape):
    return "[" + ",".join(str(int(v)) for v in shape) + "]"


def show_start(obj, e):
    """the object's start as a sample index into the info wave it was made of"""
    try:
        d = int(obj.start) - int(e.get("start", bc.START))
        dt = int(e.get("dt", bc.DT))
        return str(d // dt) if d % dt == 0 else f"off-grid:{d}/{dt}"
    except Exception as ex:
        return errname(ex)


def seq_has_late(e):
    """does some colour's photon stream start inside the item (the object will repair its start)?"""
    return any(shared_span(e, c) == "late" for c in COLORS)


def ask(obj, q):
    """one query of a sequence, as a canonical string"""
    try:
        if q < 3:
            return show_img(obj.get_image(COLORS[q]))
        if q == 3:
            return show_img(obj.get_image("rgb"))
        if q == 4:
            return show_shape(obj.shape)
        return str(int(obj.num_frames))
    except Exception as ex:
        return errname(ex)


def impl_seq(case):
    """the answers of a sequence of queries on ONE object, joined by ';'"""
    e = explicit(case)
    with bc.quiet():
        try:
            obj = bc.object_from_case(e)
        except Exception as ex:
            return [errname(ex)] * (2 if seq_has_late(e) else 3)
        out = [ask(obj, q) for q in case["queries"]]
        res = [";".join(out), show_start(obj, e)]
        if not seq_has_late(e):
            # the same queries, each asked to a NEW object (history independence; model side: c02.kymopure/scanmpure)
            fresh = []
            for q in case["queries"]:
                try:
                    fresh.append(ask(bc.object_from_case(e), q))
                except Exception as ex:
                    fresh.append(errname(ex))
            res.append(";".join(fresh))
    return res


# ------------------------------------------------------------------ impl


def show_img(img):
    a = np.asarray(img)
    flat = a.ravel()
    ints = flat.astype(np.int64)
    if not np.array_equal(ints.astype(a.dtype), flat):
        return "non-integer-image"
    return "[" + ",".join(str(int(s)) for s in a.shape) + "] [" + ",".join(map(str, ints.tolist())) + "]"


def show_total(img):
    """total of an image as an exact integer (object arithmetic: no float rounding of the sum)"""
    a = np.asarray(img)
    flat = a.ravel()
    ints = flat.astype(np.int64)
    if not np.array_equal(ints.astype(a.dtype), flat):
        return "non-integer-image"
    return str(sum(int(v) for v in ints))


def window_parts(case):
    """a kymograph restricted to the lines [l0, l1): the cut info wave and per-colour cut photon streams
    (plain index arithmetic on the info wave: line l starts at the first used sample of pixel l*P)"""
    iw, P = case["iw"], case["P"]
    starts, npx, inpix = [], 0, False
    for i, c in enumerate(iw):
        if c != 0 and not inpix:
            if npx % P == 0:
                starts.append(i)
            inpix = True
        if c == 2:
            npx += 1
            inpix = False
    L = len(starts)
    l0, l1 = case["l0"], case["l1"]
    s0 = starts[l0]
    s1 = starts[l1] if l1 < L else len(iw)
    chans = {c: (None if not case["channels"].get(c) else case["channels"][c][s0:s1]) for c in COLORS}
    return s0, s1, iw[s0:s1], chans, L


def impl_window(case):
    s0, s1, _, _, L = window_parts(case)
    start, dt = case.get("start", bc.START), case.get("dt", bc.DT)
    with bc.quiet():
        try:
            obj = bc.make_kymo(case["iw"], case["P"], case["channels"], start=start, dt=dt)
            t0 = start + s0 * dt
            t1 = start + s1 * dt if case["l1"] < L else None
            sub = obj[t0:t1]
        except Exception as ex:
            return [errname(ex)] * 3
        out = []
        for color in COLORS:
            try:
                out.append(show_img(sub.get_image(color)))
            except Exception as ex:
                out.append(errname(ex))
    return out


UNOBSERVED = "?"  # an observation that could not be made (never an answer of the implementation): ignored by agree/oracle
_DIRECT = []  # [reconstruct_image_sum | None], resolved once


def direct_sum(case):
    """reconstruct_image_sum (anchored mechanism; lives under the private path lumicks.pylake.detail.image) called
    directly - only while it is reachable under that name and with that signature.  A refactoring may move or rename
    it: the tie is then kept by `public_sum`, and this observation is UNOBSERVED."""
    if not _DIRECT:
        try:
            from lumicks.pylake.detail.image import reconstruct_image_sum

            _DIRECT.append(reconstruct_image_sum)
        except ImportError:  # module moved / function renamed
            _DIRECT.append(None)
    f = _DIRECT[0]
    if f is None:
        return UNOBSERVED
    data = np.asarray(case["data"], dtype=float)
    iw = np.asarray(case["iw"], dtype=np.uint8)
    try:
        return show_img(f(data, iw, tuple(case["shape"])))
    except TypeError as ex:
        if ex.__traceback__ is not None and ex.__traceback__.tb_next is None:
            return UNOBSERVED  # the call itself was refused (private signature changed): nothing was computed
        return errname(ex)
    except Exception as ex:
        return errname(ex)


def public_sum(case):
    """The same observation through the public API.  Info wave and counts become a real object made by
    low_level.create_confocal_object: a Kymo with P pixels per line for shape [P], a Scan (X fast, Y slow; frame count
    from the info wave) with P pixels per line and L lines per frame for shape [L, P] (L, P >= 2: only the frame axis can
    then be squeezed away).  get_image("red") with the spatial arrangement undone - kymograph: transposed back; scan:
    the frame axis restored - is the reconstruction reshaped to (-1, *shape), errors included (no completed pixel:
    IndexError).  Not available for a size mismatch (a photon stream of another length is ALIGNED, not refused)."""
    sh, data, iw = list(case["shape"]), case["data"], case["iw"]
    if len(data) != len(iw) or not ((len(sh) == 1 and sh[0] >= 1) or (len(sh) == 2 and min(sh) >= 2)):
        return UNOBSERVED
    if any(not isinstance(d, int) or not 0 <= d < 2**53 for d in data):
        return UNOBSERVED
    with bc.quiet():
        try:
            if len(sh) == 1:
                img = np.asarray(bc.make_kymo(iw, sh[0], {"red": data}).get_image("red")).T
            else:
                img = np.asarray(bc.make_scan(iw, sh[1], sh[0], {"red": data}).get_image("red"))
                if img.ndim == 2:
                    img = img[None]
            return show_img(img)
        except Exception as ex:
            return errname(ex)


def reg_parts(case):
    """regular info wave (builders_confocal.infowave: lead-in, n lines of P pixels of k samples, d dead samples behind
    every line), a red stream covering it (sample i counts 2^(i mod 40)) and a green one starting `late` samples late"""
    iw = bc.infowave(case["P"], case["n"], case["k"], lead_in=case["lead"], dead=case["d"])
    red = [1 << (i % 40) for i in range(len(iw))]
    return iw, red, red[case["late"]:]


def reg_in_scope(case):
    return case["P"] >= 2 and case["n"] >= 2 and case["d"] >= 1 and case["k"] >= 1


def impl_regrepair(case):
    """green (starts inside the first line) is read first: the kymograph repairs its start; then red (covers everything).
    Observed: the wave itself + the start after the repair (or the exception), and the red image of the repaired item"""
    iw, red, green = reg_parts(case)
    e = {"start": bc.START, "dt": bc.DT}
    with bc.quiet():
        try:
            obj = bc.make_kymo(iw, case["P"], {"red": red, "green": green}, lead={"green": -case["late"]})
        except Exception as ex:
            return [errname(ex)] * (2 if reg_in_scope(case) else 1)
        err = None
        try:
            obj.get_image("green")
        except Exception as ex:  # the repair itself failed, or it landed before the green stream begins (outside the
            err = errname(ex)  # theorems' scope): the start it left behind is still what is compared
        where = show_start(obj, e)
        if err is not None and where == "0":
            where = err
        out = [enc_list(iw) + " " + where]
        if reg_in_scope(case):
            try:
                out.append(show_img(obj.get_image("red")))
            except Exception as ex:
                out.append(errname(ex))
    return out


def impl(case):
    if case["op"] == "window":
        return impl_window(case)
    if case["op"] == "seq":
        return impl_seq(case)
    if case["op"] == "sum":
        d, pb = direct_sum(case), public_sum(case)
        return [d, pb, d if d != UNOBSERVED else pb]
    if case["op"] == "regrepair":
        return impl_regrepair(case)
    e = explicit(case)
    out = []
    with bc.quiet():
        try:
            obj = bc.object_from_case(e)
        except Exception as ex:
            return [errname(ex)] * (8 if e["kind"] == "scan" else 7)
        totals = []
        for color in COLORS:
            try:
                img = obj.get_image(color)
                out.append(show_img(img))
                totals.append(show_total(img))
            except Exception as ex:
                out.append(errname(ex))
                totals.append(errname(ex))
        # metadata queries on a fresh object (nothing cached yet)
        try:
            obj = bc.object_from_case(e)
            if e["kind"] == "kymo":
                shape = obj.shape
                out.append("[" + ",".join(str(int(s)) for s in shape) + "] " + str(int(obj.pixels_per_line)))
            else:
                nf = obj.num_frames
                out.append(
                    f"{int(nf)} {int(obj.pixels_per_line)} {int(obj.lines_per_frame)} ["
                    + ",".join(str(int(s)) for s in obj.shape)
                    + "]"
                )
        except Exception as ex:
            out.append(errname(ex))
        first = []
        if e["kind"] == "scan":
            # Scan.shape asked FIRST of a new object: nothing has evaluated num_frames on it yet (the library stores the
            # reconstructed frame count back into the metadata the first time num_frames is read)
            try:
                first.append(show_shape(bc.object_from_case(e).shape))
            except Exception as ex:
                first.append(errname(ex))
    return out + totals + first  # 3 images, metadata, 3 image totals (c02.total), scans: the shape asked first


# ------------------------------------------------------------------ ops


def enc_chan(data):
    return "N" if not data else enc_list(data)


def ops(case):
    if case["op"] == "window":
        _, _, iwc, chans, _ = window_parts(case)
        return [f"c02.kymo {case['P']} {enc_list(iwc)} 0 {enc_chan(chans[c])}" for c in COLORS]
    if case["op"] == "sum":
        a = f"{enc_list(case['data'])} {enc_list(case['iw'])} {enc_list(case['shape'])}"
        return [f"c02.sum {a}", f"c02.sum {a}", f"c02.assigned {a}"]  # direct, public, direct|public vs the index formula
    if case["op"] == "regrepair":
        a = f"{case['lead']} {case['k']} {case['d']} {case['P']} {case['n']}"
        out = [f"c02.regwave {a}"]
        if reg_in_scope(case):
            out.append(f"c02.regafter {a} {enc_list(reg_parts(case)[1])}")
        return out
    e = explicit(case)
    iw = enc_list(e["iw"])
    lead = e.get("lead") or {}
    out = []
    if case["op"] == "seq":
        chans = " ".join(f"{int(lead.get(c, 0))} {enc_chan(e['channels'].get(c))}" for c in COLORS)
        head = (f"c02.kymoseq {e['P']}" if e["kind"] == "kymo"
                else f"c02.scanmseq {e['fast']} {e['P']} {e['slow']} {e['L']} {int(e.get('scan_count', 0))}")
        lines = [f"{head} {iw} {chans} {enc_list(case['queries'])}"]
        lines.append(lines[0].replace("seq ", "seqoff ", 1))
        if not seq_has_late(e):
            lines.append(lines[0].replace("seq ", "pure ", 1))
        return lines
    if e["kind"] == "kymo":
        for c in COLORS:
            out.append(f"c02.kymo {e['P']} {iw} {int(lead.get(c, 0))} {enc_chan(e['channels'].get(c))}")
        out.append(f"c02.kymometa {e.get('fast', 0)} {e['P']} {iw} {int(lead.get('red', 0))} {enc_chan(e['channels'].get('red'))}")
    else:
        ax = f"{e['fast']} {e['P']} {e['slow']} {e['L']}"
        for c in COLORS:
            out.append(f"c02.scan {ax} {iw} {int(lead.get(c, 0))} {enc_chan(e['channels'].get(c))}")
        out.append(f"c02.scanmeta {ax} {int(e.get('scan_count', 0))} {iw}")
    kd = "k" if e["kind"] == "kymo" else "s"
    for c in COLORS:
        out.append(f"c02.total {kd} {iw} {int(lead.get(c, 0))} {enc_chan(e['channels'].get(c))}")
    if e["kind"] == "scan":
        out.append(f"c02.scanmseq {ax} {int(e.get('scan_count', 0))} {iw} 0 N 0 N 0 N [4]")
    return out


def agree(case, i, ia, ma):
    """string equality; an observation that could not be made says nothing"""
    return ia == UNOBSERVED or ia == ma


# ------------------------------------------------------------------ oracle (plain Python/NumPy from the property text)


def assigned_pixels(iw, data):
    """pixel j = sum of the counts of the samples assigned to pixel j: a sample belongs to the pixel whose number is
    the count of boundary samples strictly before it, provided it is not a discard sample and that pixel is completed"""
    iw = np.asarray(iw, dtype=np.int64)
    data = np.asarray(data, dtype=object)
    nb = int(np.count_nonzero(iw == 2))
    before = np.concatenate(([0], np.cumsum(iw == 2)[:-1])) if len(iw) else np.zeros(0, dtype=np.int64)
    px = [0] * nb
    for i in np.flatnonzero((iw != 0) & (before < nb)):
        px[int(before[i])] += int(data[i])
    return px


def shared_span(e, color):
    """(info wave restricted to the span shared with the colour's photon stream, the counts on that span) or None when
    the colour has no data in the scan"""
    data = e["channels"].get(color)
    iw = e["iw"]
    if not data:
        return None
    m = int((e.get("lead") or {}).get(color, 0))
    if m < 0:
        # the stream starts |m| samples after the info wave: at/after its end -> no sample of it lies in the scan
        return None if -m >= len(iw) else "late"
    avail = data[m:]
    n = min(len(iw), len(avail))
    if n == 0:
        return None
    return iw[:n], avail[:n]


def expected_image(e, px):
    """acquisition-order pixels -> image, by the index formula of the property (no reshape/transpose)"""
    P = e["P"]
    n = len(px)
    pad = np.array(list(px) + [0], dtype=object)

    def take(idx):
        idx = np.where(idx < n, idx, n)
        return pad[idx]

    if e["kind"] == "kymo":
        lines = -(-n // P)
        r = np.arange(P)[:, None]
        ln = np.arange(lines)[None, :]
        return take(ln * P + r)
    L = e["L"]
    F = -(-n // (P * L))
    f = np.arange(F)
    if e["fast"] < e["slow"]:  # fast axis is the lower physical axis: rows = slow, columns = fast
        img = take((f[:, None, None] * L + np.arange(L)[None, :, None]) * P + np.arange(P)[None, None, :])
    else:  # rows = fast, columns = slow
        img = take((f[:, None, None] * L + np.arange(L)[None, None, :]) * P + np.arange(P)[None, :, None])
    return img[0] if F == 1 else img


def show_expected(img):
    return "[" + ",".join(str(int(s)) for s in img.shape) + "] [" + ",".join(str(int(v)) for v in img.ravel()) + "]"


def expected_colour(e, color):
    """(expected image, clause name, expected image total | None) of one colour of an object, or None where the
    property does not determine the answer (stream starting inside the scan, no completed pixel in the shared span)"""
    sp = shared_span(e, color)
    if sp == "late":
        return None
    if sp is None:
        nb = bc.count_pixels(e["iw"])
        if nb == 0:
            return None
        return expected_image(e, [0] * nb), "missing-colour", None
    iw_s, d_s = sp
    px = assigned_pixels(iw_s, d_s)
    if not px:
        return None  # no completed pixel in the shared span: not judged
    # image total = total count of the used samples up to the last boundary of the shared span
    last = max(i for i, c in enumerate(iw_s) if c == 2)
    total = sum(int(d) for c, d in zip(iw_s[: last + 1], d_s[: last + 1]) if c != 0)
    return expected_image(e, px), "pixel-placement", total


def scan_meta_expected(e):
    """(number of frames, Scan.shape) the property states: pixels per line / lines per frame from the metadata, the
    number of frames from the metadata - reconstructed from the info wave (ceil(#pixels / pixels per frame)) when the
    metadata says zero -, no frame axis for a single frame"""
    P, L = e["P"], e["L"]
    sc = int(e.get("scan_count", 0))
    nf = sc if sc != 0 else -(-bc.count_pixels(e["iw"]) // (P * L))
    ypix, xpix = (L, P) if e["fast"] < e["slow"] else (P, L)
    return nf, ([nf] if nf > 1 else []) + [ypix, xpix, 3]


def parse_img(a):
    """'[shape] [flat]' -> (shape, flat) or None for an error name"""
    if not a.startswith("["):
        return None
    sh, fl = a.split(" ")
    return [int(v) for v in sh[1:-1].split(",") if v != ""], [int(v) for v in fl[1:-1].split(",") if v != ""]


def stack_str(imgs):
    """the rgb image of three (shape, flat) colour images of one shape, as show_img prints it"""
    sh = imgs[0][0]
    flat = [v for px in zip(imgs[0][1], imgs[1][1], imgs[2][1]) for v in px]
    return show_shape(list(sh) + [3]) + " [" + ",".join(map(str, flat)) + "]"


def oracle_seq(case, ia):
    """A sequence of queries on one object.  The property speaks of THE image of a colour of an item: whatever was
    asked before, (1) for an item whose photon streams do not start inside it every answer is the image the property
    determines (pixel sums of the shared span / zeros of the info wave's shape for a colour without data in the scan),
    the rgb image is the stack of the three and Kymo.shape their shape; (2) for a kymograph with a stream that starts
    inside it (the library drops the truncated first line the first time that stream is read: F5, not judged here)
    the answers are judged once the item has SETTLED - after every such colour has been answered with an image -:
    colours without data in the scan are zero images of the same shape as the colours whose stream reaches the end of
    the info wave, and the rgb image is their stack."""
    e = explicit(case)
    if any(c > 2 for c in e["iw"]):
        return None
    Q = case["queries"]
    ans = ia[0].split(";")
    if len(ans) != len(Q):
        return None  # the object could not even be made: compared with the model only
    spans = {c: shared_span(e, c) for c in COLORS}
    late = [c for c in COLORS if spans[c] == "late"]
    if not late and len(ia) > 2 and ia[2] != ia[0]:
        fresh = ia[2].split(";")
        i = next((j for j, (a, b) in enumerate(zip(ans, fresh)) if a != b), 0)
        return (f"history: query #{i} of the sequence {Q} on one object answered {ans[i][:160]}, a NEW object asked the "
                f"same question first answers {fresh[i][:160] if i < len(fresh) else '?'} (the image of a colour cannot depend on what was asked before)")
    if e["kind"] == "scan" or not late:
        exp = {}
        for c in COLORS:
            x = expected_colour(e, c)
            exp[c] = None if x is None else (show_expected(x[0]), x[1])
        for i, (q, a) in enumerate(zip(Q, ans)):
            if q < 3:
                x = exp[COLORS[q]]
                if x is not None and a != x[0]:
                    return (f"{x[1]}: query #{i} of the sequence {Q} on one object: {COLORS[q]} image is {a[:200]}, "
                            f"expected {x[0][:200]}")
            elif q == 3:
                if late or any(exp[c] is None for c in COLORS):
                    continue
                imgs = [parse_img(exp[c][0]) for c in COLORS]
                if imgs[0][0] == imgs[1][0] == imgs[2][0] and a != stack_str(imgs):
                    return f"pixel-placement: query #{i} of the sequence {Q}: rgb image is {a[:200]}, expected {stack_str(imgs)[:200]}"
            elif e["kind"] == "scan":
                # Scan.shape / Scan.num_frames follow the metadata (frames reconstructed from the info wave when it says
                # zero) - whatever was or was not asked of the object before
                if bc.count_pixels(e["iw"]) == 0:
                    continue
                nf, shape = scan_meta_expected(e)
                want = show_shape(shape) if q == 4 else str(nf)
                if a != want:
                    return (f"shape: query #{i} of the sequence {Q} on one scan (metadata frame count "
                            f"{int(e.get('scan_count', 0))}, {bc.count_pixels(e['iw'])} pixels, {e['P']}x{e['L']} per frame): "
                            f"{'Scan.shape' if q == 4 else 'Scan.num_frames'} = {a}, expected {want}")
            elif exp["red"] is not None:
                want = show_shape(parse_img(exp["red"][0])[0] + [3])
                if a != want:
                    return f"shape: query #{i} of the sequence {Q}: Kymo.shape = {a}, expected {want}"
        return None
    # kymograph with a stream starting inside it: judged once settled
    if len(Q) < 4 or list(Q[-4:]) != [0, 1, 2, 3]:
        return None
    body_q, body_a = Q[:-4], ans[:-4]
    for c in late:
        ci = COLORS.index(c)
        if not any(q == ci and a.startswith("[") for q, a in zip(body_q, body_a)):
            return None  # not settled
    fin = [parse_img(a) for a in ans[-4:-1]]
    if any(f is None for f in fin):
        return None
    n = len(e["iw"])
    reaches_end = {
        c: bool(e["channels"].get(c)) and len(e["channels"][c]) - int((e.get("lead") or {}).get(c, 0)) >= n for c in COLORS
    }
    judged = [i for i, c in enumerate(COLORS) if spans[c] is None or reaches_end[c]]
    for i in judged:
        c = COLORS[i]
        if spans[c] is None and any(fin[i][1]):
            return f"missing-colour: sequence {Q}: {c} has no data in the kymograph but its image is not zero: {ans[-4 + i][:200]}"
        if fin[i][0] != fin[judged[0]][0]:
            return (f"missing-colour: sequence {Q} on one kymograph: in the end the {c} image has shape {fin[i][0]} but the "
                    f"{COLORS[judged[0]]} image has shape {fin[judged[0]][0]} (a colour without data is a zero image of the "
                    f"SAME shape; every colour is read from the same info wave)")
    # the item as it is NOW: its start is sample `off` of the info wave (read off the object after the sequence); every
    # colour whose stream does not start inside THAT window is the property's reconstruction of that window
    if len(ia) > 1 and ia[1].isdigit() and 0 < int(ia[1]) < n:
        off = int(ia[1])
        lead = e.get("lead") or {}
        e2 = dict(e, iw=e["iw"][off:], lead={c: int(lead.get(c, 0)) + off for c in COLORS})
        for i, c in enumerate(COLORS):
            x = expected_colour(e2, c)
            if x is not None and ans[-4 + i] != show_expected(x[0]):
                return (f"{x[1]}: sequence {Q} on one kymograph left its start at sample {off}; the {c} image is then "
                        f"{ans[-4 + i][:200]}, the reconstruction of the item from that start is {show_expected(x[0])[:200]}")
    if len(judged) == 3 and ans[-1] != stack_str(fin):
        return f"pixel-placement: sequence {Q}: the final rgb image {ans[-1][:200]} is not the stack of the three colour images"
    return None


def oracle(case, ia):
    if case["op"] == "window":
        # every colour of the time-restricted item has the shape of the restricted info wave; a colour without data is
        # zeros of that shape; a colour with data holds the sums of its own samples inside the window
        _, _, iwc, chans, _ = window_parts(case)
        P = case["P"]
        nb = sum(1 for c in iwc if c == 2)
        L = -(-nb // P)
        for color, a in zip(COLORS, ia):
            data = chans[color]
            px = assigned_pixels(iwc, data) if data else [0] * nb
            px = px + [0] * (L * P - len(px))
            img = [px[l * P + r] for r in range(P) for l in range(L)]
            exp = f"[{P},{L}] [" + ",".join(map(str, img)) + "]"
            if a != exp:
                what = "has no photon data: expected zeros of the item's own shape" if not data else "expected the sums over its own samples in the window"
                return f"time-restricted kymograph, colour {color} {what} {exp[:120]}, got {a[:120]}"
        return None
    if case["op"] == "sum":
        iw, data = case["iw"], case["data"]
        if any(c > 2 for c in iw):
            return None
        if len(iw) != len(data):
            return None if ia[0] in ("ValueError", UNOBSERVED) else f"size-mismatch: expected ValueError, got {ia[0][:80]}"
        px = assigned_pixels(iw, data)
        if not px:
            return None  # no completed pixel: not judged
        prod = int(np.prod(case["shape"]))
        m = -(-len(px) // prod) * prod
        exp = "[" + ",".join(map(str, [m // prod] + list(case["shape"]))) + "] [" + ",".join(map(str, px + [0] * (m - len(px)))) + "]"
        routes = ("reconstruct_image_sum", 'the red image of the Kymo/Scan made of this info wave (arrangement undone)')
        for a, route in zip(ia, routes):
            if a != UNOBSERVED and a != exp:
                return f"pixel-sums: {route} gave {a[:200]}, the samples assigned to each pixel sum to {exp[:200]}"
        return None
    if case["op"] == "seq":
        return oracle_seq(case, ia)
    if case["op"] == "regrepair":
        # the item as it is after the repair: red covers every sample, so its image is the reconstruction of the info
        # wave from the object's (new) start - whatever that start is
        if len(ia) > 1 and " " in ia[0] and ia[0].split(" ")[1].isdigit():
            iw, red, _ = reg_parts(case)
            off = int(ia[0].split(" ")[1])
            x = expected_colour({"kind": "kymo", "P": case["P"], "iw": iw[off:], "channels": {"red": red[off:]}, "lead": {}}, "red")
            if x is not None and ia[1] != show_expected(x[0]):
                return (f"{x[1]}: regular kymograph {case}: after the first-line repair the start is sample {off}; red is "
                        f"{ia[1][:200]}, the reconstruction from that start is {show_expected(x[0])[:200]}")
        return None
    e = explicit(case)
    if any(c > 2 for c in e["iw"]):
        return None
    P, L = e["P"], e.get("L")
    ppf = P * (L or 1)
    red_shape = None
    for ci, color in enumerate(COLORS):
        x = expected_colour(e, color)
        if x is None:
            continue
        exp_img, clause, total = x
        if total is not None and ia[ci].startswith("["):
            got_total = sum(int(v) for v in ia[ci].split(" ")[1][1:-1].split(",") if v != "")
            if got_total != total:
                return f"conservation: {color} image total {got_total} != total count {total} of the used samples"
        if ci == 0:
            red_shape = exp_img.shape
        exp = show_expected(exp_img)
        if ia[ci] != exp:
            return f"{clause}: {color} image is {ia[ci][:200]}, expected {exp[:200]}"
    # metadata
    meta = ia[3]
    if e["kind"] == "kymo":
        if red_shape is not None:
            exp = "[" + ",".join(map(str, list(red_shape) + [3])) + f"] {P}"
            if meta != exp:
                return f"shape: Kymo.shape/pixels_per_line = {meta}, expected {exp}"
    else:
        nf, shape = scan_meta_expected(e)
        exp = f"{nf} {P} {L} " + show_shape(shape)
        if meta != exp:
            return f"shape: num_frames pixels_per_line lines_per_frame shape = {meta}, expected {exp}"
        if len(ia) > 7 and ia[7] != show_shape(shape):
            return (f"shape: Scan.shape asked first of a new scan (metadata frame count {int(e.get('scan_count', 0))}) = "
                    f"{ia[7]}, expected {show_shape(shape)}")
    return None


# ------------------------------------------------------------------ bookkeeping


def nontrivial(case, ia):
    if case["op"] in ("window", "regrepair"):
        return True
    if case["op"] == "sum":
        seen = [a for a in ia if a != UNOBSERVED]
        return bool(seen) and (seen[0].endswith("Error") or bc.count_pixels(case["iw"]) >= 1)
    if case["op"] == "seq":
        # some colour is answered twice with an image, and some image is non-zero
        Q, ans = case["queries"], ia[0].split(";")
        if len(ans) != len(Q):
            return False
        twice = any(sum(1 for q, a in zip(Q, ans) if q == c and a.startswith("[")) >= 2 for c in range(3))
        return twice and any(" " in a and any(ch not in "[], 0" for ch in a.split(" ")[1]) for a in ans)
    e = explicit(case)
    for ci, color in enumerate(COLORS):
        sp = shared_span(e, color)
        if sp in (None, "late"):
            continue
        iw_s, d_s = sp
        if bc.count_pixels(iw_s) < 2 or not ia[ci].startswith("["):
            continue
        assign = bc.pixel_of_sample(iw_s)
        if any(a < 0 and d != 0 for a, d in zip(assign, d_s)) and any(ch not in "[], 0" for ch in ia[ci].split(" ")[1]):
            return True
    return False


def tags(case, r):
    t = {"op": case["op"]}
    if case["op"] == "window":
        t["kind"] = "kymo"
        return t
    if case["op"] == "regrepair":
        t["kind"] = "kymo"
        return t
    if case["op"] != "sum":
        e = explicit(case)
        t["kind"] = e["kind"]
    if case["op"] == "seq":
        t["stream_starts_inside_item"] = any(shared_span(e, c) == "late" for c in COLORS)
    return t


def shrink(case):
    if case["op"] == "regrepair":
        for key, lo in (("n", 1), ("P", 1), ("k", 1), ("lead", 0), ("d", 0), ("late", 1)):
            if case[key] > lo:
                yield dict(case, **{key: case[key] - 1})
        return
    if case["op"] == "window":
        if case["l1"] - case["l0"] > 1:
            yield dict(case, l1=case["l0"] + 1)
        return
    if case["op"] == "sum":
        n = len(case["iw"])
        if n > 1 and len(case["data"]) == n:
            for cut in (slice(0, n // 2), slice(0, n - 1), slice(1, n)):
                c = dict(case)
                c["iw"] = case["iw"][cut]
                c["data"] = case["data"][cut]
                yield c
        if case["shape"] != [1]:
            c = dict(case)
            c["shape"] = [1]
            yield c
        return
    if case["op"] == "seq":
        Q = case["queries"]
        keep_tail = 4 if len(Q) >= 4 and list(Q[-4:]) == [0, 1, 2, 3] else 0
        for i in range(len(Q) - keep_tail):
            yield dict(case, queries=Q[:i] + Q[i + 1 :])
    if "gen" in case:
        g = case["gen"]
        lay = g["layout"]

        def with_layout(**kw):
            c = json.loads(json.dumps(case))
            c["gen"]["layout"].update(kw)
            return c

        def with_gen(**kw):
            c = json.loads(json.dumps(case))
            c["gen"].update(kw)
            return c

        L = lay.get("L")
        if lay["lines"] > (L or 1):
            yield with_layout(lines=lay["lines"] - (L or 1), trunc=None)
            yield with_layout(lines=max(L or 1, lay["lines"] // 2 // (L or 1) * (L or 1)), trunc=None)
        if lay.get("trunc") is not None:
            yield with_layout(trunc=None)
        if lay["P"] > (2 if L else 1):
            yield with_layout(P=lay["P"] - 1, trunc=None)
        if L and L > 2:
            yield with_layout(L=L - 1, lines=(lay["lines"] // L) * (L - 1), trunc=None)
        if lay.get("k", 1) != 1:
            yield with_layout(k=1, trunc=None)
        for key in ("lead_in", "dead", "frame_dead", "intra", "tail"):
            if lay.get(key, 0) != 0:
                yield with_layout(**{key: 0}, trunc=None)
        if g.get("modes") != {"red": "full", "green": "absent", "blue": "absent"}:
            yield with_gen(modes={"red": "full", "green": "absent", "blue": "absent"})
            for col in COLORS:
                m = g.get("modes")
                if isinstance(m, dict) and m.get(col) not in ("absent", None):
                    mm = dict(m)
                    mm[col] = "absent"
                    yield with_gen(modes=mm)
        if g.get("style") != "ids":
            yield with_gen(style="ids")
        if g.get("start", bc.START) != bc.START or g.get("dt", bc.DT) != bc.DT:
            yield with_gen(start=bc.START, dt=bc.DT)
        return
    # explicit object: cut the streams
    n = len(case["iw"])
    for keep in (n // 2, n - 1):
        if keep >= 1:
            c = json.loads(json.dumps(case))
            c["iw"] = case["iw"][:keep]
            yield c
    for col in COLORS:
        if case["channels"].get(col):
            c = json.loads(json.dumps(case))
            c["channels"][col] = None
            yield c


# ------------------------------------------------------------------ generators


def gen_case(op, layout, seed, **g):
    gen = {"layout": layout, "seed": int(seed)}
    gen.update(g)
    return {"op": op, "gen": gen}


AXIS_PAIRS = [(0, 1), (1, 0), (0, 2), (2, 0), (1, 2), (2, 1)]


def corpus_cases():
    # the interleaved-discard wave drawn in detail/image.py (discards inside pixels), k = 7 used samples per pixel
    doc = [1, 0, 0, 1, 0, 1, 2, 0, 1, 0, 0, 1, 0, 1, 0, 1, 0, 0, 1, 0, 2, 0, 1, 0, 1, 0, 0, 1, 0, 1, 0, 1, 2, 1, 0, 0, 1]
    yield {"stream": "corpus", "op": "sum", "data": [1 << i for i in range(len(doc))], "iw": doc, "shape": [2]}
    yield {"stream": "corpus", "op": "kymo", "iw": doc, "P": 2, "fast": 0,
           "channels": {"red": [1 << i for i in range(len(doc))], "green": [7] * 20, "blue": None}, "lead": {}}
    # non-constant samples per pixel, counts in the dead time, unfinished last frame, Y fast
    iw = [0, 1, 2, 2, 0, 0, 1, 1, 2, 2, 0, 2, 1, 2, 0, 2]
    yield {"stream": "corpus", "op": "scan", "iw": iw, "P": 2, "L": 2, "fast": 1, "slow": 0, "scan_count": 0,
           "channels": {"red": [1 << i for i in range(len(iw))], "green": [99, 1, 1, 1, 99, 99, 1, 1, 1], "blue": None},
           "lead": {}}
    # photon stream that starts before the info wave and ends after it
    iw = [0, 2, 2, 0, 2, 2, 0, 2]
    yield {"stream": "corpus", "op": "kymo", "iw": iw, "P": 2, "fast": 1,
           "channels": {"red": [50, 60, 70] + [1 << i for i in range(len(iw))] + [80, 90], "green": None, "blue": [5, 6]},
           "lead": {"red": 3}}
    # a colour whose channel exists but holds no sample inside the item: recorded only after it ended (blue), stopped
    # before it began (green); kymograph and scan
    iw = [0, 1, 2, 1, 2, 0, 0, 1, 2, 1, 2, 0, 0, 1, 2, 1, 2, 0]
    yield {"stream": "corpus", "op": "kymo", "iw": iw, "P": 2, "fast": 0,
           "channels": {"red": [1 << i for i in range(len(iw))], "green": [7, 8], "blue": [5, 6, 7]},
           "lead": {"green": 2, "blue": -len(iw)}}
    iw = [2, 2, 0, 2, 2, 0, 0, 2, 2, 0, 2]
    yield {"stream": "corpus", "op": "scan", "iw": iw, "P": 2, "L": 2, "fast": 1, "slow": 0, "scan_count": 0,
           "channels": {"red": [9, 9, 9], "green": [1 << i for i in range(len(iw))], "blue": [5, 6, 7]},
           "lead": {"red": 4, "blue": -len(iw) - 3}}
    # sequences on one kymograph whose only photon stream (green) starts inside the first line: an empty colour is asked
    # first, then green (first-line repair), then everything again
    iw = [0, 1, 2, 1, 2, 1, 2, 0, 0, 1, 2, 1, 2, 1, 2, 0, 0, 1, 2, 1, 2, 1, 2, 0, 0, 1, 2, 1, 2, 1, 2, 0, 0]
    cnt = [1 << (i % 20) for i in range(len(iw))]
    for late, qs in ((2, [0, 1, 0, 1, 2, 3]), (4, [2, 4, 1, 1, 0, 1, 2, 3]), (9, [3, 0, 1, 2, 3]), (12, [0, 1, 1, 0, 1, 2, 3])):
        yield {"stream": "corpus", "op": "seq", "kind": "kymo", "iw": iw, "P": 3, "fast": 0,
               "channels": {"red": None, "green": cnt[late:], "blue": [3, 4]}, "lead": {"green": -late, "blue": -len(iw)},
               "queries": qs}
    # a single boundary as the very last sample; nothing but discards
    yield {"stream": "corpus", "op": "sum", "data": [3, 4, 5], "iw": [0, 1, 2], "shape": [4]}
    yield {"stream": "malformed", "op": "sum", "data": [3, 4, 5], "iw": [0, 0, 0], "shape": [1]}
    d = os.path.join(VERIF, "corpus", PROP)
    for f in sorted(glob.glob(os.path.join(d, "*.json"))):
        c = json.load(open(f))
        c = c.get("case", c)
        c["stream"] = "corpus"
        yield c


def window_cases(rng, n):
    """kymographs restricted to a window of whole lines, with an absent colour (seeded change C02b-m2)"""
    for i in range(n):
        sub = rng.fork(("window", i))
        P, lines, k = sub.randint(1, 4), sub.randint(2, 6), sub.randint(1, 3)
        iw = bc.infowave(P, lines, k, lead_in=sub.randint(0, 3), dead=sub.randint(1, 3), tail=sub.randint(0, 2))
        cnt = bc.counts(sub, iw, "mixed")
        present = sub.choice([("red",), ("green",), ("red", "blue"), ("blue",), ("red", "green", "blue")])
        channels = {c: (list(cnt) if c in present else None) for c in COLORS}
        l0 = sub.randint(0, lines - 1)
        l1 = sub.randint(l0 + 1, lines)
        yield {"stream": "window", "op": "window", "P": P, "iw": iw, "channels": channels, "l0": l0, "l1": l1, "subseed": i}


SEQ_TAIL = [0, 1, 2, 3]  # every generated sequence ends by asking the three colours and rgb once more
PERMS = [list(p) for p in itertools.permutations((0, 1, 2))]


def seq_small_scope(quick):
    """kymographs whose photon stream(s) start(s) at EVERY sample of the first line (and just after it), the other
    colours absent / complete / recorded after the item, asked in every order of a first round, then once more"""
    others = [("absent", "absent"), ("full", "absent"), ("absent", "after"), ("after", "full"), ("late", "absent")]
    i = 0
    for P in (1, 2, 3):
        for lines in (3, 4):
            for k in (1, 2):
                for dead in (1, 2):
                    for lead_in in (0, 1):
                        lay = {"P": P, "L": None, "lines": lines, "k": k, "lead_in": lead_in, "dead": dead, "trunc": None}
                        s2 = second_line_start(bc.layout_infowave(lay), P)
                        for lc in range(3):
                            for d in range(1, s2 + 2):
                                for oi, om in enumerate(others):
                                    for pi, perm in enumerate(PERMS):
                                        i += 1
                                        if quick and i % 37 != 0:
                                            continue
                                        rest = [c for c in range(3) if c != lc]
                                        modes = {COLORS[lc]: "late", COLORS[rest[0]]: om[0], COLORS[rest[1]]: om[1]}
                                        lateness = {c: (d if c == COLORS[lc] else 1 + (d + oi) % s2) for c, m in modes.items() if m == "late"}
                                        mid = [[], [lc], [3], [4, lc]][(i // 37 if quick else i) % 4]
                                        yield {"stream": "seq-small-scope", "kind": "kymo", "queries": perm + mid + SEQ_TAIL,
                                               **gen_case("seq", lay, i, modes=modes, lateness=lateness, style="ids", fast=i % 3)}


def seq_pure_small_scope(quick):
    """objects WITHOUT a photon stream starting inside them (the family of answers_history_independent): small kymographs
    and scans (both axis orders), colours full / short / absent / recorded after the item, EVERY sequence of up to three
    queries over colours, rgb and (kymographs) Kymo.shape; each sequence is also replayed query by query on new objects"""
    layouts = [
        ("kymo", {"P": 2, "L": None, "lines": 2, "k": 1, "lead_in": 1, "dead": 1, "trunc": None}, {}),
        ("kymo", {"P": 1, "L": None, "lines": 3, "k": 2, "lead_in": 0, "dead": 1, "trunc": 5}, {}),
        ("scan", {"P": 2, "L": 2, "lines": 4, "k": 1, "lead_in": 0, "dead": 1, "trunc": None}, {"fast": 0, "slow": 1}),
        ("scan", {"P": 2, "L": 2, "lines": 3, "k": 2, "lead_in": 1, "dead": 0, "trunc": None}, {"fast": 1, "slow": 0}),
    ]
    mode_sets = [
        {"red": "full", "green": "short", "blue": "absent"},
        {"red": "absent", "green": "full", "blue": "after"},
        {"red": "early+short", "green": "absent", "blue": "full"},
    ]
    i = 0
    for kind, lay, ax in layouts:
        # scans: 4 = Scan.shape, 5 = Scan.num_frames (continuous scans: metadata frame count 0, reconstructed from the
        # info wave and stored by the first num_frames; every second mode set: the count is in the metadata)
        alphabet = (0, 1, 2, 3, 4) if kind == "kymo" else (0, 1, 2, 3, 4, 5)
        for mi, modes in enumerate(mode_sets):
            extra = dict(ax, scan_count=("true" if mi == 1 else 0)) if kind == "scan" else ax
            for n in (1, 2, 3):
                for qs in itertools.product(alphabet, repeat=n):
                    i += 1
                    if quick and i % 5:
                        continue
                    yield {"stream": "seq-small-scope", "kind": kind, "queries": list(qs),
                           **gen_case("seq", lay, 1000 + mi, modes=modes, style="ids", **extra)}


def reg_small_scope(quick):
    """regular kymographs (the family of seek_regular_second_line / first_line_repair / fresh_after_repair) with a green
    stream starting 1 sample late, in the middle of the first line and on the first sample of the second line; plus
    the layouts outside the theorems' hypotheses (one pixel per line, no dead time, a single line)"""
    i = 0
    for lead in (0, 1, 2):
        for k in (1, 2, 3):
            for d in (0, 1, 2, 3):
                for P in (1, 2, 3, 4):
                    for n in (1, 2, 3, 4):
                        s2 = lead + P * k + d
                        for late in sorted({1, max(1, s2 // 2), s2}):
                            i += 1
                            if quick and i % 4:
                                continue
                            if late >= lead + n * (P * k + d):
                                continue
                            yield {"stream": "small-scope", "op": "regrepair", "lead": lead, "k": k, "d": d, "P": P, "n": n, "late": late}


SEQ_MODES = ["full", "full", "absent", "absent", "short", "long", "early", "early+short", "after", "before"]


def seq_random(rng, n):
    """random sequences of queries on random objects; about half of the kymographs have a stream that starts inside
    the first line ("late") or beyond it ("late-far")"""
    for i in range(n):
        sub = rng.fork(("seq", i))
        kind = sub.choice(["kymo", "kymo", "scan"])
        lay = bc.random_layout(sub, kind, max_p=6, max_l=6, max_frames=2, max_k=3)
        fast, slow = sub.choice(AXIS_PAIRS)
        modes = {c: sub.choice(SEQ_MODES) for c in COLORS}
        nlate = 0
        if sub.chance(0.55 if kind == "kymo" else 0.15):
            if kind == "kymo" and lay["lines"] < 3:
                lay["lines"] += 2
            for c in sub.sample(COLORS, sub.choice([1, 1, 2])):
                modes[c] = sub.choice(["late", "late", "late", "late-far"])
                nlate += 1
        qs = sub.sample([0, 1, 2], sub.choice([1, 2, 3, 3, 3]))
        kinds = [0, 1, 2, 3, 4] + ([] if kind == "kymo" else [4, 5, 5])  # 4 = shape, 5 = Scan.num_frames
        qs += [sub.choice(kinds) for _ in range(sub.randint(0, 4))]
        if kind == "scan" and sub.chance(0.4):  # a metadata query before any image was made
            qs = [sub.choice([4, 4, 5])] + qs
        for c in COLORS:  # a stream beyond the first line needs more than one access before it yields an image
            if modes[c] == "late-far":
                qs += [COLORS.index(c)] * sub.randint(1, 3)
        if sub.chance(0.85):
            qs += SEQ_TAIL
        dt = sub.choice([bc.DT, 1, 7, sub.randint(1, 10**6)])
        g = dict(fast=fast, slow=slow, modes=modes, dt=dt,
                 start=sub.choice([bc.START, bc.FIRST_TIMESTAMP + 5 * dt + sub.randint(0, 10**9)]),
                 count_dtype=sub.choice(["int64", "uint32"]))
        if sub.chance(0.3):
            g["style"] = "ids"
        if kind == "scan":
            g["scan_count"] = sub.choice([0, 0, "true"])
        yield {"stream": "seq-random", "subseed": i, "kind": kind, "queries": qs, **gen_case("seq", lay, sub.next() >> 1, **g)}


def cases(tier, rng):
    quick = tier == "quick"
    yield from corpus_cases()
    yield from window_cases(rng.fork("c02-window"), 120 if quick else 3000)
    yield from seq_small_scope(quick)
    yield from reg_small_scope(quick)
    yield from seq_pure_small_scope(quick)
    yield from seq_random(rng.fork("c02-seq"), 500 if quick else 8000)

    # ---- (a) every info wave over {0,1,2} up to a length, direct call
    maxn = 6 if quick else 8
    shapes = [[1], [2], [3], [2, 2], [3, 2]]
    i = 0
    for n in range(0, maxn + 1):
        for iw in itertools.product((0, 1, 2), repeat=n):
            data = [1 << j for j in range(n)]
            for shape in ([shapes[i % len(shapes)]] if quick or n > 6 else shapes[:4]):
                yield {"stream": "small-scope", "op": "sum", "data": data, "iw": list(iw), "shape": shape}
            i += 1
    for n in range(1, 5):
        for iw in itertools.product((0, 2, 3), repeat=n):
            if 3 in iw:
                yield {"stream": "odd-codes", "op": "sum", "data": [1 << j for j in range(n)], "iw": list(iw), "shape": [2]}
    for nd, ni in ((0, 1), (1, 0), (2, 3), (3, 2), (5, 4), (1, 4)):
        yield {"stream": "malformed", "op": "sum", "data": [1] * nd, "iw": ([1, 2] * 3)[:ni], "shape": [1]}

    # ---- (b) small real objects, truncated at every sample
    # blue: no channel at all / a channel recorded only after the item / one that stopped before it began
    mode_variants = [
        {"red": "full", "green": "early+short", "blue": "absent"},
        {"red": "full", "green": "early+short", "blue": "after"},
        {"red": "full", "green": "early+short", "blue": "absent"},
        {"red": "full", "green": "after", "blue": "before"},
        {"red": "full", "green": "early+short", "blue": "absent"},
    ]
    style = {"red": "ids", "green": "loud", "blue": "mixed"}
    stride = 2 if quick else 1
    sd = 0
    for P in (1, 2, 3):
        for k in (1, 2):
            for dead in (0, 1, 2):
                for lead_in in (0, 1):
                    for lines in (1, 2, 3):
                        if quick and (dead == 1 or (lines == 2 and lead_in == 1)):
                            continue
                        lay = {"P": P, "L": None, "lines": lines, "k": k, "lead_in": lead_in, "dead": dead}
                        n = len(bc.layout_infowave(lay))
                        for t in list(range(1, n, stride)) + [None]:
                            sd += 1
                            yield {"stream": "small-scope", **gen_case("kymo", dict(lay, trunc=t), sd, modes=mode_variants[sd % 5], style=style, fast=sd % 3)}
    stride = 3 if quick else 1
    for P in (2, 3):
        for L in (2, 3):
            for k in (1, 2):
                for dead in (0, 1, 2):
                    for frames in (1, 2):
                        for fast, slow in ((0, 1), (1, 0)):
                            if quick and (dead == 1 or (k == 2 and P == 3 and L == 3)):
                                continue
                            lay = {"P": P, "L": L, "lines": frames * L, "k": k, "lead_in": dead % 2, "dead": dead,
                                   "frame_dead": 1 if dead == 2 else 0}
                            n = len(bc.layout_infowave(lay))
                            for t in list(range(1, n, stride)) + [None]:
                                sd += 1
                                yield {"stream": "small-scope", **gen_case(
                                    "scan", dict(lay, trunc=t), sd, modes=mode_variants[sd % 5], style=style, fast=fast, slow=slow,
                                    scan_count=("true" if sd % 2 else 0))}

    # ---- (c) seeded random objects (the few large ones come last: see the end of this function)
    N = 5000 if quick else 60000
    p_large, p_medium = (0.008, 0.08) if quick else (0.0035, 0.06)
    r = rng.fork("c02-random")
    large = []
    for i in range(N):
        sub = r.fork(i)
        op = sub.choice(["kymo", "scan", "scan"])
        size = sub.random()
        if size < p_large:
            lay = bc.random_layout(sub, op, max_p=64, max_l=64, max_frames=5, max_k=8)
        elif size < p_large + p_medium:
            lay = bc.random_layout(sub, op, max_p=24, max_l=24, max_frames=2, max_k=5)
        else:
            lay = bc.random_layout(sub, op, max_p=8, max_l=8, max_frames=3, max_k=4)
        fast, slow = sub.choice(AXIS_PAIRS)
        dt = sub.choice([bc.DT, 1, 7, 1000, sub.randint(1, 10**6)])
        g = dict(
            fast=fast, slow=slow,
            scan_count=sub.choice([0, 0, "true"]),
            count_dtype=sub.choice(["int64", "uint32", "int32"]),
            # an early photon stream starts up to 5 samples before `start`; low_level refuses timestamps below FIRST
            start=sub.choice([bc.START, bc.START + sub.randint(0, 10**12), bc.FIRST_TIMESTAMP + 5 * dt + sub.randint(0, 10**9)]),
            dt=dt,
        )
        if sub.chance(0.25):
            g["style"] = "ids"
        case_seed = sub.next() >> 1
        if sub.chance(0.12):
            # explicit colour modes including channels that exist but hold no sample inside the item
            g["modes"] = {c: sub.choice(SEQ_MODES) for c in COLORS}
            g["modes"][sub.choice(COLORS)] = sub.choice(["after", "before"])
        c = {"stream": "random", "subseed": i, **gen_case(op, lay, case_seed, **g)}
        if size < p_large:
            c["stream"] = "random-large"
            large.append(c)
        else:
            yield c

    # ---- (d) malformed stream
    M = 400 if quick else 6000
    r = rng.fork("c02-malformed")
    for i in range(M):
        sub = r.fork(i)
        op = sub.choice(["kymo", "scan"])
        kind = sub.randint(0, 3)
        lay = bc.random_layout(sub, op, max_p=4, max_l=4, max_frames=2, max_k=3)
        fast, slow = sub.choice(AXIS_PAIRS)
        g = dict(fast=fast, slow=slow)
        if kind == 0:
            # no pixel boundary at all: cut inside the first pixel / the lead-in
            full = bc.layout_infowave(dict(lay, trunc=None))
            first = full.index(2) if 2 in full else 0
            lay["trunc"] = sub.randint(1, max(1, first))
            if first == 0:
                lay["lead_in"] = 2
                lay["trunc"] = 2
        elif kind == 1:
            # a colour that ends before its first completed pixel while others are complete
            lay["trunc"] = None
            lay["lead_in"] = max(1, lay.get("lead_in", 0))
            g["modes"] = {"red": "full", "green": "absent", "blue": "absent"}
            g["cut_red"] = True
        elif kind == 2 and op == "scan":
            g["modes"] = {"red": "late", "green": sub.choice(["full", "late"]), "blue": "absent"}
        else:
            op = "scan"
            lay = bc.random_layout(sub, "scan", max_p=4, max_l=4, max_frames=2, max_k=3)
            g["scan_count"] = sub.randint(1, 4)
        c = {"stream": "malformed", "subseed": i, **gen_case(op, lay, sub.next() >> 1, **g)}
        if g.get("cut_red"):
            e = dict(explicit(c))
            e["channels"] = dict(e["channels"])
            e["channels"]["red"] = e["channels"]["red"][: lay["lead_in"]]
            e["stream"] = "malformed"
            e.pop("kind", None)
            c = e
        yield c
    # large cases last (keeps them out of the evidence samples, which are taken at 0, 1/6, ... 5/6 of the run)
    yield from large


def extra_coverage(results):
    kinds, errs, modes_seen = {}, {}, {}
    pix_hist = {"0": 0, "1-9": 0, "10-99": 0, "100-999": 0, "1000+": 0}
    k_nonconst = dead_per_line = intra = trunc = flip = explicit_frames = partial_last = lead_in = 0
    max_samples = max_pixels = 0
    seq_n = seq_queries = seq_repaired = seq_hits = seq_fresh = 0
    totals_ok = totals_err = 0
    seq_final_start = {}
    reg_seen = {}
    branches = {"no-data:zeros": 0, "no-data:no-boundary": 0, "shared-span:walk": 0, "shared-span:no-boundary": 0,
                "starts-inside-scan": 0, "size-mismatch/other": 0}
    for r in results:
        c = r["case"]
        kinds[c["op"] + "/" + c.get("stream", "?")] = kinds.get(c["op"] + "/" + c.get("stream", "?"), 0) + 1
        for a in r["impl"]:
            if a.endswith("Error"):
                errs[a] = errs.get(a, 0) + 1
        if c["op"] == "window":
            continue
        if c["op"] == "regrepair":
            key = "in-scope" if reg_in_scope(c) else "P=1" if c["P"] < 2 else "one-line" if c["n"] < 2 else "no-dead-time"
            w = r["impl"][0].split(" ")[-1]
            land = "error" if not w.isdigit() else "second-line" if int(w) == c["lead"] + c["P"] * c["k"] + c["d"] else "elsewhere"
            reg_seen[key + ":" + land] = reg_seen.get(key + ":" + land, 0) + 1
            continue
        if c["op"] == "seq":
            seq_n += 1
            seq_queries += len(c["queries"])
            ans = r["impl"][0].split(";")
            imgs = {a.split(" ")[0] for q, a in zip(c["queries"], ans) if q < 3 and " " in a}
            seq_repaired += 1 if len(imgs) > 1 else 0
            seq_hits += sum(max(0, sum(1 for q, a in zip(c["queries"], ans) if q == col and " " in a) - 1) for col in range(3))
            seq_fresh += 1 if len(r["impl"]) > 2 else 0
            if len(r["impl"]) > 1:
                seq_final_start[r["impl"][1] if r["impl"][1] in ("0",) or not r["impl"][1].isdigit() else "moved"] = \
                    seq_final_start.get(r["impl"][1] if r["impl"][1] in ("0",) or not r["impl"][1].isdigit() else "moved", 0) + 1
        if c["op"] == "sum":
            n = bc.count_pixels(c["iw"])
        else:
            e = explicit(c)
            n = bc.count_pixels(e["iw"])
            max_samples = max(max_samples, len(e["iw"]))
            ppf = e["P"] * (e.get("L") or 1)
            partial_last += 1 if n % ppf else 0
            if e["kind"] == "scan":
                flip += 1 if e["fast"] > e["slow"] else 0
                explicit_frames += 1 if e.get("scan_count", 0) else 0
            if "gen" in c:
                lay = c["gen"]["layout"]
                k_nonconst += isinstance(lay.get("k"), list)
                dead_per_line += isinstance(lay.get("dead"), list)
                intra += 1 if lay.get("intra") else 0
                trunc += lay.get("trunc") is not None
                lead_in += 1 if lay.get("lead_in") else 0
            for col in COLORS:
                d = e["channels"].get(col)
                m = int((e.get("lead") or {}).get(col, 0))
                if not d:
                    key = "absent"
                elif m < 0:
                    key = "after" if -m >= len(e["iw"]) else "late"
                elif m >= len(d):
                    key = "before"
                else:
                    ln = len(d) - m
                    key = ("early+" if m > 0 else "") + ("short" if ln < len(e["iw"]) else "long" if ln > len(e["iw"]) else "full")
                modes_seen[key] = modes_seen.get(key, 0) + 1
            if c["op"] in ("kymo", "scan") and len(r["impl"]) >= 7:
                # which branch of channelPixels_spec / colourPixelsSpec each colour took, and the totals compared
                for ci, col in enumerate(COLORS):
                    a, tot = r["impl"][ci], r["impl"][4 + ci]
                    sp = shared_span(e, col)
                    if tot.endswith("Error") or tot == "non-integer-image":
                        totals_err += 1
                    else:
                        totals_ok += 1
                    if sp == "late":
                        branches["starts-inside-scan"] += 1
                    elif a.startswith("["):
                        branches["no-data:zeros" if sp is None else "shared-span:walk"] += 1
                    elif a == "IndexError":
                        branches["no-data:no-boundary" if sp is None else "shared-span:no-boundary"] += 1
                    else:
                        branches["size-mismatch/other"] += 1
        max_pixels = max(max_pixels, n)
        b = "0" if n == 0 else "1-9" if n < 10 else "10-99" if n < 100 else "100-999" if n < 1000 else "1000+"
        pix_hist[b] += 1
    return {
        "case_kinds": kinds,
        "error_kinds": errs,
        "completed_pixels_histogram": pix_hist,
        "max_samples": max_samples,
        "max_pixels": max_pixels,
        "channel_modes": modes_seen,
        "nonconstant_samples_per_pixel": k_nonconst,
        "per_line_dead_time": dead_per_line,
        "interleaved_discards": intra,
        "truncated_waves": trunc,
        "with_lead_in": lead_in,
        "unfinished_last_line_or_frame": partial_last,
        "scans_fast_axis_higher": flip,
        "scans_explicit_frame_count": explicit_frames,
        "sequence_cases": seq_n,
        "sequence_queries": seq_queries,
        "sequence_repeated_colour_answers": seq_hits,
        "sequences_where_a_colour_changed_shape": seq_repaired,
        "sequences_replayed_query_by_query_on_new_objects": seq_fresh,
        "sequence_final_start": seq_final_start,
        "regular_kymograph_repairs": reg_seen,
        "image_totals_compared": totals_ok,
        "image_total_errors_compared": totals_err,
        "colour_pixels_branches": branches,
        "exhaustive": False,
        "exhaustive_note": "the small-scope streams enumerate their finite spaces completely (thorough tier; the quick "
        "tier strides them); the random streams do not",
    }
