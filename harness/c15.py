"""C15 — dwell-time likelihoods are normalised, correctly differentiated and maximised; the dwell-time data a
track group hands to the model (see DESIGN.md 6/C15).

Implementation side: the private likelihood / Jacobian / constraint / bounds functions of
lumicks/pylake/population/dwelltime.py (anchors of the property), DwelltimeModel (public), and
KymoTrackGroup._extract_dwelltime_data_from_groups / fit_binding_times on track groups built here
(minimal builder below; no dependency on the repo's test helpers).
Model side: lean/Verif/Model/C15.lean through the compiled driver (`c15.*` ops).
Oracle: plain NumPy (80-bit long double where available) written from the property text: the textbook truncated
mixture density, its explicit sum / Gauss-Legendre quadrature, a 6th-order numerical gradient, the simplex and
bound conditions, the closed-form one-component estimate, the density of data pooled from several observation windows
(count-weighted truncated densities, each on its own window) and its integral, and the per-track rows of the extraction.
Track groups are also treated as OBJECTS with a history: one group is analysed, edited (in place: filter,
remove_tracks_in_rect, remove, extend, split, merge; or replaced by / set aside for a copy, slice, sum, filter_tracks
result) and analysed again after every edit; each analysis is judged on the tracks the group object holds at that moment.
Amplitudes cover the whole interval the optimiser searches, [1e-9, 1 - 1e-9] (rare populations, the bounds themselves), and
every gradient entry is judged on the scale of the terms it sums.  During every DwelltimeModel fit the harness also looks
over the optimiser's shoulder: the gradient SLSQP is handed when it asks for one is recorded (not altered) and three of
these requests per fit (first, last, smallest amplitude) are compared with the model's Jacobian and with the oracle's
numerical gradient of the log-likelihood at that very point.
Deepening round D: `likwin` (likelihood where exp(-t_min/tau) underflows: the factored normalisation), `assemble`
(_exponential_mle_optimize behind a stand-in optimiser: fixed-parameter masks, default guess, selected bounds / gradient,
reported vector and likelihood; `_exponential_mle_optimize` unreachable -> "?") and `fbt` (fit_binding_times with options
given or left out; public API only) cases, and deterministic small-scope fits.
Strengthening round H: `extract` cases with "groups" hand the anchored extraction function explicit groups (empty ones,
several per kymograph, several kymographs in one) instead of the per-kymograph split of one group object.

Private names (DESIGN.md C15, "Robustness against refactorings"): every private member of pylake is looked up at the point
of use (`priv`, `takes`, getattr); when it is gone or takes other arguments the harness raises its own `Unreachable` and
(a) makes the observation through the public API -- the arguments fit_binding_times hands to the public DwelltimeModel
constructor (`model_arguments_recorded`), the public DwelltimeModel evaluated at the harness' parameters with
scipy.optimize.minimize replaced by a stand-in (`public_model_at`), the bounds SLSQP is handed, kymographs made through
low_level (`public_kymo`), the kymograph of a track read off its public positions (`kymo_of`) -- or, where no public route
exists, (b) answers "?", which `agree` and the oracle skip.  An unreachable private name never becomes an implementation
answer; how often it happened is in the coverage record (`private_members_the_harness_could_not_reach`).
"""
import contextlib
import functools
import inspect
import itertools
import math
import sys
import warnings
from fractions import Fraction

import numpy as np

from common import canonical, dec_float, dec_list, dec_rat, enc_bool, enc_float, enc_list, enc_rat, errname

PROP = "C15"
THEOREMS = [
    "Verif.C15.pdfCont_eq_spec",
    "Verif.C15.pmfDisc_eq_spec",
    "Verif.C15.continuous_integrates_to_one",
    "Verif.C15.pooled_density_integrates_to_one",
    "Verif.C15.discrete_sums_to_one",
    "Verif.C15.discrete_sum_excluding_tmax_lt_one",
    "Verif.C15.continuous_integrates_to_one_unbounded",
    "Verif.C15.discrete_sums_to_one_unbounded",
    "Verif.C15.relabel_invariant",
    "Verif.C15.relabel_invariant_logLik",
    "Verif.C15.amplitude_constraint_one_free",
    "Verif.C15.amplitude_constraint_simplex",
    "Verif.C15.amplitude_constraint_refuses_iff",
    "Verif.C15.reported_parameters_spec",
    "Verif.C15.one_free_amplitude_reported_on_simplex",
    "Verif.C15.default_guess_spec",
    "Verif.C15.default_guess_accepted",
    "Verif.C15.one_component_mle",
    "Verif.C15.mle_scalar_limit",
    "Verif.C15.one_component_mle_within_bounds",
    "Verif.C15.extraction_spec",
    "Verif.C15.extraction_refuses_iff",
    "Verif.C15.extraction_removed_flag",
    "Verif.C15.extraction_spec_observed_minimum",
    "Verif.C15.observed_minimum_is_least",
    "Verif.C15.extraction_observed_minimum_never_refuses",
    "Verif.C15.extraction_by_kymo_never_mixed",
    "Verif.C15.extraction_groups_by_kymo",
    "Verif.C15.extraction_refuses_mixed_group",
    "Verif.C15.fit_binding_defaults",
    "Verif.C15.fit_binding_rows_spec",
    "Verif.C15.fit_binding_rows_legacy",
    "Verif.C15.gradient_continuous_correct_amp",
    "Verif.C15.gradient_continuous_correct_tau",
    "Verif.C15.gradient_discrete_correct_amp",
    "Verif.C15.gradient_discrete_correct_tau",
    "Verif.C15.gradObs_correct_amp",
    "Verif.C15.gradObs_correct_tau",
    "Verif.C15.jacobian_is_gradient_amp",
    "Verif.C15.jacobian_is_gradient_tau",
    "Verif.C15.mask_inactive_within_bounds",
    "Verif.C15.mask_active_drops_boundary_term",
    "Verif.C15.clip_active_replaces_amplitude",
]
RULE = (
    "small scope (likelihood: 1-3 components on a grid of amplitudes in quarters and lifetimes in {0.1,1,10}, windows "
    "{0,0.5}x{2,50,inf}, steps {None,0.25,0.5}; amplitude constraint: every mask and every amplitude vector over "
    "{0,1/4,1/2,1} for n<=3; extraction: every group of <=3 tracks over two kymographs of 4 and 3 lines, all four flag "
    "combinations) + seeded random streams: 'lik' (1-3 components, amplitudes on the simplex: well populated (>=1e-3) and, in "
    "four of ten mixtures, with one to n-1 rare components anywhere between the optimiser's amplitude bound 1e-9 and 1e-3 -- "
    "on the bound, just inside it, at powers of ten -- half of which are given one dwell time drawn from them alone; the "
    "small scope has the amplitude vectors (1-1e-9, 1e-9), (1e-6, 1-1e-6), (1-1e-3, 1e-3), (1e-9, 1-2e-9, 1e-9), "
    "(0.5, 1e-6, 0.5-1e-6) besides the quarters; lifetimes over 3 "
    "decades, scalar or per-observation (tmin,tmax,step), 1-2000 observations, continuous/discretised, tmax finite/inf, "
    "windows from 0.05 to 100 lifetimes), 'fit' (DwelltimeModel on 20-2000 sampled dwell times; its pdf() is read inside, at the "
    "edges of and just outside every observation window -- scalar limits and 2-3 different per-observation windows -- and "
    "integrated over the union of the windows with panel boundaries at every window edge; the gradient SLSQP is handed during "
    "the fit is recorded at every request and compared, at the first and last request and the one with the smallest "
    "amplitude among those inside the explored parameter family, with the model's Jacobian and the oracle's numerical "
    "gradient at that point), 'constraint' (random "
    "masks/amplitudes incl. invalid), 'extract' (1-3 kymographs, <=12 tracks, tracks in the first/last line, zero-length "
    "tracks, missing minimum durations, directly and through fit_binding_times), 'extract-seq' (ONE group object over 1-4 "
    "kymographs that is analysed, then edited one to five times -- in place by filter(minimum_length/minimum_duration), "
    "remove_tracks_in_rect, remove, extend (also with tracks of a kymograph new to the group), split, merge; or through a "
    "copy / slice / index array / + / filter_tracks result that replaces it or is kept aside and returned to later -- and "
    "analysed again after every edit, each analysis with its own exclude_ambiguous_dwells / observed_minimum flags; the "
    "tracks the object holds at that moment are read off it by iteration and model and oracle are evaluated on them, rows "
    "compared as a multiset; small scope: every sequence of at most two edits from an alphabet of ten on a five-track "
    "group over two kymographs, ambiguous dwells kept and excluded), 'validate' (malformed constructor "
    "arguments). Non-trivial: likelihood case with >=2 components or a finite/discretised window; fit; constraint with "
    "a fixed entry or an error; extraction that drops at least one track and keeps at least one, or raises; edit sequence in "
    "which an edit changed the tracks in the group and a later analysis handed rows over; rejected validation. "
    "Deepening round D: 'likwin' (likelihood and components at parameters inside the lifetime search bounds where the window "
    "probability of some observation is below the range of doubles: two groups of observation limits whose minimum times "
    "differ by a factor 160-2000, largest tmin/tau between 745 and 5000; small scope: 1-3 components x 2 ratios x 3 "
    "windows x continuous/discretised; non-trivial when exp(-tmin/tau) underflows), 'assemble' (_exponential_mle_optimize "
    "with scipy.optimize.minimize replaced by a stand-in that records start vector, bounds, constraint and the gradient "
    "callback's answer at a probe point, answers the probe and lets the cost callback see another point last: every kind of "
    "fixed-parameter mask, amplitudes in 64ths incl. specifications that cannot sum to one, initial_guess given or left out; "
    "small scope: every mask for n <= 2 x 3-4 amplitude vectors x continuous/discretised x tmax finite/inf; non-trivial "
    "when something is fixed or n >= 2), 'fbt' (fit_binding_times with n_components in 0..3 and observed_minimum / "
    "discrete_model given or left out, constructor arguments and warnings recorded; small scope: 4 groups x 4 x 2 x 3 x 3), "
    "small-scope fits (1-2 components x continuous/discretised x scalar/two windows x tmax finite/inf on quantile data). "
    "Strengthening round H: 'extract-groups' (_extract_dwelltime_data_from_groups handed explicit groups instead of the "
    "per-kymograph split: that split reordered with empty groups in between, a kymograph's tracks spread over several "
    "groups, two or all kymographs in one group -- refused, or answered with each track's own kymograph --, any partition; "
    "small scope: every partition of four tracks over two kymographs x reversed with an empty group x all four flag "
    "combinations; no public route: '?' when the function is out of reach); 'validate-edge' (a dwell time 0.5 / 0.9 / "
    "1.1 / 2 / 10 relative tolerances (1e-6) outside the lower or the upper edge of windows from 2 ms to 10^4 s, scalar "
    "and per-observation limits; small scope 4 windows x 2 edges x 5 distances x 2, and random windows)."
)
TRUSTED = [
    "RealLike formulas are executed at Float by the driver and compared with NumPy doubles within rel 1e-9 of a "
    "conditioning-aware scale; the theorems are about the same definitions read at the reals (rounding not modelled)",
    "scipy.optimize.minimize(SLSQP) is a parameter: its result is checked (simplex, bounds, likelihood consistency, "
    "closed form for one component) but convergence for multi-component fits is explored, not proved",
    "scipy.special.logsumexp is modelled as max-shifted log-sum-exp (proved equal to log of the sum of exponentials)",
    "what a track group hands to the model is observed as the arguments of the public DwelltimeModel constructor, recorded "
    "(not altered) by a wrapper around DwelltimeModel.__init__ while fit_binding_times runs",
]
ASSUMPTIONS = [
    "amplitudes > 0 and lifetimes > 0 (hypothesis `Admissible`), tmin < tmax resp. step > 0 in the normalisation theorems",
    "tracks of one kymograph agree on its number of lines and line time (hypothesis `Consistent`; true by construction "
    "since both are read from the shared Kymo object)",
    "generated likelihood cases keep tmin/tau_min <= 60 and (tmax-tmin)/tau_max >= 0.05 so that neither exp underflow "
    "nor catastrophic cancellation in the normalisation decides the comparison (the 'lik' stream; the 'likwin' stream goes "
    "beyond on purpose -- tmin/tau up to 5000 -- and compares likelihood and components only: the Jacobian of the code still "
    "forms exp(-t_min/tau) - exp(-t_max/tau) and is not compared there)",
    "'assemble' cases keep every amplitude of the initial guess positive and in 64ths (sums exact in doubles, so that the "
    "decisions `sum_fixed > 1` / allclose are the same on doubles and on exact rationals) and do not let a single free "
    "amplitude be determined as exactly 0",
    "admissible amplitudes are those the optimiser may hand to the likelihood and its gradient: the interval [1e-9, 1 - 1e-9] "
    "of _exponential_mle_bounds (an amplitude of exactly zero has no two-sided numerical gradient and is not generated)",
    "gradient requests SLSQP makes during a fit are compared only when the requested point lies inside the family the 'lik' "
    "stream explores (amplitudes within the optimiser's bounds, lifetimes within three decades of each other, "
    "tmin/tau_min <= 60, (tmax-tmin)/tau_max >= 0.05, dwell times <= 1e5 tau_min, 5e-5 <= step/tau <= 30); requests with a "
    "lifetime on the search bounds 1e-8 s / 1e8 s are counted in the coverage record, not judged",
    "DwelltimeModel.pdf of the discretised model masks x >= tmax, i.e. it does not draw the bin of the largest "
    "observable dwell time; only its values inside the window are tied, its integral is asserted for the continuous model only",
    "for data pooled from several observation windows the density pdf() has to report is read as the mixture of the "
    "truncated densities of the individual windows weighted by their share of the dwell times, each zero outside its own "
    "window (the density the per-observation likelihood is the likelihood of); single points on a window edge are tied to "
    "the model only",
    "for a group object with a history, 'the tracks of the group' are the tracks iterating over the object yields at the "
    "time of the analysis; what an edit (filter, remove_tracks_in_rect, ...) ought to leave in the group is not part of "
    "this property and is not asserted; the order of the rows handed over is not determined by the property (the "
    "likelihood is a sum over observations) and is compared only for freshly built groups",
]

LD = np.longdouble
# rounding of one evaluation of the oracle's log-likelihood, per unit of `nll_scale`: the stencil of `o_numgrad` passes on
# at most 1.8 eps * nll_scale / step when every rounding error points the same way; 50 times that is allowed
NUM_EPS = 1e2 * float(np.finfo(LD).eps)
_DROPPED = {}  # generator cases moved away from a floating-point tie of a decision the code takes
_LAST = {}  # canonical(case) -> impl answers (ops of 'fit' cases need the fitted parameters)


# ------------------------------------------------------------------ helpers


def fl(xs):
    return enc_list(list(np.atleast_1d(np.asarray(xs, dtype=float))), enc_float)


def enc_value(v):
    """what a callback handed to SciPy returns: a scalar, or an array of one element (SciPy takes either); anything else
    is shown as the list it is"""
    a = np.asarray(v, dtype=float).ravel()
    return enc_float(float(a[0])) if a.size == 1 else fl(a)


def dec_fl(s):
    inner = s.strip()[1:-1]
    return [] if inner == "" else [dec_float(x) for x in inner.split(",")]


def dec_mat(s):
    inner = s.strip()[1:-1]
    return [[dec_float(x) for x in row.split(",")] if row else [] for row in inner.split(";")] if inner else []


def to_f(x):
    return float("inf") if x == "inf" else float(x)


def arr(v, n):
    """scalar or list -> float array of length n"""
    if isinstance(v, list):
        return np.array([to_f(x) for x in v], dtype=float)
    return np.full(n, to_f(v), dtype=float)


def as_arg(v):
    """the argument handed to pylake: scalar stays scalar, list becomes an array"""
    if v is None:
        return None
    if isinstance(v, list):
        return np.array([to_f(x) for x in v], dtype=float)
    return to_f(v)


class Unreachable(Exception):
    """the HARNESS could not reach a private member of pylake (renamed, moved, inlined or given another signature by a
    refactoring).  It says nothing about what the code computes: the observation is then made through the public API
    where that is possible, and is "?" (not judged by agree / oracle) where it is not"""


_UNREACHABLE = {}  # private name -> number of times the harness had to do without it (coverage record)
_SIG_OK = {}


def _note(what):
    _UNREACHABLE[what] = _UNREACHABLE.get(what, 0) + 1


def _dwmod():
    """the module that holds the anchored private functions (None when it was moved)"""
    mod = sys.modules.get("lumicks.pylake.population.dwelltime")
    if mod is not None:
        return mod
    try:
        from lumicks.pylake.population import dwelltime

        return dwelltime
    except ImportError:
        return None


def model_class():
    """DwelltimeModel by its public name"""
    import lumicks.pylake as lk

    return lk.DwelltimeModel


def takes(fn, *a, **kw):
    """does `fn` still accept the arguments the harness is going to call it with?"""
    key = (getattr(fn, "__func__", fn), hasattr(fn, "__self__"), len(a), tuple(sorted(kw)))  # the key keeps the function alive
    if key not in _SIG_OK:
        try:
            inspect.signature(fn).bind(*a, **kw)
            _SIG_OK[key] = True
        except TypeError:
            _SIG_OK[key] = False
        except ValueError:  # no signature available: just try
            _SIG_OK[key] = True
    return _SIG_OK[key]


def priv(name, *a, **kw):
    """an anchored private function of population/dwelltime.py, looked up at the point of use; Unreachable when it is
    not there any more or does not take the harness' arguments any more"""
    mod = _dwmod()
    fn = getattr(mod, name, None) if mod is not None else None
    if not callable(fn) or not takes(fn, *a, **kw):
        _note(name)
        raise Unreachable(name)
    return fn


def track_classes():
    """(KymoTrack, KymoTrackGroup): not exported at the top level of the package; the tracking module re-exports them"""
    try:
        from lumicks.pylake.kymotracker.kymotrack import KymoTrack, KymoTrackGroup
    except ImportError:
        from lumicks.pylake.kymotracker.kymotracker import KymoTrack, KymoTrackGroup
    return KymoTrack, KymoTrackGroup


@contextlib.contextmanager
def minimize_replaced(stand_in):
    """scipy.optimize.minimize (public scipy API; the only door between pylake and the optimiser) replaced by `stand_in`
    while a DwelltimeModel is built: on scipy.optimize itself and on every module-level name of the dwell-time module(s)
    that is bound to the same function (`from scipy.optimize import minimize`)"""
    import scipy.optimize

    real = scipy.optimize.minimize
    spots = [(scipy.optimize, "minimize")]
    mods = {id(m): m for m in (_dwmod(), sys.modules.get(getattr(model_class(), "__module__", ""))) if m is not None}
    for m in mods.values():
        spots.extend((m, k) for k, v in list(vars(m).items()) if v is real)
    for m, k in spots:
        setattr(m, k, stand_in)
    try:
        yield real
    finally:
        for m, k in spots:
            setattr(m, k, real)


class _Captured(Exception):
    """raised by the recording constructor when the fit itself is not wanted"""


MODEL_ARGS = ("dwelltimes", "min_observation_time", "max_observation_time", "discretization_timestep")


@contextlib.contextmanager
def model_arguments_recorded(run_fit):
    """what a track group hands to the model: the arguments of the PUBLIC constructor
    DwelltimeModel(dwelltimes, n_components, *, min_observation_time, max_observation_time, discretization_timestep, ...)
    are recorded under their documented names while fit_binding_times runs (no private attribute of the fitted model
    is read).  With run_fit False the constructor stops after recording, so the observation does not depend on whether
    the optimiser would accept these data"""
    cls = model_class()
    orig = cls.__init__
    sig = inspect.signature(orig)
    seen = []

    @functools.wraps(orig)
    def recording_init(self, *a, **kw):
        b = sig.bind(self, *a, **kw)
        b.apply_defaults()
        seen.append({k: b.arguments[k] for k in MODEL_ARGS})
        if not run_fit:
            raise _Captured()
        return orig(self, *a, **kw)

    cls.__init__ = recording_init
    try:
        yield seen
    finally:
        cls.__init__ = orig


def gl_nodes(tmin, tmax, taus):
    """composite 20-point Gauss-Legendre rule on panels growing geometrically with the shortest lifetime"""
    x, w = np.polynomial.legendre.leggauss(20)
    tau_min, tau_max = min(taus), max(taus)
    hi = tmax if math.isfinite(tmax) else tmin + 50.0 * tau_max
    edges = [tmin]
    j = 0
    while edges[-1] < hi:
        j += 1
        edges.append(min(hi, tmin + tau_min * (2.0**j - 1.0)))
    nodes, weights = [], []
    for a, b in zip(edges, edges[1:]):
        nodes.extend(0.5 * (b - a) * x + 0.5 * (a + b))
        weights.extend(0.5 * (b - a) * w)
    return np.array(nodes), np.array(weights)


def limit_classes(case):
    """distinct (tmin, tmax, step) triples to check the normalisation for: first and last observation"""
    n = len(case["t"])
    tmin, tmax = arr(case["tmin"], n), arr(case["tmax"], n)
    step = None if case["step"] is None else arr(case["step"], n)
    out = []
    for i in sorted({0, n - 1}):
        tr = (tmin[i], tmax[i], None if step is None else step[i])
        if tr not in out:
            out.append(tr)
    return out


def disc_K(tmin, tmax, step, taus):
    """number of grid steps for the explicit sum and whether it covers the whole support"""
    if math.isfinite(tmax):
        return int(round((tmax - tmin) / step)), True
    K = int(math.ceil(45.0 * max(taus) / step))
    return (K, True) if K <= 60000 else (60000, False)


# ------------------------------------------------------------------ oracle formulas (textbook, long double)


def o_density(amps, taus, t, tmin, tmax, step):
    """truncated exponential-mixture density (step None) or discretised probability mass, per observation"""
    a = np.asarray(amps, dtype=LD)[:, None]
    tau = np.asarray(taus, dtype=LD)[:, None]
    t, tmin, tmax = (np.asarray(v, dtype=LD)[None, :] for v in (t, tmin, tmax))
    with np.errstate(over="ignore", under="ignore"):
        emax = np.where(np.isfinite(tmax), np.exp(-np.where(np.isfinite(tmax), tmax, 0) / tau), LD(0))
        if step is None:
            num = np.sum(a / tau * np.exp(-t / tau), axis=0)
            den = np.sum(a * (np.exp(-tmin / tau) - emax), axis=0)
        else:
            d = np.asarray(step, dtype=LD)[None, :]
            x = np.exp(-d / tau)
            num = np.sum(a * tau * (1 - x) ** 2 * np.exp(-(t - d) / tau), axis=0)
            den = np.sum(a * tau * (1 - x) * (np.exp(-(tmin - d) / tau) - emax), axis=0)
    return num / den


def o_nll(amps, taus, t, tmin, tmax, step):
    return -np.sum(np.log(o_density(amps, taus, t, tmin, tmax, step)))


def num_steps(amps, taus, t, tmax):
    """steps of the difference quotients, amplitudes then lifetimes: 5e-3 of the parameter; for a lifetime not more than
    what moves t/tau of the longest time involved (dwell time or finite upper limit) by 0.05 -- the shares of two
    components with close lifetimes in the density at t trade places over a change of t/tau of order one, and a stencil
    that is wider than that is off by more than the 1e-6 it is read to (t/tau = 90, lifetimes 4 % apart: 2e-5)"""
    far = [float(v) for v in np.atleast_1d(t)] + [float(v) for v in np.atleast_1d(tmax) if math.isfinite(float(v))]
    tm = max(far) if far else 0.0
    return [5e-3 * float(a) for a in amps] + [float(tau) * min(5e-3, 0.05 * float(tau) / tm if tm > 0 else 5e-3) for tau in taus]


def o_numgrad(amps, taus, t, tmin, tmax, step):
    """6th-order central differences of the oracle's negative log-likelihood, amplitudes then lifetimes"""
    p0 = np.array(list(amps) + list(taus), dtype=LD)
    n = len(amps)
    steps = num_steps(amps, taus, t, tmax)
    g = []
    for j in range(2 * n):
        h = LD(steps[j])
        acc = LD(0)
        for k, c in ((1, 45), (2, -9), (3, 1)):
            for s in (1, -1):
                p = p0.copy()
                p[j] = p0[j] + s * k * h
                acc += s * c * o_nll(p[:n], p[n:], t, tmin, tmax, step)
        g.append(acc / (60 * h))
    return np.array(g)


def grad_scale(case_or_params, t, tmax):
    amps, taus = case_or_params
    n = len(t)
    tm = float(np.max(t)) if n else 0.0
    sa = [n / a for a in amps]
    st = [n * (1.0 + tm / tau) / tau for tau in taus]
    return np.array(sa + st)


def grad_terms_scale(amps, taus, t, tmin, tmax, step):
    """the size of the terms the gradient is a sum of (amplitudes then lifetimes): observation i contributes to
    d(log L)/d(a_j) the share r_ij of component j in the density at t_i and its share w_ij in the window probability,
    each divided by a_j, and to d(log L)/d(tau_j) the same shares times a logarithmic derivative of size
    (3 + t_i/tau_j)/tau_j.  For a rare component these sums are of the order n instead of the worst-case n/a_j of
    `grad_scale`; an absolute tolerance that is a small multiple of them still looks at every entry of the gradient"""
    a = np.asarray(amps, dtype=LD)[:, None]
    tau = np.asarray(taus, dtype=LD)[:, None]
    t, tmin, tmax = (np.asarray(v, dtype=LD)[None, :] for v in (t, tmin, tmax))
    with np.errstate(all="ignore"):
        emax = np.where(np.isfinite(tmax), np.exp(-np.where(np.isfinite(tmax), tmax, 0) / tau), LD(0))
        if step is None:
            logg = -np.log(tau) - t / tau
            win = np.exp(-tmin / tau) - emax
        else:
            d = np.asarray(step, dtype=LD)[None, :]
            x = np.exp(-d / tau)
            logg = np.log(tau) + 2 * np.log(1 - x) - (t - d) / tau
            win = tau * (1 - x) * (np.exp(-(tmin - d) / tau) - emax)
        la = np.log(a) + logg
        r = np.exp(la - np.max(la, axis=0, keepdims=True))
        r = r / np.sum(r, axis=0, keepdims=True)
        w = a * win / np.sum(a * win, axis=0, keepdims=True)
        share = np.nan_to_num(r + w, nan=2.0, posinf=2.0)
        sa = np.sum(share, axis=1) / a[:, 0]
        st = np.sum(share * (3 + t / tau) / tau, axis=1)
    return np.array([float(v) for v in sa] + [float(v) for v in st])


def grad_tolerance(amps, taus, t, tmin, tmax, step, factor, eps):
    """absolute tolerance per gradient entry: `factor` times the size of the summed terms, plus the rounding `eps` of
    one likelihood evaluation carried through the oracle's difference quotient (0 for none); never above `factor`
    times the worst-case scale"""
    worst = grad_scale((amps, taus), t, None)
    terms = grad_terms_scale(amps, taus, t, tmin, tmax, step)
    floor = eps * nll_scale(amps, taus, t) / np.array(num_steps(amps, taus, t, tmax))
    return np.minimum(factor * worst, factor * terms + floor)


def nll_scale(amps, taus, t):
    n = len(t)
    tm = float(np.max(np.abs(t))) if n else 0.0
    L = 1.0 + tm / min(taus) + max(abs(math.log(x)) for x in taus) + max(abs(math.log(x)) for x in amps)
    return n * L


# ------------------------------------------------------------------ minimal track-group builder


KID_STEP = 2.0**-10  # a track of kymograph k sits k/1024 pixel above its pixel row: the label travels with the track


def public_kymo(n_lines, line_time):
    """a 4-pixel kymograph made through the public low_level API: 4 pixels of 2 samples and 2 samples of dead time per
    scan line, sample period = a tenth of the requested line time in whole nanoseconds"""
    import json

    from lumicks.pylake import low_level

    dt = max(1, int(round(float(line_time) * 1e8)))
    start = 1388534400 * 10**9 + 10**9  # just after the first timestamp pylake accepts
    infowave = np.tile(np.array([1, 2, 1, 2, 1, 2, 1, 2, 0, 0], dtype=np.uint8), int(n_lines))
    mk = lambda d: low_level.make_continuous_slice(d, start, dt)  # noqa: E731
    meta = json.dumps({"value0": {"cereal_class_version": 1, "fluorescence": True, "force": False, "scan count": 0, "scan volume": {
        "center point (um)": {"x": 0.0, "y": 0.0, "z": 0}, "cereal_class_version": 1, "pixel time (ms)": 0.2,
        "scan axes": [{"axis": 0, "cereal_class_version": 1, "num of pixels": 4, "pixel size (nm)": 1000.0,
                       "scan time (ms)": 0, "scan width (um)": 4.0}]}}})
    zeros = np.zeros(len(infowave), dtype=np.uint32)
    return low_level.create_confocal_object("verif", mk(infowave), meta, red_channel=mk(zeros), green_channel=mk(zeros),
                                            blue_channel=mk(zeros))


def build_kymos(case):
    """the kymographs of a case.  `_kymo_from_array` (private helper behind ImageStack.to_kymo / lk.simulation) takes the
    line time verbatim, which the exact binary line times of the generators rely on; when the harness cannot reach it any
    more the kymographs are made through the public low_level API instead and the line time / number of scan lines the
    model and the oracle are told are the ones read back from the public Kymo properties (case['_kymos_seen'])"""
    case.pop("_kymos_seen", None)
    try:
        try:
            from lumicks.pylake.kymo import _kymo_from_array
        except ImportError:
            raise Unreachable("_kymo_from_array")
        if not takes(_kymo_from_array, np.zeros((4, 2)), "r", line_time_seconds=1.0):
            raise Unreachable("_kymo_from_array")
        return [_kymo_from_array(np.zeros((4, k["n_lines"])), "r", line_time_seconds=k["line_time"]) for k in case["kymos"]]
    except Unreachable:
        _note("_kymo_from_array")
    kymos = [public_kymo(k["n_lines"], k["line_time"]) for k in case["kymos"]]
    case["_kymos_seen"] = [{"n_lines": int(k.get_image("red").shape[1]), "line_time": float(k.line_time_seconds)} for k in kymos]
    return kymos


def kymo_facts(case):
    """number of scan lines and line time of the kymographs of the case as the tracks see them"""
    return case.get("_kymos_seen") or case["kymos"]


_BUILT = {}  # id(track object) -> (the object, the minimum observable duration the harness gave it), per case


def make_track(kymos, tr):
    """a track on one pixel row (`pos`, in pixels = position units of these kymographs), labelled with its kymograph"""
    KymoTrack, _ = track_classes()
    track = KymoTrack(
        np.array(tr["idx"], dtype=np.int64),
        np.full(len(tr["idx"]), float(tr.get("pos", 1.5)) + KID_STEP * tr["kymo"]),
        kymos[tr["kymo"]],
        "red",
        tr["minobs"],
    )
    _BUILT[id(track)] = (track, tr["minobs"])
    return track


def kymo_of(track, n_kymos):
    """which kymograph of the case a track in a group belongs to, read off its public positions (see KID_STEP)"""
    pos = np.asarray(track.position, dtype=float)
    if pos.size == 0:
        return None
    k = ((pos - 0.5) % 1.0) / KID_STEP
    kid = int(round(float(k[0])))
    return kid if 0 <= kid < n_kymos and np.all(np.abs(k - kid) < 1e-3) else None


def build_group(case, kymos=None):
    _, KymoTrackGroup = track_classes()
    kymos = build_kymos(case) if kymos is None else kymos
    return KymoTrackGroup([make_track(kymos, tr) for tr in case["tracks"]])


def show_rows(cols, removed):
    rows = ["%s:%s:%s:%s" % tuple(enc_float(c[i]) for c in cols) for i in range(len(cols[0]))]
    return "[" + ",".join(rows) + "] " + enc_bool(removed)


# ------------------------------------------------------------------ one group OBJECT: edits and repeated analyses
#
# An 'extract' case may carry "steps": edits performed one after the other on the SAME KymoTrackGroup object (in-place
# filter / remove_tracks_in_rect / remove / extend / split / merge, derived groups obtained by copy / slicing / + /
# filter_tracks, going back to the group an earlier one was derived from).  The dwell-time data are extracted from
# the freshly built group and again after every step, each time with that analysis' own flags.  What the property
# determines is: the data handed to the model are those of the tracks that are in the group at that moment.  The tracks
# in the group are therefore read off the group object itself (iteration) after every step and the model / the oracle
# are evaluated on exactly that list; nothing is asserted about what an edit ought to do to the group.


def seq_flags(case):
    """(exclude_ambiguous_dwells, observed_minimum) of the first analysis and of the one after every step"""
    out = [(case["excl"], case["obsmin"])]
    for st in case.get("steps", []):
        out.append((st.get("excl", case["excl"]), st.get("obsmin", case["obsmin"])))
    return out


def observe_group(group, kymos):
    """the tracks that are in the group now, as one token: kymograph:minimum observable duration:[scan lines]|...
    The kymograph and the scan lines are public (positions, time_idx).  The minimum observable duration a track carries
    has no lossless public reader (the CSV export rounds it to 7 digits): it is read from the private attribute while
    that is reachable; otherwise it is known for the track objects the harness built itself and "?" for the ones the
    library made (filter, split, merge) -- analyses that need a "?" are then not judged"""
    toks = []
    for tr in group:
        kid = kymo_of(tr, len(kymos))
        try:
            mo = tr._minimum_observable_duration
            mo = "N" if mo is None else enc_float(mo)
        except AttributeError:
            _note("KymoTrack._minimum_observable_duration")
            made = _BUILT.get(id(tr))  # a track object the harness made itself still carries what it was given
            mo = "?" if made is None or made[0] is not tr else ("N" if made[1] is None else enc_float(made[1]))
        toks.append(f"{'?' if kid is None else kid}:{mo}:{enc_list([int(v) for v in tr.time_idx])}")
    return "|".join(toks) if toks else "-"


def state_of_case(case):
    """the same token for a freshly built group: it holds the tracks of the case"""
    toks = [f"{tr['kymo']}:{'N' if tr['minobs'] is None else enc_float(tr['minobs'])}:{enc_list(tr['idx'])}" for tr in case["tracks"]]
    return "|".join(toks) if toks else "-"


def parse_state(tok):
    if tok == "-":
        return []
    out = []
    for s in tok.split("|"):
        kid, mo, idx = s.split(":")
        out.append({"kymo": None if kid == "?" else int(kid), "minobs": "?" if mo == "?" else (None if mo == "N" else dec_float(mo)),
                    "idx": dec_list(idx)})
    return out


def state_known(tracks, obsmin):
    """could the harness read everything of the group's tracks that this analysis depends on?"""
    return all(tr["kymo"] is not None for tr in tracks) and (obsmin or all(tr["minobs"] != "?" for tr in tracks))


def split_state(ans):
    """answer of one analysis of a case with steps: '<tracks in the group> <rows flag | error>'"""
    if " " not in ans:
        return None, ans
    st, payload = ans.split(" ", 1)
    return st, payload


def apply_step(st, g, other, kymos):
    """one edit; returns (the group analysed from now on, the other group object that is kept around)"""
    from copy import copy

    import lumicks.pylake as lk

    _, KymoTrackGroup = track_classes()
    filter_tracks = lk.filter_tracks

    do = st["do"]
    if do == "again":
        pass
    elif do == "filter":
        g.filter(minimum_length=st["minimum_length"], minimum_duration=st["minimum_duration"])
    elif do == "rect":
        g.remove_tracks_in_rect([list(p) for p in st["rect"]], st["all_points"])
    elif do == "remove":
        if len(g):
            g.remove(g[st["index"] % len(g)])
    elif do == "extend":
        new = [make_track(kymos, tr) for tr in st["tracks"]]
        if st["as"] == "group":
            g.extend(KymoTrackGroup(new))
        else:
            for t in new:
                g.extend(t)
    elif do == "split":  # what the tracking widget does to the group in place (private methods: no public equivalent;
        if len(g):  # when they are gone the edit simply does not take place)
            tr = g[st["index"] % len(g)]
            if len(tr) >= 2:
                split = getattr(g, "_split_track", None)
                if not callable(split) or not takes(split, tr, 1, 1):
                    _note("KymoTrackGroup._split_track")
                    raise Unreachable("_split_track")
                split(tr, 1 + st["node"] % (len(tr) - 1), st["min_length"])
    elif do == "merge":
        if len(g) >= 2:
            a = g[st["index"] % len(g)]
            same = [t for t in g if kymo_of(t, len(kymos)) == kymo_of(a, len(kymos))]  # the widget connects tracks of the kymograph it shows
            b = same[st["index2"] % len(same)]
            merge = getattr(g, "_merge_tracks", None)
            if not callable(merge) or not takes(merge, a, 0, b, 0):
                _note("KymoTrackGroup._merge_tracks")
                raise Unreachable("_merge_tracks")
            merge(a, st["node"] % len(a), b, st["node2"] % len(b))
    elif do == "derive":
        how = st["how"]
        if how == "copy":
            d = copy(g)
        elif how == "slice":
            d = g[st["start"] : st["stop"]]
        elif how == "pick":
            d = g[np.array(sorted({i % len(g) for i in st["indices"]}), dtype=int)] if len(g) else g[0:0]
        elif how == "add":
            d = g + KymoTrackGroup([make_track(kymos, tr) for tr in st["tracks"]])
        elif how == "filter_tracks":
            d = filter_tracks(g, st["minimum_length"], minimum_duration=st["minimum_duration"])
        else:
            raise ValueError(how)
        g, other = (d, g) if st["keep"] == "derived" else (g, d)
    elif do == "swap":
        if other is not None:
            g, other = other, g
    else:
        raise ValueError(do)
    return g, other


def describe_step(st):
    d = {k: v for k, v in st.items() if k not in ("excl", "obsmin", "tracks")}
    if "tracks" in st:
        d["tracks"] = len(st["tracks"])
    return ", ".join(f"{k}={v}" for k, v in d.items())


def analyse_private(group, excl, obsmin):
    """the anchored mechanism itself: KymoTrackGroup._extract_dwelltime_data_from_groups on the per-kymograph split"""
    split = getattr(group, "_tracks_by_kymo", None)
    extract = getattr(type(group), "_extract_dwelltime_data_from_groups", None)
    if not callable(split) or not takes(split):
        _note("KymoTrackGroup._tracks_by_kymo")
        raise Unreachable("_tracks_by_kymo")
    if not callable(extract) or not takes(extract, [], excl, observed_minimum=obsmin):
        _note("KymoTrackGroup._extract_dwelltime_data_from_groups")
        raise Unreachable("_extract_dwelltime_data_from_groups")
    by_kymo = split()
    if not (isinstance(by_kymo, tuple) and len(by_kymo) == 2):
        _note("KymoTrackGroup._tracks_by_kymo")
        raise Unreachable("_tracks_by_kymo")
    res = extract(by_kymo[0], excl, observed_minimum=obsmin)
    if not (isinstance(res, tuple) and len(res) == 5):
        _note("KymoTrackGroup._extract_dwelltime_data_from_groups")
        raise Unreachable("_extract_dwelltime_data_from_groups")
    d, lo, hi, removed, st = res
    return show_rows([d, lo, hi, st], bool(removed))


def analyse_groups(case, kymos):
    """the anchored function handed the groups the case spells out (case['groups']: lists of indices into case['tracks'])
    instead of the per-kymograph split: empty groups, several groups of one kymograph, groups in any order, groups over
    more than one kymograph.  There is no public route to such a call: "?" when the function cannot be reached"""
    _, KymoTrackGroup = track_classes()
    extract = getattr(KymoTrackGroup, "_extract_dwelltime_data_from_groups", None)
    excl, obsmin = case["excl"], case["obsmin"]
    if not callable(extract) or not takes(extract, [], excl, observed_minimum=obsmin):
        _note("KymoTrackGroup._extract_dwelltime_data_from_groups")
        return "?"
    try:
        tracks = [make_track(kymos, tr) for tr in case["tracks"]]
        groups = [KymoTrackGroup([tracks[i] for i in g]) for g in case["groups"]]
        res = extract(groups, excl, observed_minimum=obsmin)
    except Exception as e:
        return errname(e)
    if not (isinstance(res, tuple) and len(res) == 5):
        _note("KymoTrackGroup._extract_dwelltime_data_from_groups")
        return "?"
    d, lo, hi, removed, st = res
    return show_rows([d, lo, hi, st], bool(removed))


def analyse_public(group, excl, obsmin, discrete, run_fit):
    """the same data through the public API: fit_binding_times, the arguments it hands to DwelltimeModel recorded under
    their public names, the removed-zeros flag read off the warning it issues"""
    with warnings.catch_warnings(record=True) as wlist:
        warnings.simplefilter("always")
        with model_arguments_recorded(run_fit) as seen:
            try:
                group.fit_binding_times(1, exclude_ambiguous_dwells=excl, observed_minimum=obsmin, discrete_model=discrete)
            except _Captured:
                pass
    removed = any(issubclass(w.category, RuntimeWarning) and "zero" in str(w.message).lower() for w in wlist)
    a = seen[0]
    d = np.asarray(a["dwelltimes"], dtype=float)
    lo, hi = (np.broadcast_to(np.asarray(a[k], dtype=float), d.shape) for k in MODEL_ARGS[1:3])
    st = a["discretization_timestep"]
    st = np.full(d.shape, np.nan) if st is None else np.broadcast_to(np.asarray(st, dtype=float), d.shape)
    return show_rows([d, lo, hi, st], removed)


def via_of(case):
    """route by which the dwell-time data of this case were observed: cases meant for the private extraction function are
    observed through fit_binding_times (discretised model, fit not run) when the harness cannot reach that function"""
    return "fit" if case.get("_public_route") else case["via"]


def discrete_of(case):
    return True if case.get("_public_route") else case.get("discrete", False)


def analyse_group(group, case, excl, obsmin):
    """the dwell-time data the group hands to the model: rows + removed-zeros flag, or the exception's name"""
    try:
        if case["via"] == "private":
            try:
                if case.get("_public_route"):
                    raise Unreachable("earlier analysis of this case")
                return analyse_private(group, excl, obsmin)
            except Unreachable:
                case["_public_route"] = True
                return analyse_public(group, excl, obsmin, True, run_fit=False)
        return analyse_public(group, excl, obsmin, case["discrete"], run_fit=True)
    except Exception as e:
        return errname(e)


def impl_extract_seq(case):
    kymos = build_kymos(case)
    group = build_group(case, kymos)
    flags = seq_flags(case)
    first = observe_group(group, kymos)
    if "?" in first:  # a freshly built group holds the tracks it was built from
        first = state_of_case(case)
    out = [first + " " + analyse_group(group, case, *flags[0])]
    other, refused = None, []
    for j, (st, (excl, obsmin)) in enumerate(zip(case["steps"], flags[1:])):
        try:
            group, other = apply_step(st, group, other, kymos)
        except Unreachable as e:  # an edit the harness cannot perform any more: it does not take place
            refused.append(f"step {j + 1} ({st['do']}): harness cannot reach {e}")
        except Exception as e:  # an edit the group refuses: whatever is in the group afterwards is what counts
            refused.append(f"step {j + 1} ({st['do']}): {errname(e)}")
        out.append(observe_group(group, kymos) + " " + analyse_group(group, case, excl, obsmin))
    case["_refused_steps"] = refused
    return out


# ------------------------------------------------------------------ impl


def lik_args(case):
    n = len(case["t"])
    t = np.array(case["t"], dtype=float)
    return t, as_arg(case["tmin"]), as_arg(case["tmax"]), as_arg(case["step"]), n


COMPONENTS = "_exponential_mixture_log_likelihood_components"
LOGLIK = "_exponential_mixture_log_likelihood"
JACOBIAN = "_exponential_mixture_log_likelihood_jacobian"


def impl_norm(amps, taus, tmin, tmax, step):
    """normalisation evaluated on the implementation by explicit summation / Gauss-Legendre quadrature"""
    import scipy.special

    if step is None:
        x, w = gl_nodes(tmin, tmax, taus)
        comps = priv(COMPONENTS, amps, taus, x, tmin, tmax, None)(amps, taus, x, tmin, tmax, None)
        return float(np.sum(w * np.exp(scipy.special.logsumexp(comps, axis=0))))
    K, _ = disc_K(tmin, tmax, step, taus)
    grid = tmin + np.arange(K + 1, dtype=float) * step
    comps = priv(COMPONENTS, amps, taus, grid, tmin, tmax, step)(amps, taus, grid, tmin, tmax, step)
    return float(np.sum(np.exp(scipy.special.logsumexp(comps, axis=0))))


# ---- the same observations through the PUBLIC DwelltimeModel (used when an anchored private function is out of reach)
#
# DwelltimeModel has no public way to set its parameters; but everything it knows about its parameters comes through one
# door, scipy.optimize.minimize(cost, x0, jac=gradient, ...).  With that function replaced by a stand-in that evaluates the
# cost and the gradient it is handed at the harness' point and returns that point as "the optimum", the public model
# reports -log L at that point (log_likelihood), the gradient handed to the optimiser there, and the density pdf().


def public_model_at(amps, taus, t, tmin, tmax, step):
    """(model built at the given parameters, gradient the optimiser was handed there or None)"""
    import scipy.optimize

    n = len(amps)
    point = np.array(list(taus) if n == 1 else list(amps) + list(taus), dtype=float)  # one component: amplitude fixed at 1
    seen = {}

    def stand_in(fun, x0, *a, jac=None, **kw):
        if len(np.atleast_1d(x0)) != len(point):
            raise Unreachable("the optimiser's search space")
        value = fun(point.copy(), *kw.get("args", ()))
        seen["jac"] = np.array(jac(point.copy(), *kw.get("args", ())), dtype=float) if callable(jac) else None
        return scipy.optimize.OptimizeResult(x=point.copy(), fun=value, success=True, status=0, message="stand-in", nit=0)

    with minimize_replaced(stand_in):
        m = model_class()(np.asarray(t, dtype=float), n, min_observation_time=tmin, max_observation_time=tmax,
                          discretization_timestep=step)
    if "jac" not in seen:
        raise Unreachable("scipy.optimize.minimize as called by DwelltimeModel")
    if not (np.array_equal(np.asarray(m.amplitudes, dtype=float), np.asarray(amps, dtype=float))
            and np.array_equal(np.asarray(m.lifetimes, dtype=float), np.asarray(taus, dtype=float))):
        raise Unreachable("DwelltimeModel does not report the optimiser's point")
    return m, seen["jac"]


def public_norm(amps, taus, tmin, tmax, step):
    """normalisation through DwelltimeModel.pdf of a model with these scalar limits; "?" for the discretised model with a
    finite upper limit (pdf() does not draw the bin of the largest observable dwell time, see ASSUMPTIONS)"""
    if step is not None and math.isfinite(tmax):
        return "?"
    inside = tmin + (step if step is not None else min(0.5 * min(taus), 0.5 * (tmax - tmin)))  # any dwell time in the window
    m, _ = public_model_at(amps, taus, [inside], float(tmin), float(tmax), step)
    if step is None:
        x, w = gl_nodes(tmin, tmax, taus)
        return enc_float(float(np.sum(w * np.sum(np.atleast_2d(m.pdf(x)), axis=0))))
    K, _ = disc_K(tmin, tmax, step, taus)
    mid = tmin + (np.arange(K + 1, dtype=float) + 0.5) * step  # the density of a bin is its probability mass / step
    return enc_float(float(np.sum(np.sum(np.atleast_2d(m.pdf(mid)), axis=0)) * step))


def observe(out, f):
    """append the observation f() makes on the implementation: its canonical string, the name of the exception the
    implementation raised, or "?" when the harness could not reach what it wanted to look at"""
    try:
        out.append(f())
    except Unreachable:
        out.append("?")
    except Exception as e:
        out.append(errname(e))


def impl_lik(case):
    amps, taus = np.array(case["amps"], dtype=float), np.array(case["taus"], dtype=float)
    params = np.hstack([amps, taus])
    t, tmin, tmax, step, n = lik_args(case)
    perm = case["perm"]
    out = []
    public = {}

    def through_public(key, a, tau):
        if key not in public:
            try:
                public[key] = public_model_at(a, tau, t, tmin, tmax, step)
            except Exception as e:
                public[key] = e
        if isinstance(public[key], Exception):
            raise public[key]
        return public[key]

    def nll(a, tau, key):
        p = np.hstack([a, tau])
        try:
            return enc_float(priv(LOGLIK, p, t, tmin, tmax, step)(p, t, tmin, tmax, step))
        except Unreachable:
            return enc_float(-float(through_public(key, a, tau)[0].log_likelihood))

    def comps():
        c = priv(COMPONENTS, amps, taus, t, tmin, tmax, step)(amps, taus, t, tmin, tmax, step)
        return "[" + ";".join(",".join(enc_float(v) for v in row) for row in np.atleast_2d(c)) + "]"

    def jac():
        try:
            return fl(priv(JACOBIAN, params, t, tmin, tmax, step)(params, t, tmin, tmax, step))
        except Unreachable:
            g = through_public("id", amps, taus)[1]
            if g is None or len(amps) == 1 or len(g) != 2 * len(amps):
                raise Unreachable("gradient entries of fixed parameters")  # one component: only the lifetime is searched
            return fl(g)

    def norm(lo, hi, st):
        try:
            return enc_float(impl_norm(amps, taus, lo, hi, st))
        except Unreachable:
            return public_norm(amps, taus, lo, hi, st)

    observe(out, lambda: nll(amps, taus, "id"))
    observe(out, comps)
    if case["op"] == "likwin":
        # the regime the repair of F13 is about: only the likelihood was put into the factored form (the Jacobian still
        # forms exp(-t_min/tau) - exp(-t_max/tau), which is 0 here), so likelihood and components are what is observed
        observe(out, lambda: nll(amps[perm], taus[perm], "perm"))
    else:
        observe(out, jac)
        observe(out, lambda: nll(amps[perm], taus[perm], "perm"))
        for lo, hi, st in limit_classes(case):
            observe(out, lambda: norm(lo, hi, st))
    if out[0] == "?":
        # neither the anchored function nor the public model could be brought to evaluate the likelihood at the given
        # parameters: nothing of this case is tied to the code any more, which is reported (not passed over in silence)
        out[0] = f"Error:TieBroken:private member {LOGLIK} is gone and DwelltimeModel could not be evaluated at given parameters"
    return out


OPTIMIZE = "_exponential_mle_optimize"


def impl_fbt(case):
    """KymoTrackGroup.fit_binding_times with its options given or left out (None): the arguments it hands to the public
    DwelltimeModel constructor (recorded; the fit itself is not run) and the warnings it issues"""
    _BUILT.clear()
    group = build_group(case)
    kw = {"exclude_ambiguous_dwells": case["excl"]}
    if case["om"] is not None:
        kw["observed_minimum"] = case["om"]
    if case["disc"] is not None:
        kw["discrete_model"] = case["disc"]
    with warnings.catch_warnings(record=True) as wlist:
        warnings.simplefilter("always")
        with model_arguments_recorded(False) as seen:
            try:
                group.fit_binding_times(case["n"], **kw)
            except _Captured:
                pass
            except Exception as e:
                return [errname(e)]
    if not seen:
        return ["Error:NoModelConstructed"]
    removed = any(issubclass(w.category, RuntimeWarning) and "zero" in str(w.message).lower() for w in wlist)
    w_om = any(issubclass(w.category, UserWarning) and "observed_minimum" in str(w.message) for w in wlist)
    w_disc = any(issubclass(w.category, UserWarning) and "discrete_model" in str(w.message) for w in wlist)
    a = seen[0]
    d = np.asarray(a["dwelltimes"], dtype=float)
    lo, hi = (np.broadcast_to(np.asarray(a[k], dtype=float), d.shape) for k in MODEL_ARGS[1:3])
    st = a["discretization_timestep"]
    handed = st is not None
    st = np.full(d.shape, np.nan) if st is None else np.broadcast_to(np.asarray(st, dtype=float), d.shape)
    return [f"? {enc_bool(handed)} {enc_bool(w_om)} {enc_bool(w_disc)} " + show_rows([d, lo, hi, st], removed)]


def assemble_fitted(case):
    """which parameters are left to the optimiser (from the docstring of _handle_amplitude_constraint: everything not
    fixed, except a single free amplitude, which is determined by the others)"""
    n = case["n"]
    fixed = [False] * (2 * n) if case["mask"] is None else list(case["mask"])
    fitted = [not f for f in fixed]
    free = [i for i in range(n) if fitted[i]]
    if len(free) == 1:
        fitted[free[0]] = False
    return fitted


def impl_assemble(case):
    """_exponential_mle_optimize with scipy.optimize.minimize replaced by a stand-in that records what it is handed
    (start vector, bounds, the gradient callback's answer at `probe`) and answers `probe`"""
    import scipy.optimize

    n = case["n"]
    # params None = initial_guess=None: the default guess every public DwelltimeModel fit starts from
    params = None if case["params"] is None else np.array([float(Fraction(p)) for p in case["params"]], dtype=float)
    mask = None if case["mask"] is None else np.array(case["mask"], dtype=bool)
    t, tmin, tmax, step, _ = lik_args(case)
    probe = np.array(case["probe"], dtype=float)
    seen = {"x0": [], "lo": [], "hi": [], "grad": []}

    def stand_in(fun, x0, *a, **kw):
        x0 = np.array(x0, dtype=float)
        x = probe[: len(x0)]
        seen["x0"] = list(x0)
        bounds = list(kw.get("bounds") or [])
        seen["lo"] = [float(b[0]) for b in bounds]
        seen["hi"] = [float(b[1]) for b in bounds]
        jac = kw.get("jac")
        f = fun(x)
        seen["grad"] = list(np.array(jac(x), dtype=float)) if callable(jac) else None
        seen["constraints"] = kw.get("constraints")
        fun(x0)  # like SLSQP, the stand-in does not end on the point it answers: the cost callback last saw x0
        return scipy.optimize.OptimizeResult(x=x, fun=f, success=True, status=0, message="stand-in", nit=0)

    try:
        opt = priv(OPTIMIZE, n, t, tmin, tmax, initial_guess=params, fixed_param_mask=mask, discretization_timestep=step)
        with minimize_replaced(stand_in):
            p, ll = opt(n, t, tmin, tmax, initial_guess=params, fixed_param_mask=mask, discretization_timestep=step)
    except Unreachable:
        return ["?"]
    except Exception as e:
        return [errname(e)]
    cons = seen.get("constraints")
    cval = "none"
    if isinstance(cons, dict):
        cval = enc_value(cons["fun"](probe[: len(seen["x0"])], *cons["args"]))
    grad = "?" if seen["grad"] is None else fl(seen["grad"])
    return [f"? {fl(seen['x0'])} {fl(seen['lo'])} {fl(seen['hi'])} {fl(p)} {enc_float(float(ll))} {grad} {cval}"]


def impl(case):
    with warnings.catch_warnings():
        warnings.simplefilter("ignore")
        with np.errstate(all="ignore"):
            ia = _impl(case)
    _LAST[canonical(case)] = ia
    return ia


def _impl(case):
    k = case["op"]
    if k in ("lik", "likwin"):
        return impl_lik(case)
    if k == "assemble":
        return impl_assemble(case)
    if k == "fbt":
        return impl_fbt(case)
    if k == "fit":
        t, tmin, tmax, step, n = lik_args(case)
        status = []
        handed_bounds = []
        real_minimize = []

        visited = []  # (point, gradient) of every request of the optimiser for the gradient, in order

        def spy(*a, **kw):  # observe (not alter) what SLSQP says about its own result; pylake does not look at it
            jac = kw.get("jac")
            if callable(jac):  # ... and what it is handed when it asks for the gradient

                def jac_seen(x, *args):
                    g = jac(x, *args)
                    visited.append((np.array(x, dtype=float), np.array(g, dtype=float)))
                    return g

                kw = dict(kw, jac=jac_seen)
            handed_bounds.append(kw.get("bounds"))
            res = real_minimize[0](*a, **kw)
            status.append("converged" if res.success else f"slsqp-status-{res.status}")
            return res

        try:
            with minimize_replaced(spy) as real:
                real_minimize.append(real)
                m = model_class()(
                    t,
                    case["ncomp"],
                    min_observation_time=tmin,
                    max_observation_time=tmax,
                    discretization_timestep=step,
                )
        except Exception as e:
            return [errname(e)] * len(fit_layout(case))
        status = status[-1] if status else "nothing-to-fit"
        amps, taus = np.array(m.amplitudes, dtype=float), np.array(m.lifetimes, dtype=float)
        out = []
        picked = pick_visited(case, visited)
        for what in fit_layout(case):
            try:
                if what == "ll":
                    out.append(f"{enc_float(-m.log_likelihood)} {fl(amps)} {fl(taus)} {status}")
                elif what == "bounds":
                    nc = case["ncomp"]
                    try:
                        b = priv("_exponential_mle_bounds", nc, tmin, tmax)(nc, tmin, tmax)
                    except Unreachable:
                        # the bounds the optimiser was actually handed (scipy's public `bounds` argument): all of them for
                        # two or more components, the lifetime's only for one component (its amplitude is not searched)
                        b = handed_bounds[-1] if handed_bounds else None
                        if b is None or len(b) != (2 * nc if nc > 1 else 1):
                            out.append("?")
                            continue
                        b = [tuple(float(v) for v in x) for x in b]
                        if nc == 1:
                            out.append("? " + fl([b[0][0], b[0][1]]))
                            continue
                    same = all(x == b[0] for x in b[:nc]) and all(x == b[nc] for x in b[nc:])
                    out.append(fl([b[0][0], b[0][1], b[nc][0], b[nc][1]]) if same else "bounds-differ-per-component")
                elif what == "pdf":
                    x = np.array(pdf_points(case), dtype=float)
                    rows = np.atleast_2d(m.pdf(x))
                    out.append("[" + ";".join(",".join(enc_float(v) for v in row) for row in rows) + "]")
                elif what == "quad":
                    x, w = gl_nodes(to_f(case["tmin"]), to_f(case["tmax"]), list(taus))
                    out.append(enc_float(float(np.sum(w * np.sum(np.atleast_2d(m.pdf(x)), axis=0)))))
                elif what == "pdfpool":
                    x = np.array(pool_points(case), dtype=float)
                    rows = np.atleast_2d(m.pdf(x))
                    out.append("[" + ";".join(",".join(enc_float(v) for v in row) for row in rows) + "]")
                elif what == "quadpool":
                    x, w = pool_nodes(case, list(taus))
                    out.append(enc_float(float(np.sum(w * np.sum(np.atleast_2d(m.pdf(x)), axis=0)))))
                elif what == "mle1":
                    out.append(enc_float(taus[0]))
                elif what.startswith("jacvis"):
                    out.append(picked[int(what[6:])])
            except Exception as e:
                out.append(errname(e))
        # derived analyses must not alter what the fitted model reports (refits start from the model's own
        # parameter array): re-read the fit after a two-sample bootstrap
        if case["ncomp"] >= 2 and len(case["t"]) <= 400:
            try:
                before = (np.array(m.amplitudes, dtype=float).copy(), np.array(m.lifetimes, dtype=float).copy(), float(m.log_likelihood))
                np.random.seed(1234)
                m.calculate_bootstrap(iterations=2)
                after = (np.array(m.amplitudes, dtype=float), np.array(m.lifetimes, dtype=float), float(m.log_likelihood))
                same = all(np.array_equal(x, y) for x, y in zip(before[:2], after[:2])) and (before[2] == after[2] or (np.isnan(before[2]) and np.isnan(after[2])))
                case["_bootstrap_changed"] = None if same else f"amplitudes {before[0].tolist()} -> {after[0].tolist()}, lifetimes {before[1].tolist()} -> {after[1].tolist()}"
            except Exception as e:
                case["_bootstrap_changed"] = None if isinstance(e, (NotImplementedError,)) else None
        return out
    if k == "constraint":
        params = np.array([float(Fraction(p)) for p in case["params"]], dtype=float)
        mask = None if case["mask"] is None else np.array(case["mask"], dtype=bool)
        try:
            # anchored mechanism without a public equivalent (no public way to fix parameters of a DwelltimeModel): when
            # it is out of reach the tie of these cases is reported as broken; what it is for -- fitted amplitudes on the
            # simplex -- stays checked on every public fit
            handle = getattr(_dwmod(), "_handle_amplitude_constraint")
            fitted, cons, newp = handle(case["n"], params, mask)
        except Exception as e:
            return [errname(e)]
        x = np.array([float(Fraction(v)) for v in case["x"]], dtype=float)
        if cons == ():
            nfree, val = 0, "none"
        else:
            nfree = int(cons["args"][0])
            val = enc_value(cons["fun"](x, *cons["args"]))
        return [f"{enc_list(list(fitted), enc_bool)} {nfree} {fl(newp)} {val}"]
    if k == "extract":
        case.pop("_public_route", None)
        _BUILT.clear()
        try:
            if "steps" in case:
                return impl_extract_seq(case)
            if "groups" in case:
                return [analyse_groups(case, build_kymos(case))]
            group = build_group(case)
        except Exception as e:
            return [errname(e)]
        return [analyse_group(group, case, case["excl"], case["obsmin"])]
    if k == "validate":
        t, tmin, tmax, step, n = lik_args(case)
        try:
            model_class()(
                t, 1, min_observation_time=tmin, max_observation_time=tmax, discretization_timestep=step
            )
            return ["ok"]
        except Exception as e:
            return [errname(e)]
    raise ValueError(k)


def underflow_within_bounds(case):
    """finding F13: with per-observation limits the lifetime search interval starts at 0.1*min(tmin) (or 1e-8), where
    exp(-tmin_i/tau) of an observation with a much larger tmin_i underflows to 0 and the window probability becomes
    log(0): true iff some (tmin_i - step_i)/tau_lower exceeds 700"""
    n = len(case["t"])
    tmin = arr(case["tmin"], n)
    lo = max(float(np.min(tmin)) * 0.1, 1e-8)
    shift = tmin if case["step"] is None else tmin - arr(case["step"], n)
    return bool(np.max(shift) / lo > 700.0)


def scalar_limits(case):
    return not any(isinstance(case[k], list) for k in ("tmin", "tmax", "step"))


def fit_layout(case):
    lay = ["ll", "bounds"]
    if scalar_limits(case) and pdf_points(case):
        lay.append("pdf")
        if case["step"] is None:
            lay.append("quad")
    # the support of the reported density: read inside, at the edges of and just outside every observation window; with
    # per-observation limits it is the mixture of the truncated densities of the individual windows, each living on
    # its own window, and integrates to one over their union
    lay.append("pdfpool")
    if not scalar_limits(case) and case["step"] is None:
        lay.append("quadpool")
    if case["ncomp"] == 1 and case["step"] is None and not isinstance(case["tmax"], list) and to_f(case["tmax"]) == math.inf:
        lay.append("mle1")
    # the gradient the optimiser was handed during this very fit, at three of the points at which it asked for it
    lay.extend(["jacvis0", "jacvis1", "jacvis2"])
    return lay


def full_params(case, x):
    """the parameter vector (amplitudes, lifetimes) behind a point of the optimiser's search space: a one-component model
    has its amplitude fixed at one and searches the lifetime only"""
    x = [float(v) for v in x]
    return ([1.0] + x) if case["ncomp"] == 1 and len(x) == 1 else x


def searched_entries(case):
    """positions of the searched parameters within (amplitudes, lifetimes)"""
    return [1] if case["ncomp"] == 1 else list(range(2 * case["ncomp"]))


def within_explored_family(case, params):
    """is a point of the optimiser's path inside the family of parameter sets the 'lik' stream explores (ASSUMPTIONS:
    amplitudes within the optimiser's bounds, lifetimes within three decades of each other, tmin/tau_min <= 60,
    (tmax - tmin)/tau_max >= 0.05, dwell times below 1e5 tau_min, 5e-5 <= step/tau <= 30)?  SLSQP also probes lifetimes
    on the search bounds (1e-8 s, 1e8 s) where exp() underflows and the window probability cancels; nothing is
    asserted about the gradient there"""
    nc = case["ncomp"]
    if len(params) != 2 * nc or not all(math.isfinite(v) for v in params):
        return False
    amps, taus = params[:nc], params[nc:]
    if min(amps) < 0.5 * AMP_LO or max(amps) > 1.0 or min(taus) <= 0.0:
        return False
    n = len(case["t"])
    tmin, tmax = arr(case["tmin"], n), arr(case["tmax"], n)
    lo, hi = min(taus), max(taus)
    ok = hi / lo <= 1e3 and float(np.max(tmin)) / lo <= 60.0 and max(case["t"]) / lo <= 1e5
    ok = ok and float(np.min(tmax - tmin)) / hi >= 0.05
    if case["step"] is not None:
        st = arr(case["step"], n)
        ok = ok and float(np.max(st)) / lo <= 30.0 and float(np.min(st)) / hi >= 5e-5
    return bool(ok)


def pick_visited(case, visited):
    """three of the optimiser's gradient requests inside the explored family: the first one, the last one and the one with
    the smallest amplitude (a superfluous component is pushed towards the amplitude bound); as
    '<parameters> <gradient handed over> <which request>' or 'none'"""
    nc = case["ncomp"]
    good = [(i, full_params(case, x), g) for i, (x, g) in enumerate(visited)]
    good = [(i, p, g) for i, p, g in good if len(g) == len(searched_entries(case)) and within_explored_family(case, p)]
    case["_visited"] = (len(visited), len(good))
    if not good:
        return ["none"] * 3
    chosen = [good[0], good[-1], min(good, key=lambda e: (min(e[1][:nc]), e[0]))]
    return [f"{fl(p)} {fl(g)} request-{i + 1}-of-{len(visited)}" for i, p, g in chosen]


def visited_of(case, what):
    """(parameters, gradient handed over) of the observed gradient request `what` of the last run of this case"""
    ia = _LAST.get(canonical(case))
    lay = fit_layout(case)
    if not ia or len(ia) != len(lay):
        return None
    toks = ia[lay.index(what)].split(" ")
    if len(toks) != 3:
        return None
    return dec_fl(toks[0]), dec_fl(toks[1])


def pdf_points(case):
    """points strictly inside the window; for the discretised model bin mid-points"""
    tmin, tmax = to_f(case["tmin"]), to_f(case["tmax"])
    hi = tmax if math.isfinite(tmax) else tmin + 3.0 * max(case["t"])
    if case["step"] is None:
        return [tmin + f * (hi - tmin) for f in (0.01, 0.2, 0.5, 0.9)]
    d = to_f(case["step"])
    K = int(round((hi - tmin) / d))  # bins [tmin + k d, tmin + (k+1) d) with k < K lie below tmax
    return [tmin + (k + 0.5) * d for k in sorted({0, 1, K // 2, K - 1}) if 0 <= k <= K - 1]


def pool_classes(case):
    """distinct (tmin, tmax, step) triples of a data set with their counts, sorted"""
    n = len(case["t"])
    tmin, tmax = arr(case["tmin"], n), arr(case["tmax"], n)
    step = None if case["step"] is None else arr(case["step"], n)
    counts = {}
    for i in range(n):
        key = (float(tmin[i]), float(tmax[i]), None if step is None else float(step[i]))
        counts[key] = counts.get(key, 0) + 1
    return sorted(counts.items(), key=lambda kv: (kv[0][0], kv[0][1], kv[0][2] or 0.0))


def pool_points(case):
    """where the density of pooled data is read: for every set of limits points inside its window (for the
    discretised model bin mid-points), the window edges themselves and points just outside of them -- a point inside
    one window generally lies outside another one"""
    pts = set()
    tmax_data = max(case["t"])
    for (lo, hi, d), _ in pool_classes(case):
        top = hi if math.isfinite(hi) else lo + 3.0 * tmax_data
        if d is None:
            pts.update(lo + f * (top - lo) for f in (0.01, 0.5, 0.9))
            pts.update([lo, top, lo * (1.0 - 1e-3), top * (1.0 + 1e-3)])
            if lo > 0.0:
                pts.add(0.5 * lo)
        else:
            K = int(round((top - lo) / d))
            pts.update(lo + (k + 0.5) * d for k in {0, K // 2, K - 1, -1, K, K + 1} if lo + (k + 0.5) * d > 0)
            pts.update([lo, top])
    return sorted(x for x in pts if x >= 0.0 and math.isfinite(x))


def pool_nodes(case, taus):
    """Gauss-Legendre nodes and weights over the union of the observation windows, with panel boundaries at every
    window edge (the pooled density jumps there)"""
    edges = set()
    unbounded = False
    for (lo, hi, _), _ in pool_classes(case):
        edges.add(lo)
        if math.isfinite(hi):
            edges.add(hi)
        else:
            unbounded = True
    edges = sorted(edges)
    segs = list(zip(edges, edges[1:])) + ([(edges[-1], math.inf)] if unbounded else [])
    xs, ws = [], []
    for a, b in segs:
        x, w = gl_nodes(a, b, taus)
        xs.append(x)
        ws.append(w)
    return np.concatenate(xs), np.concatenate(ws)


# ------------------------------------------------------------------ ops


def enc_soa(v):
    if isinstance(v, list):
        return fl([to_f(x) for x in v])
    return enc_float(to_f(v))


def lik_tokens(case):
    n = len(case["t"])
    st = "N" if case["step"] is None else fl(arr(case["step"], n))
    return f"{fl(case['t'])} {fl(arr(case['tmin'], n))} {fl(arr(case['tmax'], n))} {st}"


def fitted_of(case):
    ia = _LAST.get(canonical(case))
    if not ia or " " not in ia[0]:
        return None
    toks = ia[0].split(" ")
    return dec_fl(toks[1]), dec_fl(toks[2])


def track_token(case, tr):
    ky = kymo_facts(case)[tr["kymo"]]
    mo = "N" if tr["minobs"] is None or tr["minobs"] == "?" else enc_rat(tr["minobs"])  # "?" only where it is not used
    return f"{tr['kymo']}:{ky['n_lines']}:{enc_rat(ky['line_time'])}:{mo}:{enc_list(tr['idx'])}"


def extract_op(case, tracks, excl, obsmin):
    return " ".join(["c15.extract", enc_bool(excl), enc_bool(obsmin)] + [track_token(case, tr) for tr in tracks])


def extract_groups_op(case):
    toks = []
    for j, g in enumerate(case["groups"]):
        toks += (["|"] if j else []) + [track_token(case, case["tracks"][i]) for i in g]
    return " ".join(["c15.extractgroups", enc_bool(case["excl"]), enc_bool(case["obsmin"])] + toks)


def ops(case):
    k = case["op"]
    if k == "likwin":
        amps, taus = case["amps"], case["taus"]
        perm = case["perm"]
        return [
            f"c15.nll {fl(amps)} {fl(taus)} {lik_tokens(case)}",
            f"c15.comps {fl(amps)} {fl(taus)} {lik_tokens(case)}",
            f"c15.nll {fl([amps[i] for i in perm])} {fl([taus[i] for i in perm])} {lik_tokens(case)}",
        ]
    if k == "lik":
        amps, taus = case["amps"], case["taus"]
        perm = case["perm"]
        out = [
            f"c15.nll {fl(amps)} {fl(taus)} {lik_tokens(case)}",
            f"c15.comps {fl(amps)} {fl(taus)} {lik_tokens(case)}",
            f"c15.jac {fl(amps)} {fl(taus)} {lik_tokens(case)}",
            f"c15.nll {fl([amps[i] for i in perm])} {fl([taus[i] for i in perm])} {lik_tokens(case)}",
        ]
        for lo, hi, st in limit_classes(case):
            if st is None:
                x, w = gl_nodes(lo, hi, taus)
                out.append(f"c15.quad {fl(amps)} {fl(taus)} {enc_float(lo)} {enc_float(hi)} {fl(x)} {fl(w)}")
            else:
                K, _ = disc_K(lo, hi, st, taus)
                out.append(f"c15.pmfsum {fl(amps)} {fl(taus)} {enc_float(lo)} {enc_float(hi)} {enc_float(st)} {K}")
        return out
    if k == "fit":
        fp = fitted_of(case)
        lay = fit_layout(case)
        if fp is None:
            # the constructor raised: the model's verdict on the arguments
            return [f"c15.validate {fl(case['t'])} {enc_soa(case['tmin'])} {enc_soa(case['tmax'])} "
                    f"{'N' if case['step'] is None else enc_soa(case['step'])}"] * len(lay)
        amps, taus = fp
        n = len(case["t"])
        out = []
        for what in lay:
            if what == "ll":
                out.append(f"c15.nll {fl(amps)} {fl(taus)} {lik_tokens(case)}")
            elif what == "bounds":
                out.append(f"c15.bounds {enc_float(np.min(arr(case['tmin'], n)))} {enc_float(np.max(arr(case['tmax'], n)))}")
            elif what == "pdf":
                x = np.array(pdf_points(case), dtype=float)
                if case["step"] is not None:
                    d = to_f(case["step"])
                    x = np.floor(x / d) * d
                m = len(x)
                st = "N" if case["step"] is None else fl(arr(case["step"], m))
                out.append(f"c15.comps {fl(amps)} {fl(taus)} {fl(x)} {fl(arr(case['tmin'], m))} {fl(arr(case['tmax'], m))} {st}")
            elif what == "quad":
                x, w = gl_nodes(to_f(case["tmin"]), to_f(case["tmax"]), list(taus))
                out.append(f"c15.quad {fl(amps)} {fl(taus)} {enc_float(to_f(case['tmin']))} {enc_float(to_f(case['tmax']))} {fl(x)} {fl(w)}")
            elif what == "pdfpool":
                st = "N" if case["step"] is None else fl(arr(case["step"], n))
                out.append(f"c15.pdfpool {fl(amps)} {fl(taus)} {fl(pool_points(case))} {fl(arr(case['tmin'], n))} "
                           f"{fl(arr(case['tmax'], n))} {st}")
            elif what == "quadpool":
                x, w = pool_nodes(case, list(taus))
                out.append(f"c15.quadpool {fl(amps)} {fl(taus)} {fl(arr(case['tmin'], n))} {fl(arr(case['tmax'], n))} N "
                           f"{fl(x)} {fl(w)}")
            elif what == "mle1":
                out.append(f"c15.mle1 {fl(case['t'])} {fl(arr(case['tmin'], n))}")
            elif what.startswith("jacvis"):
                v = visited_of(case, what)
                if v is None:  # no request inside the explored family: nothing to ask (any well-formed op; answer unused)
                    out.append(f"c15.bounds {enc_float(np.min(arr(case['tmin'], n)))} {enc_float(np.max(arr(case['tmax'], n)))}")
                else:
                    nc = case["ncomp"]
                    out.append(f"c15.jac {fl(v[0][:nc])} {fl(v[0][nc:])} {lik_tokens(case)}")
        return out
    if k == "fbt":
        ob = lambda v: "N" if v is None else enc_bool(v)  # noqa: E731
        body = extract_op(case, case["tracks"], case["excl"], True).split(" ")[3:]
        return [" ".join(["c15.fbt", str(case["n"]), enc_bool(case["excl"]), ob(case["om"]), ob(case["disc"])] + body)]
    if k == "assemble":
        mask = "N" if case["mask"] is None else enc_list(case["mask"], enc_bool)
        n = len(case["t"])
        lo = float(np.min(arr(case["tmin"], n)))
        hi = float(np.max(arr(case["tmax"], n)))
        params = ("D:" + enc_rat(float(np.mean(np.array(case["t"], dtype=float)))) if case["params"] is None
                  else enc_list(case["params"], enc_rat))
        return [f"c15.assemble {case['n']} {params} {mask} {fl(case['probe'])} "
                f"{lik_tokens(case)} {enc_float(lo)} {enc_float(hi)}"]
    if k == "constraint":
        mask = "N" if case["mask"] is None else enc_list(case["mask"], enc_bool)
        return [f"c15.constraint {case['n']} {enc_list(case['params'], enc_rat)} {mask} {enc_list(case['x'], enc_rat)}"]
    if k == "extract":
        if "groups" in case:
            return [extract_groups_op(case)]
        if "steps" not in case:
            return [extract_op(case, case["tracks"], case["excl"], case["obsmin"])]
        # the model is asked about the tracks that were in the group object at the time of each analysis
        ia = _LAST.get(canonical(case)) or []
        out = []
        for j, (excl, obsmin) in enumerate(seq_flags(case)):
            st = split_state(ia[j])[0] if j < len(ia) else None
            try:
                tracks = case["tracks"] if st is None else parse_state(st)
                # what the harness could not read off the group is not asked about (any well-formed op; answer unused)
                out.append(extract_op(case, tracks if state_known(tracks, obsmin) else [], excl, obsmin))
            except Exception:
                out.append("c15.extract group-contents-unreadable")  # -> bad-op: reported as a disagreement
        return out
    if k == "validate":
        return [f"c15.validate {fl(case['t'])} {enc_soa(case['tmin'])} {enc_soa(case['tmax'])} "
                f"{'N' if case['step'] is None else enc_soa(case['step'])}"]
    raise ValueError(k)


# ------------------------------------------------------------------ agreement (tolerances of DESIGN 2.2)


def close(a, b, rel=1e-9, abs_=0.0):
    if math.isnan(a) or math.isnan(b):
        return math.isnan(a) and math.isnan(b)
    if math.isinf(a) or math.isinf(b):
        return a == b
    return abs(a - b) <= rel * max(abs(a), abs(b)) + abs_


def parse_rows(s):
    body, flag = s.rsplit(" ", 1)
    inner = body[1:-1]
    rows = [r.split(":") for r in inner.split(",")] if inner else []
    return rows, flag


def match_rows(R, Q, same):
    """pairs every row of R with a distinct row of Q (rows are equal or clearly different: greedy is enough)"""
    if len(R) != len(Q):
        return False
    used = [False] * len(Q)
    for r in R:
        for j, q in enumerate(Q):
            if not used[j] and same(r, q):
                used[j] = True
                break
        else:
            return False
    return True


def outside_own_window(rows, discrete):
    """DwelltimeModel's own argument validation (checked by the 'validate' cases) has to refuse these rows (dwell time,
    minimum, maximum, step): a dwell time outside its observation limits (e.g. a track that was split below the minimum
    duration it carries) or, for the discretised model, a time step above the minimum"""
    return any(d < lo - 1e-6 * lo or d > hi + 1e-6 * hi or (discrete and st > (1.0 + 1e-6) * lo) for d, lo, hi, st in rows)


def agree_extract(case, ia, ma, ordered):
    if ia.endswith("Error") or ma.endswith("Error"):
        if via_of(case) == "fit" and ia == "RuntimeError" and not ma.endswith("Error"):
            return parse_rows(ma)[0] == []  # "No tracks available for analysis"
        if via_of(case) == "fit" and ia == "ValueError" and not ordered and not ma.endswith("Error"):
            return outside_own_window([[float(dec_rat(x)) for x in q] for q in parse_rows(ma)[0]], discrete_of(case))
        return ia == ma
    R, f1 = parse_rows(ia)
    Q, f2 = parse_rows(ma)
    if f1 != f2 or len(R) != len(Q):
        return False

    def same(r, q):
        for j, (x, y) in enumerate(zip(r, q)):
            xv = dec_float(x)
            if j == 3 and via_of(case) == "fit" and not discrete_of(case):
                if not math.isnan(xv):
                    return False
                continue
            if not close(xv, float(dec_rat(y)), 1e-9, 1e-15):
                return False
        return True

    if ordered:
        return all(same(r, q) for r, q in zip(R, Q))
    return match_rows(R, Q, same)


def agree(case, i, ia, ma):
    k = case["op"]
    try:
        if k == "fbt":
            if ia.endswith("Error") or ma.endswith("Error") or ma == "bad-op":
                return ia == ma
            I, M = ia.split(" "), ma.split(" ")
            if I[1:4] != M[1:4]:
                return False
            R, f1 = parse_rows(" ".join(I[4:]))
            Q, f2 = parse_rows(" ".join(M[4:]))
            if f1 != f2 or len(R) != len(Q):
                return False
            for r, q in zip(R, Q):
                for j, (x, y) in enumerate(zip(r, q)):
                    xv = dec_float(x)
                    if j == 3 and M[1] == "F":
                        if not math.isnan(xv):
                            return False
                    elif not close(xv, float(dec_rat(y)), 1e-9, 1e-15):
                        return False
            return True
        if k == "assemble":
            if ia == "?":
                return True
            if ia.endswith("Error") or ma.endswith("Error") or ma == "bad-op":
                return ia == ma
            I, M = ia.split(" "), ma.split(" ")
            fitted = [c == "T" for c in M[0][1:-1].split(",")] if M[0] != "[]" else []
            for j in (1, 2, 3, 4):  # start vector, bounds, reported parameters: the same double operations on both sides
                A, B = dec_fl(I[j]), dec_fl(M[j])
                if len(A) != len(B) or not all(close(x, y, 1e-12) for x, y in zip(A, B)):
                    return False
            n = case["n"]
            rep = dec_fl(I[4])
            amps, taus = rep[:n], rep[n:]
            t = np.array(case["t"], dtype=float)
            if not close(dec_float(I[5]), dec_float(M[5]), 1e-9, 1e-11 * nll_scale(amps, taus, t)):
                return False
            if I[6] != "?":
                A, B = dec_fl(I[6]), dec_fl(M[6])
                no = len(t)
                tol = grad_tolerance(amps, taus, t, arr(case["tmin"], no), arr(case["tmax"], no),
                                     None if case["step"] is None else arr(case["step"], no), 1e-10, 0.0)
                tol = [s_ for s_, f in zip(tol, fitted) if f]
                if len(A) != len(B) or len(tol) != len(A) or not all(close(x, y, 1e-9, s_) for x, y, s_ in zip(A, B, tol)):
                    return False
            return True
        if k == "likwin":
            amps, taus = case["amps"], case["taus"]
            t = np.array(case["t"], dtype=float)
            if ia == "?":
                return True
            if ia.endswith("Error") or ma in ("bad-op",):
                return False
            if i in (0, 2):
                return close(dec_float(ia), dec_float(ma), 1e-9, 1e-11 * nll_scale(amps, taus, t))
            A, B = dec_mat(ia), dec_mat(ma)
            sc = nll_scale(amps, taus, t) / max(1, len(t))
            return len(A) == len(B) and all(
                len(r) == len(q) and all(close(x, y, 1e-9, 1e-11 * sc) for x, y in zip(r, q)) for r, q in zip(A, B))
        if k == "lik":
            amps, taus = case["amps"], case["taus"]
            t = np.array(case["t"], dtype=float)
            if ia == "?":
                return True  # the harness could not make this observation (see `observe`): nothing to compare
            if ia.endswith("Error") or ma in ("bad-op",):
                return False
            if i in (0, 3):
                return close(dec_float(ia), dec_float(ma), 1e-9, 1e-11 * nll_scale(amps, taus, t))
            if i == 1:
                A, B = dec_mat(ia), dec_mat(ma)
                sc = nll_scale(amps, taus, t) / max(1, len(t))
                return len(A) == len(B) and all(
                    len(r) == len(q) and all(close(x, y, 1e-9, 1e-11 * sc) for x, y in zip(r, q)) for r, q in zip(A, B)
                )
            if i == 2:
                A, B = dec_fl(ia), dec_fl(ma)
                n = len(t)
                tol = grad_tolerance(amps, taus, t, arr(case["tmin"], n), arr(case["tmax"], n),
                                     None if case["step"] is None else arr(case["step"], n), 1e-10, 0.0)
                return len(A) == len(B) and all(close(x, y, 1e-9, s) for x, y, s in zip(A, B, tol))
            return close(dec_float(ia), dec_float(ma), 1e-9, 1e-12)
        if k == "fit":
            lay = fit_layout(case)
            fp = fitted_of(case)
            if fp is None:
                return ma == ia  # both must report the ValueError
            what = lay[i]
            t = np.array(case["t"], dtype=float)
            amps, taus = fp
            if what == "ll":
                return close(dec_float(ia.split(" ")[0]), dec_float(ma), 1e-9, 1e-11 * nll_scale(amps, taus, t))
            if what == "bounds":
                if ia == "?":
                    return True  # neither _exponential_mle_bounds nor the bounds handed to the optimiser could be read
                if ia.startswith("? "):  # one component, read off the optimiser's arguments: the lifetime's bounds only
                    return all(close(x, y, 1e-12) for x, y in zip(dec_fl(ia[2:]), dec_fl(ma)[2:]))
                return ia.startswith("[") and all(close(x, y, 1e-12) for x, y in zip(dec_fl(ia), dec_fl(ma)))
            if what == "pdf":
                A, B = dec_mat(ia), dec_mat(ma)
                norm = 1.0 if case["step"] is None else 1.0 / to_f(case["step"])
                return len(A) == len(B) and all(
                    len(r) == len(q) and all(close(x, math.exp(y) * norm, 1e-9, 1e-300) for x, y in zip(r, q))
                    for r, q in zip(A, B)
                )
            if what == "quad":
                return close(dec_float(ia), dec_float(ma), 1e-9)
            if what == "pdfpool":
                A, B = dec_mat(ia), dec_mat(ma)
                return len(A) == len(B) and all(
                    len(r) == len(q) and all(close(x, y, 1e-9, 1e-300) for x, y in zip(r, q)) for r, q in zip(A, B)
                )
            if what == "quadpool":
                return close(dec_float(ia), dec_float(ma), 1e-9)
            if what.startswith("jacvis"):
                v = visited_of(case, what)
                if v is None:
                    return ia == "none"
                nc = case["ncomp"]
                G, M = v[1], [dec_fl(ma)[j] for j in searched_entries(case)]
                tol = grad_tolerance(v[0][:nc], v[0][nc:], t, arr(case["tmin"], len(t)), arr(case["tmax"], len(t)),
                                     None if case["step"] is None else arr(case["step"], len(t)), 1e-10, 0.0)
                return len(G) == len(M) and all(close(x, y, 1e-9, tol[j]) for x, y, j in zip(G, M, searched_entries(case)))
            if what == "mle1":
                # the optimiser's answer against the closed form: SLSQP stops at ftol=1e-6 on the likelihood
                if _LAST.get(canonical(case), ["x x x x"])[0].split(" ")[-1].startswith("slsqp-status"):
                    return True  # SLSQP itself reports failure; counted in extra_coverage
                n = len(t)
                lo = max(float(np.min(arr(case["tmin"], n))) * 0.1, 1e-8)
                target = min(max(dec_float(ma), lo), 1e8)
                return close(dec_float(ia), target, 2e-3)
        if k == "constraint":
            if ia.endswith("Error") or ma.endswith("Error"):
                return ia == ma
            fi, ni, pi, vi = ia.split(" ")
            fm, nm, pm, vm = ma.split(" ")
            if fi != fm or ni != nm or (vi == "none") != (vm == "none"):
                return False
            P = dec_fl(pi)
            Q = [float(dec_rat(x)) for x in pm[1:-1].split(",")] if pm != "[]" else []
            if len(P) != len(Q) or not all(close(x, y, 1e-12, 1e-15) for x, y in zip(P, Q)):
                return False
            return vi == "none" or close(dec_float(vi), float(dec_rat(vm)), 1e-9, 1e-12)
        if k == "extract":
            if "groups" in case and ia == "?":
                return True  # the anchored function could not be reached and there is no public route to such a call
            if "steps" not in case:
                return agree_extract(case, ia, ma, ordered=True)
            # one analysis of a sequence on one group object: the rows as a multiset (the order in which the code
            # stacks the kymographs follows the history of the object; extraction_spec is a statement up to that order)
            st, payload = split_state(ia)
            if st is None:
                return False  # the group could not even be built
            if not state_known(parse_state(st), seq_flags(case)[i][1]):
                return True  # the harness could not read the group's tracks: this analysis is not judged
            if not parse_state(st) and payload.endswith("Error"):
                return not ma.endswith("Error") and parse_rows(ma)[0] == []  # nothing in the group, nothing handed over
            return agree_extract(case, payload, ma, ordered=False)
        return ia == ma
    except Exception:
        return False


# ------------------------------------------------------------------ oracle


def oracle(case, ia):
    k = case["op"]
    try:
        if k == "lik":
            return oracle_lik(case, ia)
        if k == "likwin":
            return oracle_likwin(case, ia)
        if k == "assemble":
            return oracle_assemble(case, ia)
        if k == "fbt":
            return oracle_fbt(case, ia)
        if k == "fit":
            return oracle_fit(case, ia)
        if k == "constraint":
            return oracle_constraint(case, ia)
        if k == "extract":
            return oracle_extract(case, ia)
        if k == "validate":
            return oracle_validate(case, ia)
    except Exception as e:  # an unparsable implementation answer is a failure of the implementation side
        return f"oracle-could-not-read-answer: {type(e).__name__}: {e}; answers {[a[:80] for a in ia]}"
    return None


def window_depth(case):
    """largest (tmin_i - step_i) / tau_j: beyond ~745 exp(-tmin/tau) is 0 in double precision and the window probability
    exp(-tmin/tau) - exp(-tmax/tau) can only be had in the factored form"""
    n = len(case["t"])
    tmin = arr(case["tmin"], n)
    shift = tmin if case["step"] is None else tmin - arr(case["step"], n)
    return float(np.max(shift)) / min(case["taus"])


def oracle_likwin(case, ia):
    """the likelihood is the truncated mixture density also where the window probability is below the range of doubles
    (textbook formula in extended precision, whose exponent range reaches exp(-11000)); it is finite and relabelling-invariant"""
    amps, taus = case["amps"], case["taus"]
    n = len(case["t"])
    t, tmin, tmax = np.array(case["t"], dtype=float), arr(case["tmin"], n), arr(case["tmax"], n)
    step = None if case["step"] is None else arr(case["step"], n)
    for a in ia:
        if a.endswith("Error"):
            return f"likelihood-evaluates: admissible parameters raised {a}"
    if ia[0] == "?":
        return None
    with np.errstate(all="ignore"):
        sc = nll_scale(amps, taus, t)
        nll = dec_float(ia[0])
        if not math.isfinite(nll):
            return (f"likelihood-value: -log L = {nll!r} for admissible parameters inside the lifetime search bounds "
                    f"(window probability below the range of doubles, largest tmin/tau = {window_depth(case):.0f})")
        ref = float(o_nll(amps, taus, t, tmin, tmax, step))
        if math.isfinite(ref) and not close(nll, ref, 1e-9, 1e-10 * sc):
            return f"likelihood-value: -log L = {nll!r} but the truncated mixture density gives {ref!r}"
        if ia[2] != "?":
            nllp = dec_float(ia[2])
            if not close(nll, nllp, 1e-10, 1e-12 * sc):
                return f"relabel-invariant: -log L = {nll!r}, after relabelling components with {case['perm']} {nllp!r}"
    return None


def oracle_fbt(case, ia):
    """from the documentation of fit_binding_times: an empty group cannot be analysed; only 1 and 2 components are
    supported; observed_minimum left out means the legacy mode (with a warning), discrete_model left out means the
    continuous model (with a warning): the time step is handed to the model iff discrete_model is True; the rows are those
    of the property text for the mode in force"""
    a = ia[0]
    if not case["tracks"]:
        return None if a == "RuntimeError" else f"fit-binding-times-empty-group: {a[:80]}"
    if case["n"] not in (1, 2):
        return None if a == "ValueError" else f"fit-binding-times-components: n_components={case['n']} gave {a[:80]}"
    om = True if case["om"] is None else case["om"]
    disc = False if case["disc"] is None else case["disc"]
    derived = dict(case, op="extract", obsmin=om, via="fit", discrete=disc)
    if a.endswith("Error"):
        return oracle_extract(derived, [a])
    toks = a.split(" ")
    if (toks[1] == "T") != disc:
        return f"fit-binding-times-step: discrete_model={case['disc']} but the time step was {'handed' if toks[1] == 'T' else 'not handed'} to the model"
    if (toks[2] == "T") != (case["om"] is None):
        return f"fit-binding-times-warning: observed_minimum={case['om']}, deprecation warning issued: {toks[2]}"
    if (toks[3] == "T") != (case["disc"] is None):
        return f"fit-binding-times-warning: discrete_model={case['disc']}, default warning issued: {toks[3]}"
    return oracle_extract(derived, [" ".join(toks[4:])])


def oracle_assemble(case, ia):
    """from the property text: the reported log-likelihood is the model's likelihood at the reported parameters; fixed
    parameters are reported as given, a single free amplitude completes the others to one, and what the optimiser
    answered is reported in the fitted slots; the lifetime bounds are a proper interval"""
    a = ia[0]
    if a == "?":
        return None
    n = case["n"]
    if case["params"] is None:
        # documented default: equal amplitudes; lifetimes proportional to 1..n with the sample mean as their average
        mean = Fraction(float(np.mean(np.array(case["t"], dtype=float))))
        params = [Fraction(1, n)] * n + [mean * n * k / sum(range(1, n + 1)) for k in range(1, n + 1)]
    else:
        params = [Fraction(p) for p in case["params"]]
    fixed = [False] * (2 * n) if case["mask"] is None else list(case["mask"])
    sum_fixed = sum(p for p, f in zip(params[:n], fixed[:n]) if f)
    free = [i for i in range(n) if not fixed[i]]
    total = sum_fixed + (1 - sum_fixed if len(free) == 1 else 0)
    invalid = sum_fixed > 1 or (len(free) <= 1 and abs(total - 1) > Fraction(11, 10**6))
    if invalid:
        return None if a == "ValueError" else f"constraint-simplex: an amplitude specification that cannot sum to one was accepted: {a[:120]}"
    if a.endswith("Error"):
        return f"fit-evaluates: valid fixed parameters and data inside the limits raised {a}"
    I = a.split(" ")
    x0, lo, hi, rep = dec_fl(I[1]), dec_fl(I[2]), dec_fl(I[3]), dec_fl(I[4])
    ll = dec_float(I[5])
    fitted = assemble_fitted(case)
    k = sum(fitted)
    probe = case["probe"][:k]
    if len(rep) != 2 * n:
        return f"reported-parameters: {len(rep)} parameters for {n} components"
    it = iter(probe)
    for i in range(2 * n):
        if fitted[i]:
            want = next(it)
            if rep[i] != want:
                return f"reported-parameters: the optimiser answered {want!r} for parameter {i}, reported is {rep[i]!r}"
        elif i < n and not fixed[i]:
            if abs(Fraction(rep[i]) - (1 - sum_fixed)) > Fraction(1, 10**12):
                return f"amplitudes-sum-to-one: the only free amplitude is reported as {rep[i]!r}, the fixed ones sum to {float(sum_fixed)}"
        elif abs(Fraction(rep[i]) - params[i]) > Fraction(1, 10**12) * abs(params[i]):
            return f"fixed-parameter-changed: parameter {i} was fixed at {float(params[i])!r}, reported is {rep[i]!r}"
    if k and (len(x0) != k or len(lo) != k or len(hi) != k):
        return f"optimiser-arguments: {k} parameters are fitted, start vector/bounds have {len(x0)}/{len(lo)}/{len(hi)} entries"
    for l, h, x in zip(lo, hi, x0):
        if not l < h:
            return f"search-bounds: empty interval ({l!r}, {h!r})"
    nobs = len(case["t"])
    t, tmin, tmax = np.array(case["t"], dtype=float), arr(case["tmin"], nobs), arr(case["tmax"], nobs)
    step = None if case["step"] is None else arr(case["step"], nobs)
    with np.errstate(all="ignore"):
        ref = -float(o_nll(rep[:n], rep[n:], t, tmin, tmax, step))
    if math.isfinite(ref) and not close(ll, ref, 1e-9, 1e-10 * nll_scale(rep[:n], rep[n:], t)):
        return f"reported-likelihood: log L = {ll!r} reported, the truncated mixture density at the reported parameters gives {ref!r}"
    if I[7] != "none":
        cval = dec_float(I[7])
        s_amp = sum(Fraction(v) for v in rep[:n])
        if abs(Fraction(cval) - (1 - s_amp)) > Fraction(1, 10**9):
            return f"constraint-simplex: constraint value {cval!r} at the optimiser's answer, 1 - sum of reported amplitudes is {float(1 - s_amp)!r}"
    return None


def oracle_lik(case, ia):
    amps, taus = case["amps"], case["taus"]
    n = len(case["t"])
    t, tmin, tmax = np.array(case["t"], dtype=float), arr(case["tmin"], n), arr(case["tmax"], n)
    step = None if case["step"] is None else arr(case["step"], n)
    for a in ia:
        if a.endswith("Error"):
            return f"likelihood-evaluates: admissible parameters raised {a}"
    with np.errstate(all="ignore"):
        # an observation the harness could not make is "?" (see `observe`); the clauses that need it are skipped
        sc = nll_scale(amps, taus, t)
        nll = None if ia[0] == "?" else dec_float(ia[0])
        if nll is not None:
            ref = float(o_nll(amps, taus, t, tmin, tmax, step))
            if not close(nll, ref, 1e-9, 1e-10 * sc):
                return f"likelihood-value: -log L = {nll!r} but the truncated mixture density gives {ref!r}"
        nllp = None if ia[3] == "?" else dec_float(ia[3])
        if nll is not None and nllp is not None and not close(nll, nllp, 1e-10, 1e-12 * sc):
            return f"relabel-invariant: -log L = {nll!r}, after relabelling components with {case['perm']} {nllp!r}"
        g = [] if ia[2] == "?" else dec_fl(ia[2])
        gn = o_numgrad(amps, taus, t, tmin, tmax, step) if g else []
        # every entry is looked at on the scale of the terms it sums, not on the worst-case scale n/a_j: the entries that
        # belong to a rare component are small, and they are exactly the ones an amplitude clamp or floor distorts
        gs = grad_tolerance(amps, taus, t, tmin, tmax, step, 1e-7, NUM_EPS) if g else []
        for j in range(len(g)):
            if not close(g[j], float(gn[j]), 1e-6, gs[j]):
                which = f"amplitude {j}" if j < len(amps) else f"lifetime {j - len(amps)}"
                return (f"gradient: analytic d(-log L)/d({which}) = {g[j]!r}, numerical gradient of the log-likelihood "
                        f"{float(gn[j])!r}")
        for idx, (lo, hi, st) in enumerate(limit_classes(case)):
            if ia[4 + idx] == "?":
                continue
            total = dec_float(ia[4 + idx])
            if st is not None and not disc_K(lo, hi, st, taus)[1]:
                continue  # support not covered by the explicit sum (recorded in extra_coverage)
            if not close(total, 1.0, 0.0, 1e-9):
                kind = "sum over the observable dwell times" if st is not None else "integral over the window"
                return f"normalised: {kind} [{lo!r}, {hi!r}] step {st!r} is {total!r}, not 1"
    return None


def oracle_fit(case, ia):
    if case.get("_bootstrap_changed"):
        return ("fit-is-not-altered-by-derived-analyses: after calculate_bootstrap(iterations=2) the fitted model reports "
                + case["_bootstrap_changed"] + " while log_likelihood still describes the original fit")
    lay = fit_layout(case)
    n = len(case["t"])
    t, tmin, tmax = np.array(case["t"], dtype=float), arr(case["tmin"], n), arr(case["tmax"], n)
    step = None if case["step"] is None else arr(case["step"], n)
    if any(a.endswith("Error") for a in ia):
        # data inside the window and consistent limits: the constructor has no reason to refuse
        return f"fit-runs: DwelltimeModel raised {[a for a in ia if a.endswith('Error')][0]} on data inside its window"
    toks = ia[0].split(" ")
    nll = dec_float(toks[0])
    amps, taus = dec_fl(toks[1]), dec_fl(toks[2])
    converged = toks[3] in ("converged", "nothing-to-fit")  # SLSQP is a parameter of the property, not its subject
    if len(amps) != case["ncomp"] or len(taus) != case["ncomp"]:
        return f"fit-shape: {len(amps)} amplitudes / {len(taus)} lifetimes for {case['ncomp']} components"
    if min(amps) < 0:
        return f"amplitudes-nonnegative: fitted amplitudes {amps}"
    # SLSQP enforces the equality constraint to its own accuracy (acc = ftol = 1e-6 by default, then clips to the bounds)
    if abs(sum(amps) - 1.0) > 1e-4:
        # after an unsuccessful SLSQP exit pylake reports the last iterate without looking at result.success: that class
        # is the open finding F24 (see tags); after a successful exit any deviation is a violation
        return f"amplitudes-sum-to-one: fitted amplitudes {amps} sum to {sum(amps)!r} (optimiser: {toks[3]})"
    lo = max(float(np.min(tmin)) * 0.1, 1e-8)
    hi = min(float(np.max(tmax)) * 1.1, 1e8)
    for tau in taus:
        if not (lo * (1 - 1e-6) <= tau <= hi * (1 + 1e-6)):
            return f"lifetimes-within-bounds: fitted lifetime {tau!r} outside [{lo!r}, {hi!r}]"
    with np.errstate(all="ignore"):
        ref = float(o_nll([max(a, 1e-300) for a in amps], taus, t, tmin, tmax, step))
    if not close(nll, ref, 1e-9, 1e-10 * nll_scale([max(a, 1e-9) for a in amps], taus, t)):
        return (f"reported-likelihood: log_likelihood = {-nll!r} but the model's likelihood at the reported parameters "
                f"is {-ref!r}")
    if "quad" in lay:
        total = dec_float(ia[lay.index("quad")])
        if not close(total, 1.0, 0.0, 1e-8):
            return f"normalised: DwelltimeModel.pdf integrates to {total!r} over the observation window"
    if "quadpool" in lay:
        total = dec_float(ia[lay.index("quadpool")])
        if not close(total, 1.0, 0.0, 1e-8):
            return (f"normalised: DwelltimeModel.pdf of data with per-observation limits integrates to {total!r} over "
                    f"the observation windows")
    if "pdfpool" in lay and case["step"] is None:
        # the density of pooled data: every dwell time is drawn from the mixture truncated to ITS window, so the density
        # is the count-weighted mean of the truncated densities, each one zero outside its own window
        classes = pool_classes(case)
        rows = dec_mat(ia[lay.index("pdfpool")])
        edges = {v for (wlo, whi, _), _ in classes for v in (wlo, whi)}
        safe = [max(a, 1e-300) for a in amps]
        for j, x in enumerate(pool_points(case)):
            if x in edges:
                continue  # a single point of the window edge carries no probability; tied to the model only
            got = sum(r[j] for r in rows)
            ref = 0.0
            with np.errstate(all="ignore"):
                for (wlo, whi, _), cnt in classes:
                    if wlo <= x < whi:
                        ref += cnt / n * float(o_density(safe, taus, [x], [wlo], [whi], None)[0])
            if not close(got, ref, 1e-8, 1e-300):
                return (f"pooled-density: DwelltimeModel.pdf({x!r}) sums to {got!r} over the components; the truncated "
                        f"mixture densities of the windows containing that point, weighted by their share of the data, "
                        f"give {ref!r}")
    # the gradient the optimiser was handed during the fit is the gradient of the log-likelihood it minimises
    seen = set()
    for what in ("jacvis0", "jacvis1", "jacvis2"):
        toks = ia[lay.index(what)].split(" ")
        if len(toks) != 3 or toks[0] in seen:
            continue
        seen.add(toks[0])
        p, g = dec_fl(toks[0]), dec_fl(toks[1])
        nc = case["ncomp"]
        with np.errstate(all="ignore"):
            gn = o_numgrad(p[:nc], p[nc:], t, tmin, tmax, step)
        tol = grad_tolerance(p[:nc], p[nc:], t, tmin, tmax, step, 1e-7, NUM_EPS)
        for gj, j in zip(g, searched_entries(case)):
            if not close(gj, float(gn[j]), 1e-6, tol[j]):
                which = f"amplitude {j}" if j < nc else f"lifetime {j - nc}"
                return (f"gradient-handed-to-the-optimiser: at amplitudes {p[:nc]}, lifetimes {p[nc:]} ({toks[2]} during this "
                        f"fit) the optimiser was handed d(-log L)/d({which}) = {gj!r}; the numerical gradient of the "
                        f"log-likelihood is {float(gn[j])!r}")
    if "mle1" in lay and converged:
        closed = float(np.mean(t - tmin))
        target = min(max(closed, lo), hi)
        if not close(taus[0], target, 2e-3):
            return (f"one-component-closed-form: fitted lifetime {taus[0]!r}, sample mean minus minimum observable time "
                    f"{closed!r} (clipped to the bounds: {target!r})")
    return None


def oracle_constraint(case, ia):
    n = case["n"]
    params = [Fraction(p) for p in case["params"]]
    mask = case["mask"]
    bad_len = (mask is not None and len(mask) != len(params)) or len(params) != 2 * n
    a = ia[0]
    if bad_len:
        return None if a == "ValueError" else f"constraint-arguments: mask/parameter length mismatch accepted: {a[:100]}"
    fixed = [False] * len(params) if mask is None else list(mask)
    sum_fixed = sum(p for p, f in zip(params[:n], fixed[:n]) if f)
    free = [i for i in range(n) if not fixed[i]]
    if sum_fixed > 1:
        return None if a == "ValueError" else f"constraint-fixed-mass: fixed amplitudes sum to {sum_fixed} > 1 but accepted"
    exp_params = list(params)
    if len(free) == 1:
        exp_params[free[0]] = 1 - sum_fixed
    total_if_determined = sum(exp_params[:n])
    if len(free) <= 1 and abs(total_if_determined - 1) > Fraction(11, 10**6):
        return None if a == "ValueError" else f"constraint-simplex: amplitudes sum to {total_if_determined} but accepted"
    if a.endswith("Error"):
        if len(free) <= 1 and abs(abs(total_if_determined - 1) - Fraction(11, 10**6)) < Fraction(1, 10**9):
            return None  # on the edge of np.allclose
        return f"constraint-accepts: a valid amplitude specification raised {a}"
    fi, ni, pi, vi = a.split(" ")
    newp = dec_fl(pi)
    if any(abs(Fraction(x) - y) > Fraction(1, 10**12) for x, y in zip(newp, exp_params)) or len(newp) != len(params):
        return f"constraint-determines-free-amplitude: parameters {newp}, expected {[float(x) for x in exp_params]}"
    fitted = [c == "T" for c in fi[1:-1].split(",")] if fi != "[]" else []
    exp_fitted = [not f for f in fixed]
    if len(free) == 1:
        exp_fitted[free[0]] = False
    if fitted != exp_fitted:
        return f"constraint-fitted-mask: {fitted}, expected {exp_fitted}"
    if len(free) >= 2:
        x = [Fraction(v) for v in case["x"]]
        want = 1 - sum(x[: len(free)]) - sum_fixed
        if vi == "none" or abs(Fraction(dec_float(vi)) - want) > Fraction(1, 10**9):
            return f"constraint-simplex: constraint value {vi if vi == 'none' else dec_float(vi)}, 1 - sum of amplitudes is {float(want)}"
    elif vi != "none":
        return "constraint-simplex: a constraint was handed over although no amplitude is free"
    return None


def expected_rows(case):
    """from the property text: per kymograph (in order of first appearance), per track: skip tracks touching the first
    or last line when ambiguous dwells are excluded, skip zero durations; row = duration, the track's minimum observable
    duration (legacy mode: shortest kept duration of that kymograph), #lines*line time, line time"""
    order = []
    for tr in case["tracks"]:
        if tr["kymo"] not in order:
            order.append(tr["kymo"])
    rows, removed, missing = [], False, False
    for kid in order:
        ky = kymo_facts(case)[kid]
        lt, nl = Fraction(ky["line_time"]), ky["n_lines"]
        kept = []
        for tr in case["tracks"]:
            if tr["kymo"] != kid:
                continue
            if not tr["idx"]:
                continue
            first, last = tr["idx"][0], tr["idx"][-1]
            if case["excl"] and (first <= 0 or last >= nl - 1):
                continue
            d = (last - first) * lt
            if d <= 0:
                removed = True
                continue
            kept.append((d, tr["minobs"]))
        if not kept:
            continue
        shortest = min(d for d, _ in kept)
        for d, mo in kept:
            if case["obsmin"]:
                m = shortest
            elif mo is None:
                missing = True
                m = Fraction(0)
            else:
                m = Fraction(mo)
            rows.append((d, m, nl * lt, lt))
    return rows, removed, missing


def mixed_groups(case):
    """groups of the case that hold tracks of more than one kymograph"""
    return [g for g in case.get("groups", []) if len({case["tracks"][i]["kymo"] for i in g}) > 1]


def oracle_extract_groups(case, ia):
    """the anchored function handed explicit groups.  From the property text: every row handed over is the duration of a
    track, that track's minimum observable duration, the total duration of the kymograph THAT TRACK lies on (and its line
    time).  Groups on one kymograph each, in any order, with empty groups in between: the rows of the groups one after the
    other (legacy minimum: the shortest kept dwell of the group handed in).  A group over several kymographs has no single
    'kymograph's total duration': refusing it (ValueError, as the function documents) is fine, and so would be rows that
    are right track by track -- rows carrying another kymograph's duration are not"""
    a = ia[0]
    if a == "?":
        return None
    if mixed_groups(case) and a == "ValueError":
        return None
    rows, removed, missing, empty = [], False, False, False
    for g in case["groups"]:
        sub = dict(case, tracks=[case["tracks"][i] for i in g])
        empty = empty or any(len(tr["idx"]) == 0 for tr in sub["tracks"])
        by_kymo = []
        for kid in sorted({tr["kymo"] for tr in sub["tracks"]}):
            r, rem, mis = expected_rows(dict(sub, tracks=[tr for tr in sub["tracks"] if tr["kymo"] == kid]))
            by_kymo += r
            removed, missing = removed or rem, missing or mis
        if case["obsmin"] and by_kymo:  # the legacy minimum is taken over the group that was handed in
            m = min(r[0] for r in by_kymo)
            by_kymo = [(r[0], m, r[2], r[3]) for r in by_kymo]
        rows += by_kymo
    if empty:
        ok = ("IndexError", "RuntimeError") if missing else ("IndexError",)
        return None if a in ok else f"extraction-empty-track: a track without points gave {a[:80]}"
    if missing:
        return None if a == "RuntimeError" else f"extraction-missing-minimum: a kept track has no minimum observable duration but {a[:80]}"
    if a.endswith("Error"):
        return f"extraction: raised {a} for groups that lie on one kymograph each"
    R, flag = parse_rows(a)
    if len(R) != len(rows):
        return f"extraction-tracks-kept: {len(R)} dwell times handed over, {len(rows)} tracks of the groups qualify"
    names = ["dwell time", "minimum observation time", "maximum observation time", "discretisation step"]
    G = [[dec_float(x) for x in r] for r in R]
    E = [[float(x) for x in e] for e in rows]
    if mixed_groups(case):
        if not match_rows(G, E, lambda g, e: all(close(g[j], e[j], 1e-9, 1e-15) for j in range(4))):
            return (f"extraction-mixed-group: a group over {len({t['kymo'] for t in case['tracks']})} kymographs was "
                    f"neither refused nor given each track's own kymograph: handed over {sorted(map(tuple, G))}, the "
                    f"tracks give {sorted(map(tuple, E))}")
    else:
        for i, (g, e) in enumerate(zip(G, E)):
            for j in range(4):
                if not close(g[j], e[j], 1e-9, 1e-15):
                    return f"extraction-{names[j].replace(' ', '-')}: row {i}: {names[j]} {g[j]!r}, expected {e[j]!r} (explicit groups)"
    if (flag == "T") != removed:
        return f"extraction-zero-dwells-flag: removed_zeros={flag}, expected {removed}"
    return None


def oracle_extract(case, ia, ordered=True):
    if "steps" in case:
        return oracle_extract_seq(case, ia)
    if "groups" in case:
        return oracle_extract_groups(case, ia)
    a = ia[0]
    if any(len(tr["idx"]) == 0 for tr in case["tracks"]):
        # which of the two complaints comes first depends on the processing order, not on the property
        ok = ("IndexError", "RuntimeError") if any(tr["minobs"] is None for tr in case["tracks"]) else ("IndexError",)
        return None if a in ok else f"extraction-empty-track: a track without points gave {a[:80]}"
    rows, removed, missing = expected_rows(case)
    if missing:
        return None if a == "RuntimeError" else f"extraction-missing-minimum: a kept track has no minimum observable duration but {a[:80]}"
    if via_of(case) == "fit" and not rows:
        return None if a == "RuntimeError" else f"extraction-no-tracks: nothing to analyse but {a[:80]}"
    if not ordered and not case["tracks"] and a.endswith("Error"):
        return None  # a group without tracks: nothing is handed over, by empty arrays or by refusing
    if not ordered and via_of(case) == "fit" and a == "ValueError" and outside_own_window(
            [[float(x) for x in e] for e in rows], discrete_of(case)):
        return None  # the rows of these tracks do not pass the model's own argument validation: nothing to look at
    if a.endswith("Error"):
        return f"extraction: raised {a} for a valid track group"
    R, flag = parse_rows(a)
    if len(R) != len(rows):
        return f"extraction-tracks-kept: {len(R)} dwell times handed over, {len(rows)} tracks qualify"
    names = ["dwell time", "minimum observation time", "maximum observation time", "discretisation step"]
    cols = [j for j in range(4) if not (j == 3 and via_of(case) == "fit" and not discrete_of(case))]
    if ordered:
        for i, (r, e) in enumerate(zip(R, rows)):
            for j in cols:
                v = dec_float(r[j])
                if not close(v, float(e[j]), 1e-9, 1e-15):
                    return f"extraction-{names[j].replace(' ', '-')}: row {i}: {names[j]} {v!r}, expected {float(e[j])!r}"
    else:
        # the rows as a multiset: every row handed over belongs to a different qualifying track of the group
        G = [[dec_float(x) for x in r] for r in R]
        E = [[float(x) for x in e] for e in rows]
        if not match_rows(G, E, lambda g, e: all(close(g[j], e[j], 1e-9, 1e-15) for j in cols)):
            show = lambda M: sorted(tuple(m[j] for j in cols) for m in M)  # noqa: E731
            return (f"extraction-rows: ({', '.join(names[j] for j in cols)}) handed over {show(G)}; the qualifying tracks "
                    f"of the group give {show(E)}")
    if (flag == "T") != removed:
        return f"extraction-zero-dwells-flag: removed_zeros={flag}, expected {removed}"
    return None


def oracle_extract_seq(case, ia):
    """every analysis of the sequence, judged on the tracks that were in the group object when it was made"""
    flags = seq_flags(case)
    if len(ia) != len(flags) or any(split_state(a)[0] is None for a in ia):
        return f"extraction: a valid track group could not be built: {ia[0][:80]}"
    for j, (a, (excl, obsmin)) in enumerate(zip(ia, flags)):
        st, payload = split_state(a)
        tracks = parse_state(st)
        if not state_known(tracks, obsmin):
            continue  # the harness could not read the group's tracks: this analysis is not judged
        sub = {k: v for k, v in case.items() if k != "steps"}
        sub.update(tracks=tracks, excl=excl, obsmin=obsmin)
        msg = oracle_extract(sub, [payload], ordered=False)
        if msg:
            when = ("for the freshly built group" if j == 0 else
                    f"after step {j} of {len(case['steps'])} on the same group object ({describe_step(case['steps'][j - 1])})")
            head, _, rest = msg.partition(":")
            return (f"{head}:{rest} -- {when}, exclude_ambiguous_dwells={excl}, observed_minimum={obsmin}; the group "
                    f"holds {len(tracks)} track(s) at that moment")
    return None


def oracle_validate(case, ia):
    n = len(case["t"])
    bad = False
    for key in ("tmin", "tmax"):
        if isinstance(case[key], list) and len(case[key]) != n:
            bad = True
    st = case["step"]
    if not bad and st is not None:
        sv = [to_f(x) for x in st] if isinstance(st, list) else [to_f(st)]
        if not all(x > 0 for x in sv) or (isinstance(st, list) and len(st) != n):
            bad = True
        else:
            if any(s > (1.0 + 1e-6) * m for s, m in zip(arr(st, n), arr(case["tmin"], n))):
                bad = True
    if not bad:
        t, lo, hi = np.array(case["t"], dtype=float), arr(case["tmin"], n), arr(case["tmax"], n)
        with np.errstate(all="ignore"):
            if np.any(t < lo - 1e-6 * lo) or np.any(t > hi + 1e-6 * hi):
                bad = True
    exp = "ValueError" if bad else "ok"
    return None if ia[0] == exp else f"argument-validation: expected {exp}, constructor said {ia[0]}"


def nontrivial(case, ia):
    k = case["op"]
    if k == "lik":
        return len(case["amps"]) >= 2 or case["step"] is not None or case["tmax"] != "inf"
    if k == "likwin":
        return window_depth(case) > 745.0
    if k == "fbt":
        return case["om"] is None or case["disc"] is None or case["n"] not in (1, 2) or not case["tracks"]
    if k == "assemble":
        return not ia[0].endswith("Error") and (case["mask"] is not None and any(case["mask"]) or case["n"] >= 2)
    if k == "fit":
        return " " in ia[0]
    if k == "constraint":
        return ia[0].endswith("Error") or (case["mask"] is not None and any(case["mask"]))
    if k == "extract" and "steps" in case:
        # some edit changed which tracks are in the group, and some analysis after an edit handed rows over
        states = [split_state(a)[0] for a in ia]
        after = [split_state(a)[1] for a in ia[1:]]
        return len(set(states)) > 1 and any(not p.endswith("Error") and parse_rows(p)[0] for p in after)
    if k == "extract":
        if ia[0].endswith("Error"):
            return True
        R, _ = parse_rows(ia[0])
        return 0 < len(R) < len(case["tracks"])
    if k == "validate":
        return ia[0] != "ok"
    return False


def tags(case, r):
    t = {"op": case["op"]}
    if case["op"] in ("lik", "fit", "likwin"):
        t["discrete"] = case["step"] is not None
        t["ncomp"] = len(case["amps"]) if case["op"] != "fit" else case["ncomp"]
    if case["op"] == "fit":
        t["window_underflow_within_bounds"] = underflow_within_bounds(case)
        first = r["impl"][0].split(" ")[0]
        t["reported_loglik_finite"] = first.startswith("b") and math.isfinite(dec_float(first))
        toks = r["impl"][0].split(" ")
        unsuccessful = len(toks) > 3 and toks[3].startswith("slsqp-status")
        t["amplitude_sum_off_after_unsuccessful_slsqp_exit"] = bool(unsuccessful and str(r.get("clause") or "").startswith("amplitudes-sum-to-one"))
    if case["op"] == "extract":
        t["via"] = case["via"]
        t["excl"] = case["excl"]
        t["same_group_object_edited"] = "steps" in case
        if "groups" in case:
            t["explicit_groups"] = True
    return t


def shrink(case):
    k = case["op"]
    if k in ("lik", "likwin", "validate", "assemble") and len(case["t"]) > 1:
        n = len(case["t"])
        for keep in (slice(0, n // 2), slice(n // 2, n), slice(0, n - 1), slice(1, n)):
            c = dict(case)
            for key in ("t", "tmin", "tmax", "step"):
                if isinstance(case[key], list) and len(case[key]) == n:
                    c[key] = case[key][keep]
            if len(c["t"]) >= 1:
                yield c
    if k in ("lik", "likwin") and len(case["amps"]) > 1:
        for drop in range(len(case["amps"])):
            c = dict(case)
            a = [x for i, x in enumerate(case["amps"]) if i != drop]
            s = sum(a)
            c["amps"] = [x / s for x in a]
            c["taus"] = [x for i, x in enumerate(case["taus"]) if i != drop]
            c["perm"] = list(reversed(range(len(a))))
            yield c
    if k == "extract" and "steps" in case:
        steps = case["steps"]
        for i in range(len(steps)):  # fewer edits (the first analysis and one edit are kept)
            if len(steps) > 1:
                c = dict(case)
                c["steps"] = steps[:i] + steps[i + 1:]
                yield c
        for i, st in enumerate(steps):  # the analysis after an edit with the flags of the first one
            if "excl" in st or "obsmin" in st:
                c = dict(case)
                c["steps"] = [dict(x) for x in steps]
                c["steps"][i].pop("excl", None)
                c["steps"][i].pop("obsmin", None)
                yield c
            if len(st.get("tracks", [])) > 1:
                for j in range(len(st["tracks"])):
                    c = dict(case)
                    c["steps"] = [dict(x) for x in steps]
                    c["steps"][i]["tracks"] = st["tracks"][:j] + st["tracks"][j + 1:]
                    yield c
    if k == "extract" and "groups" in case:
        for j in range(len(case["groups"])):  # fewer groups (their tracks stay in the case, handed to nobody)
            if len(case["groups"]) > 1:
                c = dict(case)
                c["groups"] = case["groups"][:j] + case["groups"][j + 1:]
                yield c
    if k in ("extract", "fbt"):
        for i in range(len(case["tracks"])):
            if len(case["tracks"]) > 1:
                c = dict(case)
                c["tracks"] = case["tracks"][:i] + case["tracks"][i + 1:]
                if "groups" in case:
                    c["groups"] = [[x - (x > i) for x in g if x != i] for g in case["groups"]]
                yield c
        for i, tr in enumerate(case["tracks"]):
            if len(tr["idx"]) > 2:
                c = dict(case)
                c["tracks"] = [dict(x) for x in case["tracks"]]
                c["tracks"][i]["idx"] = [tr["idx"][0], tr["idx"][-1]]
                yield c
    if k == "constraint" and case["mask"] is not None:
        c = dict(case)
        c["mask"] = None
        yield c


# ------------------------------------------------------------------ generators


def simplex(rng, n):
    if n == 1:
        return [1.0]
    while True:
        w = [-math.log(max(rng.random(), 1e-12)) for _ in range(n)]
        s = sum(w)
        a = [x / s for x in w]
        if rng.chance(0.15):  # one small component
            a[rng.randint(0, n - 1)] = rng.loguniform(1e-3, 2e-2)
            s = sum(a)
            a = [x / s for x in a]
        if min(a) >= 1e-3:
            return a


AMP_LO, AMP_HI = 1e-9, 1.0 - 1e-9  # the amplitude interval the optimiser searches (_exponential_mle_bounds)


def rare_amplitude(rng):
    """the amplitude of a rare population: anywhere between the optimiser's lower bound and 1e-3, biased to the bound
    itself, just inside it, and powers of ten"""
    c = rng.randint(0, 9)
    if c == 0:
        return AMP_LO
    if c == 1:
        return AMP_LO * rng.choice([1.0 + 1e-6, 2.0, 10.0])
    if c == 2:
        return 10.0 ** -rng.randint(4, 8)
    return rng.loguniform(AMP_LO, 1e-3)


def simplex_wide(rng, n):
    """amplitudes on the simplex over the whole interval the optimiser searches: well populated mixtures (as
    `simplex`) and, in about four of ten cases, one up to n-1 rare components (rare population, superfluous component
    of an over-specified model pushed towards its bound) sharing the simplex with the populated rest"""
    a = simplex(rng, n)
    if n == 1 or not rng.chance(0.4):
        return a
    rare = rng.sample(range(n), rng.choice([1] * 3 + list(range(1, n))))
    small = {j: rare_amplitude(rng) for j in rare}
    rest = sum(a[j] for j in range(n) if j not in small)
    left = 1.0 - sum(small.values())
    return [small[j] if j in small else min(AMP_HI, a[j] / rest * left) for j in range(n)]


def gen_params(rng, n, wide=False):
    base = rng.loguniform(1e-2, 1e1)
    taus = [base] + [base * rng.loguniform(1.5, 1e3) for _ in range(n - 1)]
    rng.shuffle(taus)
    return (simplex_wide(rng, n) if wide else simplex(rng, n)), taus


def gen_window(rng, taus, discrete):
    """(tmin, tmax, step); tmax = tmin + K*step exactly (same double on both sides) for the discretised model"""
    tau_min, tau_max = min(taus), max(taus)
    if discrete:
        step = rng.choice([0.25, 0.5, 0.125, tau_min * rng.loguniform(0.05, 2.0), tau_max * rng.loguniform(0.01, 0.5)])
        step = min(step, 30.0 * tau_min)
        m = rng.choice([1, 1, 2, 3, rng.randint(1, 8)])
        tmin = m * step
        if tmin > 50.0 * tau_min:
            tmin = step
        if rng.chance(0.3):
            return tmin, math.inf, step
        lo_k = max(1, int(math.ceil(0.05 * tau_max / step)))
        K = rng.choice([lo_k, lo_k + 1, rng.randint(lo_k, lo_k + 50), min(50000, max(lo_k, int(rng.loguniform(1, 100) * tau_max / step)))])
        return tmin, tmin + float(K) * step, step
    tmin = rng.choice([0.0, 0.0, tau_min * rng.loguniform(0.01, 5.0), tau_min * rng.uniform(5.0, 50.0)])
    if rng.chance(0.3):
        return tmin, math.inf, None
    width = tau_max * rng.choice([rng.uniform(0.05, 0.5), rng.loguniform(0.5, 5.0), rng.loguniform(5.0, 100.0)])
    return tmin, tmin + width, None


def sample_dwell(rng, amps, taus, tmin, tmax, step):
    """one dwell time of the (discretised) mixture inside the window, by rejection; falls back to a grid point"""
    for _ in range(200):
        u, acc, i = rng.random(), 0.0, 0
        for i, a in enumerate(amps):
            acc += a
            if u <= acc:
                break
        x = -taus[i] * math.log(max(rng.random(), 1e-300))
        if step is not None:
            k = math.floor((x - tmin) / step + 0.5)
            if k < 0:
                continue
            x = tmin + float(k) * step
        if tmin <= x <= tmax and (step is not None or x > tmin):
            return x
    if step is not None:
        kmax = 20 if not math.isfinite(tmax) else int(round((tmax - tmin) / step))
        return tmin + float(rng.randint(0, max(0, min(kmax, 20)))) * step
    hi = tmax if math.isfinite(tmax) else tmin + 3 * max(taus)
    return tmin + (hi - tmin) * rng.uniform(0.01, 0.99)


def gen_obs(rng, amps, taus, discrete, n, per_obs, one_scale=False):
    if not per_obs:
        tmin, tmax, step = gen_window(rng, taus, discrete)
        t = [sample_dwell(rng, amps, taus, tmin, tmax, step) for _ in range(n)]
        return t, tmin, ("inf" if tmax == math.inf else tmax), step
    classes = [gen_window(rng, taus, discrete) for _ in range(rng.randint(2, 3))]
    if one_scale:
        # kymographs whose line times differ by less than a factor 8 (see finding F13 for what happens beyond ~75)
        tmin0, _, step0 = classes[0]
        for j in range(1, len(classes)):
            f = rng.choice([0.5, 2.0, 4.0, 0.25, 1.0])
            _, tmax_j, _ = classes[j]
            width = (tmax_j - classes[j][0]) if math.isfinite(tmax_j) else math.inf
            if discrete:
                st = step0 * f
                lo = tmin0 * f
                hi = lo + float(max(1, int(round(width / st)))) * st if math.isfinite(width) else math.inf
                classes[j] = (lo, hi, st)
            else:
                classes[j] = (tmin0 * f, tmin0 * f + width, None)
    t, lo, hi, st = [], [], [], []
    for _ in range(n):
        tmin, tmax, step = rng.choice(classes)
        t.append(sample_dwell(rng, amps, taus, tmin, tmax, step))
        lo.append(tmin)
        hi.append("inf" if tmax == math.inf else tmax)
        st.append(step)
    return t, lo, hi, (st if discrete else None)


def gen_size(rng, tier):
    c = rng.randint(0, 9)
    if c <= 4:
        return rng.randint(1, 30)
    if c <= 7:
        return rng.randint(20, 200)
    return rng.randint(200, 2000 if tier == "thorough" else 600)


def gen_lik(rng, tier, i):
    n = rng.choice([1, 2, 2, 3, 3])
    amps, taus = gen_params(rng, n, wide=True)
    discrete = rng.chance(0.5)
    t, tmin, tmax, step = gen_obs(rng, amps, taus, discrete, gen_size(rng, tier), rng.chance(0.4))
    for j, a in enumerate(amps):
        # a rare population that is nevertheless seen: one dwell time drawn from that component alone, inside the
        # window of the observation it replaces (otherwise a sample of <= 2000 never contains one)
        if a < 1e-3 and rng.chance(0.5):
            i = rng.randint(0, len(t) - 1)
            lim = [(v[i] if isinstance(v, list) else v) for v in (tmin, tmax, step)]
            t[i] = sample_dwell(rng, [1.0], [taus[j]], to_f(lim[0]), to_f(lim[1]), lim[2])
    perm = list(range(n))
    if n > 1:
        while perm == list(range(n)):
            rng.shuffle(perm)
    return {"stream": "random-lik", "op": "lik", "amps": amps, "taus": taus, "t": t, "tmin": tmin, "tmax": tmax,
            "step": step, "perm": perm, "subseed": i}


def gen_fit(rng, tier, i):
    n = rng.choice([1, 1, 2, 2, 3])
    base = rng.loguniform(1e-1, 1e1)
    taus = sorted([base * (10.0 ** (j * rng.uniform(0.7, 1.5))) for j in range(n)])
    amps = simplex(rng, n)
    discrete = rng.chance(0.4)
    if n == 1 and rng.chance(0.5):
        discrete = False
    size = rng.choice([20, rng.randint(20, 100), rng.randint(100, 500), rng.randint(500, 2000)])
    per_obs = rng.chance(0.3)
    t, tmin, tmax, step = gen_obs(rng, amps, taus, discrete, size, per_obs, one_scale=not rng.chance(0.05))
    if n == 1 and not discrete and not per_obs and rng.chance(0.6):
        tmax = "inf"  # the closed-form case
    return {"stream": "random-fit", "op": "fit", "ncomp": n, "gen_amps": amps, "gen_taus": taus, "t": t, "tmin": tmin,
            "tmax": tmax, "step": step, "subseed": i}


def small_scope_fits():
    """every combination of {1, 2 components} x {continuous, discretised} x {scalar limits, two windows} x {tmax finite,
    inf} on deterministic data (quantiles of the components inside each window): the ops that only fits reach (bounds,
    pdfpool, quadpool, the closed form, the gradients handed to SLSQP) are run on all of them in every run"""
    qs = [(k + 0.5) / 12.0 for k in range(12)]
    for n in (1, 2):
        amps, taus = ([1.0], [1.5]) if n == 1 else ([0.4, 0.6], [0.6, 4.0])
        for step in (None, 0.25):
            for windows in ([(0.5, 12.5)], [(0.5, 12.5), (1.0, 21.0)]):
                for unbounded in (False, True):
                    t, lo, hi, st = [], [], [], []
                    for (a, b) in windows:
                        b_ = math.inf if unbounded else b
                        for tau in taus:
                            for q in qs:
                                x = a - tau * math.log(1.0 - q)
                                if step is not None:
                                    x = a + float(math.floor((x - a) / step + 0.5)) * step
                                if x <= b_ and (step is not None or x > a):
                                    t.append(x)
                                    lo.append(a)
                                    hi.append("inf" if unbounded else b)
                                    st.append(step)
                    scalar = len(windows) == 1
                    yield {"stream": "small-scope", "op": "fit", "ncomp": n, "gen_amps": amps, "gen_taus": taus, "t": t,
                           "tmin": lo[0] if scalar else lo, "tmax": hi[0] if scalar else hi,
                           "step": None if step is None else (step if scalar else st)}


def gen_likwin(rng, i):
    """parameters inside the lifetime search bounds at which the window probability of some observation is below the range
    of doubles: observation limits of two kymographs whose minimum observable times differ by a factor 160-2000 (what
    finding F13 was about), the shortest lifetime between 1/5000 and 1/750 of the larger minimum (and never below the
    optimiser's lower bound 0.1 * min(tmin))"""
    n = rng.choice([1, 2, 2, 3])
    amps = simplex(rng, n)
    discrete = rng.chance(0.5)
    lo1 = rng.choice([0.01, 0.05, 0.1, rng.loguniform(0.005, 0.5)])
    ratio = rng.choice([160.0, 200.0, 750.0, rng.loguniform(160.0, 2000.0)])
    lo2 = lo1 * ratio
    per_line = rng.choice([2, 2, 4, 3]) if discrete else 1  # minimum observable time in line times (discretised model)
    depth = rng.choice([746.0, 800.0, 1500.0, rng.uniform(750.0, 5000.0)])
    depth = min(depth, 5.0 * ratio)  # tau_min >= 0.1 * lo1: inside _exponential_mle_bounds
    tau_min = (lo2 - lo2 / per_line if discrete else lo2) / depth
    taus = [tau_min] + [tau_min * rng.choice([3.0, 10.0, 30.0, rng.loguniform(1.5, 100.0)]) for _ in range(n - 1)]
    rng.shuffle(taus)
    classes = []
    for lo in (lo1, lo2):
        st = lo / per_line if discrete else None
        if rng.chance(0.3):
            hi = math.inf
        elif discrete:
            hi = lo + float(rng.choice([1, 2, 5, rng.randint(1, 400)])) * st
        else:
            hi = lo + max(taus) * rng.choice([0.05, 0.5, 3.0, rng.loguniform(0.05, 50.0)])
        classes.append((lo, hi, st))
    t, lo_, hi_, st_ = [], [], [], []
    for j in range(rng.choice([2, 3, 8, rng.randint(2, 60)])):
        lo, hi, st = classes[j % 2]
        t.append(sample_dwell(rng, amps, taus, lo, hi, st))
        lo_.append(lo)
        hi_.append("inf" if hi == math.inf else hi)
        st_.append(st)
    perm = list(range(n))
    if n > 1:
        while perm == list(range(n)):
            rng.shuffle(perm)
    return {"stream": "random-likwin", "op": "likwin", "amps": amps, "taus": taus, "t": t, "tmin": lo_, "tmax": hi_,
            "step": (st_ if discrete else None), "perm": perm, "subseed": i}


def gen_assemble(rng, tier, i):
    """a fit with some parameters fixed: 1-3 components, amplitudes in 64ths (sums exact in doubles), every kind of mask
    (none, all fixed, one/several free amplitudes, fixed lifetimes), data of the usual kinds; `probe` is the answer the
    stand-in optimiser gives (amplitudes anywhere inside the bounds, not necessarily on the simplex)"""
    n = rng.choice([1, 2, 2, 3, 3])
    pa, pt = gen_params(rng, n)
    discrete = rng.chance(0.5)
    size = rng.choice([1, 2, 5, rng.randint(1, 40), rng.randint(20, 200)])
    t, tmin, tmax, step = gen_obs(rng, pa, pt, discrete, size, rng.chance(0.4), one_scale=True)
    cuts = sorted(rng.randint(0, 64) for _ in range(n - 1))
    ks = [b - a for a, b in zip([0] + cuts, cuts + [64])]
    if rng.chance(0.15):
        ks[rng.randint(0, n - 1)] += rng.choice([1, -1, 8, 64])  # does not sum to one: matters when <= 1 amplitude is free
    amps = [Fraction(max(k, 1), 64) for k in ks]  # admissible: every amplitude positive
    taus = [Fraction(x * rng.choice([0.5, 1.0, 1.0, 2.0, 1.25])) for x in pt]
    mask = None if rng.chance(0.15) else [rng.chance(0.45) for _ in range(2 * n)]
    if mask is not None and rng.chance(0.15):
        mask = [True] * n + mask[n:]
    if mask is not None and sum(1 for f in mask[:n] if not f) == 1 and sum(a for a, f in zip(amps, mask[:n]) if f) == 1:
        # the single free amplitude would be determined as 0: outside the admissible family (log-likelihood of a
        # component with amplitude 0); free a second amplitude instead
        mask[[i for i in range(n) if mask[i]][0]] = False
    case = {"stream": "random-assemble", "op": "assemble", "n": n, "params": [str(p) for p in amps + taus], "mask": mask,
            "t": t, "tmin": tmin, "tmax": tmax, "step": step, "subseed": i}
    if rng.chance(0.25):
        case["params"] = None  # initial_guess=None: the default guess (always a valid amplitude specification)
    qa = simplex(rng, n) if rng.chance(0.5) else [rng.loguniform(1e-3, 0.9) for _ in range(n)]
    full = qa + [x * rng.loguniform(0.5, 2.0) for x in pt]
    case["probe"] = [v for v, f in zip(full, assemble_fitted(case)) if f]
    return case


def gen_constraint(rng, i):
    n = rng.randint(1, 4)
    q = rng.choice([4, 8, 10, 1000])
    amps = [Fraction(rng.randint(0, q), q) for _ in range(n)]
    if rng.chance(0.5):  # make them sum to one
        s = sum(amps[:-1])
        amps[-1] = 1 - s if s <= 1 else Fraction(0)
    taus = [Fraction(rng.randint(1, 50), 4) for _ in range(n)]
    params = amps + taus
    mask = None if rng.chance(0.2) else [rng.chance(0.45) for _ in range(2 * n)]
    if rng.chance(0.08):
        if mask is not None and rng.chance(0.5):
            mask = mask[:-1] if rng.chance(0.5) else mask + [True]
        elif len(params) > 2:
            params = params[:-1] if rng.chance(0.5) else params + [Fraction(1)]
    x = [Fraction(rng.randint(0, 8), 8) for _ in range(2 * n + 1)]
    if mask is not None and len(mask) == len(params) == 2 * n:
        # the code decides `sum_fixed > 1` on a double: keep a margin from the tie (0.2+0.4+0.3+0.1 > 1 in doubles)
        exact = sum(a for a, f in zip(params[:n], mask[:n]) if f)
        approx = float(np.sum(np.array([float(p) for p in params])[np.array(mask) & (np.arange(2 * n) < n)]))
        if (exact > 1) != (approx > 1) or (exact == 1) != (approx == 1.0):
            _DROPPED["constraint-float-tie"] = _DROPPED.get("constraint-float-tie", 0) + 1
            params = [Fraction(round(float(p) * 8), 8) if i < n else p for i, p in enumerate(params)]
    return {"stream": "random-constraint", "op": "constraint", "n": n, "params": [str(p) for p in params], "mask": mask,
            "x": [str(v) for v in x], "subseed": i}


def gen_extract(rng, i, via=None):
    nk = rng.randint(1, 3)
    kymos = [{"n_lines": rng.choice([2, 3, 5, rng.randint(4, 60)]), "line_time": rng.choice([0.25, 0.5, 0.1, 0.03, rng.uniform(0.01, 2.0)])}
             for _ in range(nk)]
    via = via or ("fit" if rng.chance(0.25) else "private")
    tracks = []
    for _ in range(rng.randint(1, 12)):
        kid = rng.randint(0, nk - 1)
        nl = kymos[kid]["n_lines"]
        c = rng.randint(0, 9)
        if c <= 1:
            first = 0
        elif c == 2:
            first = min(1, nl - 1)
        else:
            first = rng.randint(0, nl - 1)
        c = rng.randint(0, 9)
        if c <= 1:
            last = nl - 1
        elif c == 2:
            last = max(first, nl - 2)
        elif c == 3:
            last = first
        else:
            last = rng.randint(first, nl - 1)
        idx = sorted({first, last} | {rng.randint(first, last) for _ in range(rng.randint(0, 4))})
        lt = kymos[kid]["line_time"]
        minobs = rng.choice([lt, lt, 2 * lt, 0.0])
        if via == "private" and rng.chance(0.04):
            minobs = None
        tracks.append({"kymo": kid, "idx": idx, "minobs": minobs})
    if via == "private" and rng.chance(0.02):
        tracks[rng.randint(0, len(tracks) - 1)]["idx"] = []
    case = {"stream": "random-extract", "op": "extract", "kymos": kymos, "tracks": tracks, "excl": rng.chance(0.6),
            "obsmin": rng.chance(0.3), "via": via, "subseed": i}
    if via == "fit":
        case["discrete"] = rng.chance(0.5)
        for tr in tracks:  # keep the data inside its window so that the fit itself has nothing to refuse
            lt = kymos[tr["kymo"]]["line_time"]
            tr["minobs"] = lt
    return case


def set_partitions(items):
    """every partition of a list into non-empty blocks (order of first elements)"""
    if not items:
        yield []
        return
    head, rest = items[0], items[1:]
    for part in set_partitions(rest):
        yield [[head]] + part
        for j in range(len(part)):
            yield part[:j] + [[head] + part[j]] + part[j + 1:]


def gen_extract_groups(rng, i):
    """the anchored extraction function handed explicit groups (see analyse_groups): the per-kymograph split with its
    groups reordered and empty groups in between, a kymograph's tracks spread over several groups, two or more
    kymographs thrown together in one group, or any partition of the tracks"""
    case = gen_extract(rng.fork("tracks"), i, via="private")
    tracks = case["tracks"]
    kids = sorted({tr["kymo"] for tr in tracks})
    by_kymo = [[j for j, tr in enumerate(tracks) if tr["kymo"] == k] for k in kids]
    mode = rng.randint(0, 9)
    if mode <= 1:
        groups = by_kymo
    elif mode <= 4:  # a kymograph's tracks spread over several groups
        groups = []
        for g in by_kymo:
            cut = rng.randint(0, len(g))
            groups += [g[:cut], g[cut:]] if rng.chance(0.7) else [g]
    elif mode <= 7 and len(kids) >= 2:  # one group over two (or all) kymographs, the others as they are
        a, b = rng.sample(range(len(kids)), 2)
        if len(kids) > 2 and rng.chance(0.3):
            groups = [sorted(sum(by_kymo, []))]
        else:
            groups = [sorted(by_kymo[a] + by_kymo[b])] + [g for j, g in enumerate(by_kymo) if j not in (a, b)]
    else:  # any partition
        groups = [[] for _ in range(rng.randint(1, 4))]
        for j in range(len(tracks)):
            groups[rng.randint(0, len(groups) - 1)].append(j)
    for _ in range(rng.randint(0, 2)):  # order of the groups; empty groups
        groups.insert(rng.randint(0, len(groups)), [])
    if rng.chance(0.5):
        groups = groups[::-1]
    case.update(stream="random-extract-groups", groups=groups)
    return case


def small_scope_groups():
    """four tracks over two kymographs (one in the first scan line, one of a single scan line): every partition into
    groups, as it is and reversed with an empty group in front, all four flag combinations"""
    kymos = [{"n_lines": 4, "line_time": 0.25}, {"n_lines": 3, "line_time": 0.5}]
    tracks = [{"kymo": 0, "idx": [1, 2], "minobs": 0.25}, {"kymo": 0, "idx": [0, 1, 2], "minobs": 0.5},
              {"kymo": 1, "idx": [1, 1], "minobs": 0.5}, {"kymo": 1, "idx": [0, 1], "minobs": 0.5}]
    for part in set_partitions([0, 1, 2, 3]):
        for groups in (part, [[]] + part[::-1]):
            for excl in (False, True):
                for obsmin in (False, True):
                    yield {"stream": "small-scope", "op": "extract", "kymos": kymos, "tracks": tracks, "excl": excl,
                           "obsmin": obsmin, "via": "private", "groups": groups}


LANES = [0.5, 1.5, 2.5, 3.5]  # pixel rows of the 4-pixel kymographs built here (position units: pixels)


def gen_seq_track(rng, kymos, kid, via):
    """one track, boundary-biased: first/last scan line, single point, short"""
    nl, lt = kymos[kid]["n_lines"], kymos[kid]["line_time"]
    c = rng.randint(0, 9)
    first = 0 if c <= 1 else (min(1, nl - 1) if c == 2 else rng.randint(0, nl - 1))
    c = rng.randint(0, 9)
    if c <= 1:
        last = nl - 1
    elif c == 2:
        last = max(first, nl - 2)
    elif c == 3:
        last = first
    elif c <= 6:
        last = min(nl - 1, first + rng.randint(1, 4))
    else:
        last = rng.randint(first, nl - 1)
    idx = sorted({first, last} | {rng.randint(first, last) for _ in range(rng.randint(0, 5))})
    if via == "fit":
        minobs = lt  # keeps every dwell time inside its window: the fit itself has nothing to refuse
    else:
        minobs = None if rng.chance(0.03) else rng.choice([lt, lt, 2 * lt, 0.0])
    return {"kymo": kid, "idx": idx, "minobs": minobs, "pos": rng.choice(LANES)}


def gen_step(rng, kymos, n_used, via):
    lt = kymos[rng.randint(0, n_used - 1)]["line_time"]
    c = rng.randint(0, 99)

    def length_and_duration():
        ml = rng.choice([1, 2, 2, 3, 3, 4, rng.randint(2, 6)])
        md = rng.choice([0, 0, 0, lt, 2 * lt, 3 * lt, lt * rng.uniform(0.2, 4.5)])
        if ml == 1 and md == 0:
            ml = 2
        return ml, md

    def new_tracks():
        pool = len(kymos) if rng.chance(0.4) else n_used  # also tracks of a kymograph not in the group so far
        return [gen_seq_track(rng, kymos, rng.randint(0, pool - 1), via) for _ in range(rng.choice([1, 1, 2, 3]))]

    if c < 30:
        ml, md = length_and_duration()
        st = {"do": "filter", "minimum_length": ml, "minimum_duration": md}
    elif c < 50:
        lane = rng.choice(LANES)
        width = rng.choice([0.5, 0.5, 1.5])
        span = max(k["n_lines"] * k["line_time"] for k in kymos)
        t0, t1 = rng.choice([(0.0, 2.0 * span), (0.0, span * rng.uniform(0.1, 0.9)), (span * rng.uniform(0.1, 0.6), 2.0 * span),
                             tuple(sorted([span * rng.random(), span * rng.random()]))])
        rect = [[t0, lane - width], [t1, lane + width]]
        if rng.chance(0.2):  # corners given the other way round
            rect = [[t1, lane + width], [t0, lane - width]]
        st = {"do": "rect", "rect": rect, "all_points": rng.chance(0.3)}
    elif c < 63:
        st = {"do": "remove", "index": rng.randint(0, 11)}
    elif c < 76:
        st = {"do": "extend", "tracks": new_tracks(), "as": rng.choice(["track", "group"])}
    elif c < 80:
        st = {"do": "again"}
    elif c < 84:
        st = {"do": "split", "index": rng.randint(0, 11), "node": rng.randint(0, 5), "min_length": rng.choice([1, 1, 2, 3])}
    elif c < 88:
        st = {"do": "merge", "index": rng.randint(0, 11), "index2": rng.randint(0, 11), "node": rng.randint(0, 5),
              "node2": rng.randint(0, 5)}
    elif c < 96:
        how = rng.choice(["copy", "slice", "pick", "add", "filter_tracks"])
        st = {"do": "derive", "how": how, "keep": rng.choice(["derived", "original"])}
        if how == "slice":
            st["start"], st["stop"] = rng.choice([(None, -1), (1, None), (None, rng.randint(1, 6)), (rng.randint(0, 3), rng.randint(2, 8))])
        elif how == "pick":
            st["indices"] = [rng.randint(0, 11) for _ in range(rng.randint(1, 5))]
        elif how == "add":
            st["tracks"] = new_tracks()
        elif how == "filter_tracks":
            st["minimum_length"], st["minimum_duration"] = length_and_duration()
    else:
        st = {"do": "swap"}
    if rng.chance(0.3):  # the analysis after this edit asks for something else than the one before
        st["excl"] = rng.chance(0.5)
        if rng.chance(0.5):
            st["obsmin"] = rng.chance(0.4)
    return st


def gen_extract_seq(rng, i):
    """a group object that is analysed, edited (one to five times) and analysed again after every edit"""
    n_used = rng.choice([1, 1, 2, 2, 3])
    n_all = n_used + (1 if rng.chance(0.35) else 0)
    kymos = [{"n_lines": rng.choice([3, 5, 8, rng.randint(4, 40)]), "line_time": rng.choice([0.25, 0.5, 0.1, 0.03, rng.uniform(0.01, 2.0)])}
             for _ in range(n_all)]
    via = "fit" if rng.chance(0.25) else "private"
    tracks = [gen_seq_track(rng, kymos, rng.randint(0, n_used - 1), via) for _ in range(rng.randint(2, 10))]
    steps = [gen_step(rng, kymos, n_used, via) for _ in range(rng.choice([1, 1, 2, 2, 3, 4, 5]))]
    case = {"stream": "random-extract-seq", "op": "extract", "kymos": kymos, "tracks": tracks, "excl": rng.chance(0.6),
            "obsmin": rng.chance(0.25), "via": via, "steps": steps, "subseed": i}
    if via == "fit":
        case["discrete"] = rng.chance(0.5)
    return case


def small_scope_seq(quick):
    """every sequence of at most two edits from a small alphabet on one group over two small kymographs, analysed with
    ambiguous dwells kept and excluded"""
    kymos = [{"n_lines": 5, "line_time": 0.25}, {"n_lines": 3, "line_time": 0.5}]
    tracks = [
        {"kymo": 0, "idx": [0, 1, 2], "minobs": 0.25, "pos": 0.5},  # starts in the first scan line
        {"kymo": 0, "idx": [1, 2], "minobs": 0.25, "pos": 1.5},
        {"kymo": 0, "idx": [1, 2, 3], "minobs": 0.25, "pos": 2.5},
        {"kymo": 0, "idx": [2, 3, 4], "minobs": 0.25, "pos": 1.5},  # ends in the last scan line
        {"kymo": 1, "idx": [1], "minobs": 0.5, "pos": 2.5},  # seen in one line only
    ]
    extra0 = {"kymo": 0, "idx": [1, 3], "minobs": 0.25, "pos": 3.5}
    extra1 = {"kymo": 1, "idx": [0, 1], "minobs": 0.5, "pos": 3.5}
    alphabet = [
        {"do": "filter", "minimum_length": 3, "minimum_duration": 0},
        {"do": "filter", "minimum_length": 1, "minimum_duration": 0.5},
        {"do": "rect", "rect": [[0.0, 1.0], [10.0, 2.0]], "all_points": False},
        {"do": "rect", "rect": [[0.2, 0.0], [0.8, 4.0]], "all_points": True},
        {"do": "remove", "index": 2},
        {"do": "extend", "tracks": [extra0], "as": "track"},
        {"do": "extend", "tracks": [extra1], "as": "group"},
        {"do": "derive", "how": "copy", "keep": "original"},
        {"do": "swap"},
        {"do": "again"},
    ]
    seqs = [[a] for a in alphabet] + [[a, b] for a in alphabet for b in alphabet]
    for seq in seqs:
        for excl in (False, True):
            if quick and len(seq) == 2 and excl is False and seq[0]["do"] in ("again", "swap"):
                continue
            yield {"stream": "small-scope", "op": "extract", "kymos": kymos, "tracks": tracks, "excl": excl, "obsmin": False,
                   "via": "private", "steps": [dict(s) for s in seq]}
    for seq in ([alphabet[0]], [alphabet[2]], [alphabet[4], alphabet[5]]):
        for discrete in (False, True):
            fit_tracks = [dict(t) for t in tracks]
            yield {"stream": "small-scope", "op": "extract", "kymos": kymos, "tracks": fit_tracks, "excl": True, "obsmin": False,
                   "via": "fit", "discrete": discrete, "steps": [dict(s) for s in seq]}


def gen_validate(rng, i):
    n = rng.randint(2, 12)
    tmin = rng.choice([0.2, 0.5, 1.0])
    tmax = rng.choice([5.0, 20.0, "inf"])
    step = rng.choice([None, 0.1, 0.2])
    hi = 5.0 if tmax == "inf" else tmax
    t = [rng.uniform(tmin, hi) for _ in range(n)]
    case = {"stream": "malformed", "op": "validate", "t": t, "tmin": tmin, "tmax": tmax, "step": step, "subseed": i}
    m = rng.randint(0, 9)
    if m == 0:
        case["tmin"] = [tmin] * (n + rng.choice([-1, 1]))
    elif m == 1:
        case["tmax"] = [hi] * (n + rng.choice([-1, 1]))
    elif m == 2:
        case["step"] = rng.choice([0.0, -0.1])
    elif m == 3:
        case["step"] = [0.1] * (n - 1)
    elif m == 4:
        case["step"] = tmin * rng.choice([1.5, 1.0 + 1e-5, 1.0 + 1e-7, 1.0])
    elif m == 5:
        t[rng.randint(0, n - 1)] = tmin * rng.choice([0.5, 1 - 1e-5, 1 - 1e-7])
    elif m == 6 and tmax != "inf":
        t[rng.randint(0, n - 1)] = tmax * rng.choice([1.5, 1 + 1e-5, 1 + 1e-7])
    elif m == 7:
        case["tmin"] = [tmin] * n
        case["tmax"] = [hi] * n
        if step is not None:
            case["step"] = [step] * (n - 1) + [rng.choice([step, 0.0, tmin * 2])]
    elif m == 8:
        case["step"] = [0.1] * n
        case["tmin"] = [tmin] * (n - 1) + [rng.choice([0.05, tmin])]
        t[-1] = max(t[-1], 0.2)
    return case


EDGE_K = [0.5, 0.9, 1.1, 2.0, 10.0]  # distance from a window edge in units of the relative tolerance 1e-6 (tie at 1.0)


def validate_edge_case(tmin, tmax, side, k, per_obs, inside, stream):
    """dwell times inside the window and one that lies k * 1e-6 (relative) outside one of its edges"""
    edge = tmin * (1.0 - k * 1e-6) if side == "lo" else tmax * (1.0 + k * 1e-6)
    t = list(inside) + [edge]
    n = len(t)
    return {"stream": stream, "op": "validate", "t": t, "tmin": [tmin] * n if per_obs else tmin,
            "tmax": [tmax] * n if per_obs else tmax, "step": None}


def small_scope_validate_edges():
    """the relative tolerance of the window check, at both edges of windows over six decades (where a relative and an
    absolute slack of 1e-6 are far apart), scalar and per-observation limits"""
    for tmin, tmax in ((0.002, 0.05), (0.2, 5.0), (1.0, 400.0), (30.0, 1.0e4)):
        inside = [tmin + 0.25 * (tmax - tmin), tmin + 0.5 * (tmax - tmin)]
        for side in ("lo", "hi"):
            for k in EDGE_K:
                for per_obs in (False, True):
                    yield validate_edge_case(tmin, tmax, side, k, per_obs, inside, "small-scope")


def gen_validate_edge(rng, i):
    tmin = rng.loguniform(1e-3, 50.0)
    tmax = tmin * rng.loguniform(3.0, 1e3)
    inside = [rng.uniform(tmin, tmax) for _ in range(rng.randint(1, 7))]
    case = validate_edge_case(tmin, tmax, rng.choice(["lo", "hi"]), rng.choice(EDGE_K), rng.chance(0.5), inside, "malformed")
    case["subseed"] = i
    return case


def corpus_cases():
    import glob
    import json
    import os

    d = os.path.join(os.path.dirname(os.path.dirname(os.path.abspath(__file__))), "corpus", PROP)
    for p in sorted(glob.glob(os.path.join(d, "*.json"))):
        c = json.load(open(p))
        c = c.get("case", c)
        c["stream"] = "corpus"
        yield c


def cases(tier, rng):
    quick = tier == "quick"
    yield from corpus_cases()

    # ---- small scope: likelihood on a parameter grid
    quarters = {1: [[1.0]], 2: [[0.25, 0.75], [0.5, 0.5]], 3: [[0.25, 0.25, 0.5], [0.5, 0.25, 0.25]]}
    # ... and with a rare component: on the optimiser's amplitude bounds (1e-9, 1 - 1e-9) and three decades apart above them
    quarters[2] += [[AMP_HI, AMP_LO], [1e-6, 1.0 - 1e-6], [1.0 - 1e-3, 1e-3]]
    quarters[3] += [[AMP_LO, 1.0 - 2e-9, AMP_LO], [0.5, 1e-6, 0.5 - 1e-6]]
    lifetimes = {1: [[0.1], [1.0], [10.0]], 2: [[0.1, 1.0], [10.0, 1.0], [0.1, 10.0]], 3: [[0.1, 1.0, 10.0], [10.0, 0.1, 1.0]]}
    windows = [(0.0, 2.0), (0.0, 50.0), (0.0, "inf"), (0.5, 2.0), (0.5, 50.0), (0.5, "inf")]
    for n in (1, 2, 3):
        for amps in quarters[n]:
            for taus in lifetimes[n]:
                for tmin, tmax in windows:
                    for step in (None, 0.25, 0.5):
                        if step is not None and tmin == 0.0:
                            tmin_, tmax_ = step, (tmax if tmax == "inf" else step + tmax)
                        else:
                            tmin_, tmax_ = tmin, tmax
                        hi = 4.0 if tmax_ == "inf" else tmax_
                        t = [tmin_ + (step or 0.3) * k for k in (0, 1, 2, 5)]
                        t = [x for x in t if x <= hi] + [hi]
                        if step is None:
                            t = [x + 1e-3 if x == tmin_ else x for x in t]
                        yield {"stream": "small-scope", "op": "lik", "amps": amps, "taus": taus, "t": t, "tmin": tmin_,
                               "tmax": tmax_, "step": step, "perm": list(reversed(range(n)))}
    # ---- small scope: amplitude constraint, every mask x every amplitude vector
    vals = [Fraction(0), Fraction(1, 4), Fraction(1, 2), Fraction(1)]
    for n in (1, 2, 3):
        avs = vals if not (quick and n == 3) else vals[:3]
        for amps in itertools.product(avs, repeat=n):
            for mask in [None] + [list(m) for m in itertools.product([False, True], repeat=2 * n)]:
                if quick and n == 3 and mask is not None and any(mask[n + 1:]):
                    continue
                yield {"stream": "small-scope", "op": "constraint", "n": n,
                       "params": [str(a) for a in amps] + [str(Fraction(j + 1)) for j in range(n)], "mask": mask,
                       "x": ["1/8", "1/4", "1/2", "3/8", "1/8", "1/4", "1"]}
    # ---- small scope: extraction, every group of <= 3 tracks over two kymographs (4 and 3 lines)
    kymos = [{"n_lines": 4, "line_time": 0.25}, {"n_lines": 3, "line_time": 0.5}]
    spans = {0: [(a, b) for a in range(4) for b in range(a, 4)], 1: [(a, b) for a in range(3) for b in range(a, 3)]}
    layouts = [[0], [0, 0], [0, 1], [0, 1, 0]] if not quick else [[0], [0, 1], [0, 1, 0]]
    for lay in layouts:
        choices = [spans[k] for k in lay]
        if quick and len(lay) == 3:
            choices = [spans[0][::2], spans[1], spans[0][1::2]]
        for combo in itertools.product(*choices):
            for excl, obsmin in itertools.product([False, True], repeat=2):
                tracks = [{"kymo": k, "idx": list(range(a, b + 1)), "minobs": kymos[k]["line_time"]}
                          for k, (a, b) in zip(lay, combo)]
                yield {"stream": "small-scope", "op": "extract", "kymos": kymos, "tracks": tracks, "excl": excl,
                       "obsmin": obsmin, "via": "private"}
    # ---- small scope: one group object analysed, edited in place, analysed again
    yield from small_scope_seq(quick)
    for minobs in (None, 0.25):
        for excl in (False, True):
            yield {"stream": "malformed", "op": "extract", "kymos": kymos, "excl": excl, "obsmin": False, "via": "private",
                   "tracks": [{"kymo": 0, "idx": [1, 2], "minobs": minobs}, {"kymo": 0, "idx": [0, 1], "minobs": None},
                              {"kymo": 1, "idx": [], "minobs": 0.5} if minobs else {"kymo": 1, "idx": [1], "minobs": None}]}

    # ---- seeded random streams
    sizes = {"lik": 260, "fit": 140, "constraint": 400, "extract": 500, "extract-seq": 300, "validate": 60, "likwin": 120, "assemble": 250, "fbt": 150} if quick else \
            {"lik": 4000, "fit": 2500, "constraint": 6000, "extract": 8000, "extract-seq": 5000, "validate": 600, "likwin": 800, "assemble": 2000, "fbt": 1200}
    # ---- small scope: window probability below the range of doubles (the factored normalisation), all combinations
    for amps, taus in (([1.0], [0.001]), ([0.25, 0.75], [0.001, 0.01]), ([0.5, 0.25, 0.25], [0.01, 0.001, 0.1])):
        for lo2 in (1.0, 4.0):
            for hi in (0.5, 3.0, "inf"):
                for step in (None, 0.005):
                    lo1 = 0.01
                    his = ["inf", "inf"] if hi == "inf" else [lo1 + hi, lo2 + hi]
                    ts = [lo1, lo1 + 0.005, lo2, lo2 + 0.005] if step else [lo1 + 0.001, lo1 + 0.004, lo2 + 0.001, lo2 + 0.004]
                    yield {"stream": "small-scope", "op": "likwin", "amps": amps, "taus": taus, "t": ts,
                           "tmin": [lo1, lo1, lo2, lo2], "tmax": [his[0], his[0], his[1], his[1]],
                           "step": None if step is None else [step] * 4, "perm": list(reversed(range(len(amps))))}
    r = rng.fork("c15-lik")
    for i in range(sizes["lik"]):
        yield gen_lik(r.fork(i), tier, i)
    r = rng.fork("c15-fit")
    for i in range(sizes["fit"]):
        yield gen_fit(r.fork(i), tier, i)
    r = rng.fork("c15-constraint")
    for i in range(sizes["constraint"]):
        yield gen_constraint(r.fork(i), i)
    r = rng.fork("c15-extract")
    for i in range(sizes["extract"]):
        yield gen_extract(r.fork(i), i)
    r = rng.fork("c15-extract-seq")
    for i in range(sizes["extract-seq"]):
        yield gen_extract_seq(r.fork(i), i)
    r = rng.fork("c15-validate")
    for i in range(sizes["validate"]):
        yield gen_validate(r.fork(i), i)
    # ---- small scope: what is handed to the optimiser, every mask for n <= 2 x amplitude vectors x model kind
    for n, amp_sets, taus in ((1, [["1"], ["1/2"], None], ["1/2"]), (2, [["1/4", "3/4"], ["1/2", "1/4"], ["3/4", "1/2"], None], ["1/2", "4"])):
        for amps in amp_sets:
            for mask in [None] + [list(m) for m in itertools.product([False, True], repeat=2 * n)]:
                for step in (None, 0.25):
                    for tmax in (6.0, "inf"):
                        c = {"stream": "small-scope", "op": "assemble", "n": n, "params": None if amps is None else amps + taus, "mask": mask,
                             "t": [0.5, 0.75, 1.5, 4.0], "tmin": 0.5, "tmax": tmax, "step": step}
                        full = ([0.3, 0.6] if n == 2 else [0.9]) + ([0.7, 3.0] if n == 2 else [1.1])
                        c["probe"] = [v for v, f in zip(full, assemble_fitted(c)) if f]
                        yield c
    # (the streams added in round D fork the generator AFTER all earlier streams: forks are drawn in order, so the cases
    #  of the earlier streams stay what they were for every VERIF_SEED)
    r = rng.fork("c15-likwin")
    for i in range(sizes["likwin"]):
        yield gen_likwin(r.fork(i), i)
    yield from small_scope_fits()
    # ---- small scope: fit_binding_times' own options: every combination of n_components x given/left-out flags on four groups
    kym = [{"n_lines": 6, "line_time": 0.25}, {"n_lines": 5, "line_time": 0.5}]
    groups = [[], [{"kymo": 0, "idx": [1, 2, 4], "minobs": 0.25}],
              [{"kymo": 0, "idx": [0, 1], "minobs": 0.25}, {"kymo": 0, "idx": [2, 2], "minobs": 0.25}],
              [{"kymo": 0, "idx": [1, 3], "minobs": 0.5}, {"kymo": 1, "idx": [1, 2, 3], "minobs": 0.5},
               {"kymo": 0, "idx": [2, 3], "minobs": 0.25}, {"kymo": 1, "idx": [2], "minobs": None}]]
    for tracks in groups:
        for ncomp in (0, 1, 2, 3):
            for excl, om, disc in itertools.product([False, True], [None, False, True], [None, False, True]):
                yield {"stream": "small-scope", "op": "fbt", "kymos": kym, "tracks": tracks, "n": ncomp, "excl": excl,
                       "om": om, "disc": disc, "via": "fit"}
    r = rng.fork("c15-fbt")
    for i in range(sizes["fbt"]):
        ri = r.fork(i)
        c = gen_extract(ri.fork("group"), i, via="fit")
        if any(not tr["idx"] for tr in c["tracks"]):
            continue
        yield {"stream": "random-fbt", "op": "fbt", "kymos": c["kymos"], "tracks": c["tracks"],
               "n": ri.choice([1, 1, 2, 2, 0, 3]), "excl": c["excl"], "om": ri.choice([None, None, False, True]),
               "disc": ri.choice([None, None, False, True]), "via": "fit", "subseed": i}
    r = rng.fork("c15-assemble")
    for i in range(sizes["assemble"]):
        yield gen_assemble(r.fork(i), tier, i)
    # ---- strengthening round H: the anchored extraction function handed explicit groups
    yield from small_scope_groups()
    r = rng.fork("c15-extract-groups")
    for i in range(150 if quick else 2500):
        yield gen_extract_groups(r.fork(i), i)
    # ---- ... and the relative tolerance of the window check at both edges of windows over several decades
    yield from small_scope_validate_edges()
    r = rng.fork("c15-validate-edge")
    for i in range(40 if quick else 600):
        yield gen_validate_edge(r.fork(i), i)


def extra_coverage(results):
    kinds, errs = {}, {}
    ncomp, nobs = {}, {"1-19": 0, "20-199": 0, "200-2000": 0}
    limits = {"scalar": 0, "per-observation": 0}
    windows = {"tmax-inf": 0, "tmax-finite": 0}
    model_kind = {"continuous": 0, "discretised": 0}
    uncovered = 0
    slsqp = {}
    ext = {"kept-all": 0, "dropped-some": 0, "kept-none": 0, "error": 0, "via-fit": 0, "multi-kymo": 0, "first-or-last-line": 0}
    cons = {"one-free": 0, "several-free": 0, "all-fixed": 0, "error": 0}
    grp = {"cases": 0, "with-an-empty-group": 0, "a-kymograph-in-several-groups": 0, "with-a-group-over-several-kymographs": 0,
           "refused-ValueError": 0, "rows-handed-over": 0}
    seq = {"cases": 0, "analyses": 0, "via-fit": 0, "multi-kymo": 0, "edits-that-changed-the-group": 0,
           "analyses-after-an-in-place-change": 0, "rows-handed-over-after-a-change": 0, "refused-edits": 0,
           "fit-refused-rows-outside-their-own-limits": 0}
    seq_edits = {}
    rare_lik = 0
    deep = {"cases": 0, "depth-745-1000": 0, "depth-1000-2500": 0, "depth-2500-5000": 0, "tmax-inf": 0, "discretised": 0}
    fbt = {"cases": 0, "observed_minimum-left-out": 0, "discrete_model-left-out": 0, "RuntimeError": 0, "ValueError": 0,
           "model-constructed": 0, "step-handed": 0}
    mle1 = {"closed-form-inside-the-bounds": 0, "closed-form-below-the-lower-bound": 0}
    asm = {"cases": 0, "ValueError": 0, "nothing-to-fit": 0, "all-fitted": 0, "some-fixed": 0, "one-free-amplitude": 0,
           "fixed-lifetime": 0, "constraint-handed": 0, "default-initial-guess": 0}
    handed = {"fits": 0, "gradient-requests": 0, "inside-the-explored-family": 0, "fits-with-a-request-checked": 0,
              "checked-with-an-amplitude-below-1e-3": 0, "checked-with-an-amplitude-below-1e-6": 0}
    pooled = {"fits-with-array-limits": 0, "several-distinct-windows": 0, "density-integrated": 0, "points-outside-some-window": 0}
    for r in results:
        c = r["case"]
        kinds[c["op"]] = kinds.get(c["op"], 0) + 1
        for a in r["impl"]:
            if a.endswith("Error"):
                errs[c["op"] + ":" + a] = errs.get(c["op"] + ":" + a, 0) + 1
        if c["op"] == "fit" and " " in r["impl"][0]:
            st = r["impl"][0].split(" ")[-1]
            slsqp[st] = slsqp.get(st, 0) + 1
        if c["op"] == "fit" and " " in r["impl"][0]:
            handed["fits"] += 1
            nv, ng = c.get("_visited", (0, 0))
            handed["gradient-requests"] += nv
            handed["inside-the-explored-family"] += ng
            pts = {a.split(" ")[0] for a in r["impl"][-3:] if len(a.split(" ")) == 3}
            handed["fits-with-a-request-checked"] += bool(pts)
            lows = [min(dec_fl(p)[: c["ncomp"]]) for p in pts]
            handed["checked-with-an-amplitude-below-1e-3"] += sum(1 for v in lows if v < 1e-3)
            handed["checked-with-an-amplitude-below-1e-6"] += sum(1 for v in lows if v < 1e-6)
        if c["op"] == "fit" and " " in r["impl"][0] and not scalar_limits(c):
            cl = pool_classes(c)
            pooled["fits-with-array-limits"] += 1
            pooled["several-distinct-windows"] += len(cl) > 1
            pooled["density-integrated"] += "quadpool" in fit_layout(c)
            pooled["points-outside-some-window"] += sum(
                1 for x in pool_points(c) if any(not (lo <= x < hi) for (lo, hi, _), _ in cl) and any(lo <= x < hi for (lo, hi, _), _ in cl))
        if c["op"] == "lik" and min(c["amps"]) < 1e-4:
            rare_lik += 1
        if c["op"] == "fit" and " " in r["impl"][0] and "mle1" in fit_layout(c):
            nn = len(c["t"])
            tt, lo_ = np.array(c["t"], dtype=float), arr(c["tmin"], nn)
            inside = float(np.mean(tt - lo_)) >= max(0.1 * float(np.min(lo_)), 1e-8)
            mle1["closed-form-inside-the-bounds" if inside else "closed-form-below-the-lower-bound"] += 1
        if c["op"] == "fbt":
            a = r["impl"][0]
            fbt["cases"] += 1
            fbt["observed_minimum-left-out"] += c["om"] is None
            fbt["discrete_model-left-out"] += c["disc"] is None
            if a.endswith("Error"):
                fbt[a] = fbt.get(a, 0) + 1
            else:
                fbt["model-constructed"] += 1
                fbt["step-handed"] += a.split(" ")[1] == "T"
        if c["op"] == "assemble":
            asm["cases"] += 1
            a = r["impl"][0]
            if a.endswith("Error"):
                asm["ValueError"] += 1
            elif a != "?":
                fitted = assemble_fitted(c)
                fixed = [False] * (2 * c["n"]) if c["mask"] is None else c["mask"]
                asm["nothing-to-fit"] += not any(fitted)
                asm["all-fitted"] += all(fitted)
                asm["some-fixed"] += any(fixed)
                asm["one-free-amplitude"] += sum(1 for f in fixed[: c["n"]] if not f) == 1
                asm["fixed-lifetime"] += any(fixed[c["n"]:])
                asm["constraint-handed"] += a.split(" ")[7] != "none"
                asm["default-initial-guess"] += c["params"] is None
        if c["op"] == "likwin":
            d = window_depth(c)
            deep["cases"] += 1
            deep["discretised"] += c["step"] is not None
            deep["tmax-inf"] += "inf" in c["tmax"]
            if d > 745.0:
                deep["depth-745-1000" if d <= 1000 else ("depth-1000-2500" if d <= 2500 else "depth-2500-5000")] += 1
        if c["op"] in ("lik", "fit"):
            k = len(c["amps"]) if c["op"] == "lik" else c["ncomp"]
            ncomp[f"{c['op']}-{k}"] = ncomp.get(f"{c['op']}-{k}", 0) + 1
            n = len(c["t"])
            nobs["1-19" if n < 20 else ("20-199" if n < 200 else "200-2000")] += 1
            limits["scalar" if scalar_limits(c) else "per-observation"] += 1
            tm = c["tmax"]
            windows["tmax-inf" if (tm == "inf" or (isinstance(tm, list) and "inf" in tm)) else "tmax-finite"] += 1
            model_kind["continuous" if c["step"] is None else "discretised"] += 1
            if c["op"] == "lik":
                for lo, hi, st in limit_classes(c):
                    if st is not None and not disc_K(lo, hi, st, c["taus"])[1]:
                        uncovered += 1
        if c["op"] == "extract" and "steps" in c:
            seq["cases"] += 1
            seq["via-fit"] += c["via"] == "fit"
            seq["multi-kymo"] += len({t["kymo"] for t in c["tracks"]}) > 1
            seq["refused-edits"] += len(c.get("_refused_steps", []))
            parts = [split_state(a) for a in r["impl"]]
            seq["analyses"] += len(parts)
            seq["fit-refused-rows-outside-their-own-limits"] += sum(1 for _, p in parts if c["via"] == "fit" and p == "ValueError")
            for j, st in enumerate(c["steps"]):
                kind = st["do"] if st["do"] != "derive" else "derive-" + st["how"]
                seq_edits[kind] = seq_edits.get(kind, 0) + 1
                if j + 1 < len(parts) and parts[j + 1][0] != parts[j][0]:
                    seq["edits-that-changed-the-group"] += 1
                    if st["do"] in ("filter", "rect", "remove", "extend", "split", "merge"):
                        seq["analyses-after-an-in-place-change"] += 1
                    p = parts[j + 1][1]
                    if p is not None and not p.endswith("Error") and parse_rows(p)[0]:
                        seq["rows-handed-over-after-a-change"] += 1
            continue
        if c["op"] == "extract" and "groups" in c:
            a = r["impl"][0]
            grp["cases"] += 1
            grp["with-an-empty-group"] += any(not g for g in c["groups"])
            grp["a-kymograph-in-several-groups"] += any(
                sum(1 for g in c["groups"] if any(c["tracks"][i]["kymo"] == k for i in g)) > 1 for k in range(len(c["kymos"])))
            grp["with-a-group-over-several-kymographs"] += bool(mixed_groups(c))
            grp["refused-ValueError"] += a == "ValueError"
            grp["rows-handed-over"] += (not a.endswith("Error")) and a != "?" and bool(parse_rows(a)[0])
            continue
        if c["op"] == "extract":
            a = r["impl"][0]
            if a.endswith("Error"):
                ext["error"] += 1
            else:
                nrows = len(parse_rows(a)[0])
                ext["kept-all" if nrows == len(c["tracks"]) else ("kept-none" if nrows == 0 else "dropped-some")] += 1
            ext["via-fit"] += c["via"] == "fit"
            ext["multi-kymo"] += len({t["kymo"] for t in c["tracks"]}) > 1
            ext["first-or-last-line"] += any(
                t["idx"] and (t["idx"][0] == 0 or t["idx"][-1] == c["kymos"][t["kymo"]]["n_lines"] - 1) for t in c["tracks"])
        if c["op"] == "constraint":
            a = r["impl"][0]
            if a.endswith("Error"):
                cons["error"] += 1
            else:
                nfree = int(a.split(" ")[1])
                fitted = a.split(" ")[0]
                cons["several-free" if nfree >= 2 else ("all-fixed" if c["mask"] is not None and all(c["mask"][: c["n"]]) else "one-free")] += 1
    return {"case_kinds": kinds, "error_kinds": errs, "components": ncomp, "observations_per_case": nobs, "limits": limits,
            "windows": windows, "model_kind": model_kind, "slsqp_exit_of_fits": slsqp, "discrete_inf_sums_not_covering_support_skipped": uncovered,
            "extraction": ext, "extraction_function_handed_explicit_groups": grp, "extraction_same_group_object_edited": dict(seq, edits=seq_edits), "amplitude_constraint": cons, "pdf_of_pooled_windows": pooled,
            "gradient_handed_to_the_optimiser": handed, "lik_cases_with_an_amplitude_below_1e-4": rare_lik,
            "likelihood_with_window_probability_below_the_range_of_doubles": deep,
            "optimiser_assembly_with_fixed_parameters": asm, "one_component_closed_form": mle1, "fit_binding_times_options": fbt, "exhaustive": False,
            "exhaustive_note": "the small-scope streams enumerate their finite spaces completely; the random streams do not",
            "dropped_for_margin": dict(_DROPPED),
            "private_members_the_harness_could_not_reach": dict(_UNREACHABLE)}
