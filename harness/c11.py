"""C11 — force calibration: identities, error propagation, analytical Lorentzian fit, diode routing.
Correspondence + oracle + (labelled) exploration of the optimiser / FFT estimator.  See DESIGN.md 6/C11."""
import itertools
import math
import warnings
from fractions import Fraction

import numpy as np

from common import close, dec_float, dec_rat, enc_bool, enc_float, enc_list, enc_rat, errname

PROP = "C11"
THEOREMS = [
    # identities, one per cell of the option matrix (passive)
    "Verif.C11.kappa_identity_bulk",
    "Verif.C11.kappa_identity_faxen",
    "Verif.C11.kappa_identity_brenner",
    "Verif.C11.kappa_identity_hydro",
    "Verif.C11.Rd_identity_bulk",
    "Verif.C11.Rd_identity_faxen",
    "Verif.C11.Rd_identity_brenner",
    "Verif.C11.Rd_identity_hydro",
    "Verif.C11.Rf_identity",
    "Verif.C11.set_drag_identities",
    # active
    "Verif.C11.kappa_identity_active",
    "Verif.C11.Rd_identity_active",
    "Verif.C11.Rf_identity_active",
    "Verif.C11.active_Rd_is_power_ratio",
    "Verif.C11.active_bulk_drag_bulk",
    "Verif.C11.active_bulk_drag_faxen",
    "Verif.C11.active_bulk_drag_hydro",
    "Verif.C11.active_local_drag_hydro_surface",
    "Verif.C11.to_local_hydro_bulk",
    # error propagation
    "Verif.C11.err_kappa_is_propagation",
    "Verif.C11.err_Rd_is_propagation",
    # analytical Lorentzian
    "Verif.C11.analytic_lorentzian_exact",
    "Verif.C11.anlDet_nonneg",
    "Verif.C11.anlDet_pos_of_two_frequencies",
    "Verif.C11.analytic_lorentzian_fc_D",
    # routing / validation / bias
    "Verif.C11.fixed_diode_routing",
    "Verif.C11.fixed_diode_filter",
    "Verif.C11.route_broadcast",
    "Verif.C11.route_error",
    "Verif.C11.bias_correction_factor",
    "Verif.C11.mkModel_ok_iff",
    # deepening round D: objective of the fit, uniqueness of its zero (recovery), driving-peak estimator after the FFT
    "Verif.C11.fit_objective_nonneg",
    "Verif.C11.fit_objective_zero_iff",
    "Verif.C11.fit_objective_minimised_by_generating",
    "Verif.C11.spectrum_model_lorentz_diode",
    "Verif.C11.fit_recovery_unique_lorentz_diode",
    "Verif.C11.fit_twin_minimiser",
    "Verif.C11.fit_recovery_unique_lorentzian",
    "Verif.C11.driving_peak_parabola_exact",
    "Verif.C11.driving_peak_gaussian_recovery",
    "Verif.C11.driving_peak_window_constants",
    "Verif.C11.driving_peak_answer_sound",
    "Verif.C11.driving_peak_bin_is_argmax",
    "Verif.C11.driving_estimator_decomposes",
    "Verif.C11.fit_validation_iff",
    "Verif.C11.fit_validation_errors",
    "Verif.C11.brenner_correction_pos",
    "Verif.C11.brenner_singular_at_contact",
    "Verif.C11.constructed_model_drag_pos",
    "Verif.C11.error_propagation_constructed",
    "Verif.C11.psdOr_lorentz_diode",
    "Verif.C11.fit_recovery_unique_model",
    "Verif.C11.driven_power_peak_is_max",
    "Verif.C11.fit_parameter_vector_is_routable",
    "Verif.C11.generating_parameters_within_bounds",
    "Verif.C11.twin_within_bounds",
    "Verif.C11.analytic_lorentzian_exact_of_two_frequencies",
    "Verif.C11.active_recovers_generating_sensitivity",
    "Verif.C11.calibrate_force_accepts_iff",
    "Verif.C11.calibrate_force_setup",
    "Verif.C11.calibrate_force_value_error_first",
    "Verif.C11.driving_estimator_gaussian_spectrum",
    "Verif.C11.robust_loss_zero_iff",
    "Verif.C11.robust_loss_recovery_unique",
    "Verif.C11.scaled_model_start",
    "Verif.C11.hydro_spectrum_form",
    "Verif.C11.psdOr_hydro_noFilter",
    "Verif.C11.rational_spectrum_recovery_unique",
    "Verif.C11.psdOr_fixed_diode_shapes",
    "Verif.C11.fit_recovery_in_conditioning_box",
    "Verif.C11.abs_of_solution_keeps_spectrum",
]
RULE = (
    "corpus (8 representative + the open finding F-C11-1) + exhaustive option matrix (hydro x axial x distance{None, at the "
    "validity limit, far} x viscosity{given, derived from T} x fast sensor x drag override x fixed diode{none, f, alpha, both}) "
    "with two (fc, D, errors) each for passive results, one spectrum value and (non-axial) one active calibration on synthetic "
    "signals + seeded random configurations over the property's box (bead 0.2-8 um incl. both ends, 10-60 C and the "
    "constructor's 5-90 C, viscosity 3.1e-4-1e-2 or derived, distances from the validity limit to 20x, densities 100-3000, "
    "fc 300-6000 Hz, D over 6 decades, f_diode 5-20 kHz, alpha 0.1-0.8, errors 1e-4-0.2 relative; quick 3000 / thorough "
    "30000 passive, 200/2000 active on synthetic stage+detector signals of 1-5 s) + FixedDiodeModel routing for every "
    "fixed pattern with 0-3 supplied values (valid, broadcast, shape errors; the placed values while the private array is "
    "reachable, and the public filter value at two frequencies on the same object) + analytical Lorentzian fit on exact "
    "Lorentzians on rational grids (2-250 points) and on noisy / rising / flat / steeper-than-Lorentzian spectra (both "
    "fall-back branches) + malformed stream (constructor arguments on both sides of every validity limit, invalid fixed "
    "diode values, wrong parameter counts). EXPLORATION (not proof): fit_power_spectrum on synthetic spectra inside the "
    "conditioning box 3 f_min <= fc <= 0.3 f_diode (noise-free: recovery to 1e-7; gamma noise of the block size: 10 sigma "
    "+ 0.1 %, chi^2/dof ~ 1; block sizes 20-2000; bias correction on/off), calibrate_force on synthetic time series "
    "(passive and active, public path incl. axial=, drag=, fixed_diode=, fixed_alpha=; axial drawn with probability 1/2 for "
    "non-hydrodynamic passive runs), estimate_driving_input_parameters on noisy sinusoids (directly and through the constructor of "
    "lk.ActiveCalibrationModel). PUBLIC ENTRY POINT, exhaustive "
    "(deterministic, independent of the seed): lk.calibrate_force over hydro x axial x distance{None, at the validity "
    "limit, far} x transferred drag x filter{diode, fast sensor, fixed f_diode, fixed alpha, both} passive and (lateral, no "
    "transferred drag) active, on well-conditioned 1 s records (thorough: x bead {1.2, 4.4 um} x viscosity {given, "
    "derived}); the model it built is compared cell by cell (drag, correction factor, kappa, Rd, Rf, errors) and hydro + "
    "axial must be rejected there as by the constructor. Non-trivial: the model was constructed and every reported number is finite (identities evaluated), "
    "a routing case, a non-singular analytical fit, a rejection of a configuration outside the documented domain, a "
    "completed exploration fit. DEEPENING ROUND D: every exploration fit also sends the block-averaged spectrum and the "
    "(uncorrected) fitted parameters to the model, whose objective chi^2 (op c11.chi2, all filters and the hydrodynamic "
    "spectrum) must equal the chi_squared_per_deg the code reports; every driving-signal case sends numpy's spectrum of the "
    "windowed record around the search range to the model's estimator (op c11.drive: search mask, peak bin, three-point "
    "log-parabola, both RuntimeError branches, IndexError for an empty search range, vertex, amplitude, amp_std) and "
    "compares (frequency, amplitude, amp_std) or the error; a deterministic small scope (3 frequencies x 6 guess offsets "
    "incl. peak outside the search range and search range beyond Nyquist x {no, stronger, weaker} second tone inside the "
    "range) exercises the peak search; the raise statements of lk.fit_power_spectrum are run over npts {3,4,5,12} x loss "
    "{gaussian, lorentzian, unknown} x bias correction x {non-empty, empty} analytical range (op c11.fitvalidate); initial values and bounds of the filter parameters for every filter shape x two sample rates (op "
    "c11.fitbounds); the keyword-argument glue of lk.calibrate_force (op c11.calibsetup): on every calibrate_force case "
    "the filter it ended up with (per diode parameter fitted / fixed at which value / absent, number of fitted parameters), "
    "and an exhaustive scope of the combinations it has to refuse (active x axial x transferred drag {None, 0, value} x fast "
    "x fixed diode x hydro x driving data {None, empty, given} x guess {None, 0, negative, positive}); the robust loss "
    "lorentzian_loss on a ScaledModel (op c11.lloss) for every filter shape x hydro at and around the generating parameters. "
    "STRENGTHENING ROUND H: the lk.calibrate_force records also vary the sample rate (78.125 / 50 / 40 / 30 kHz, 20 kHz for "
    "filters without a fitted f_diode, random in between) and the fit range (keyword left out = the documented default "
    "(100 Hz, 23 kHz), explicit, ending at / above the Nyquist frequency, inside the band, lower limit 100 Hz .. fc/3), random "
    "and as a deterministic scope rate x range x filter x passive/active; the validation scope of lk.fit_power_spectrum also "
    "passes, in otherwise valid calls, an object that is not a PowerSpectrum (TypeError); noisy analytical-fit spectra of every "
    "kind may start at the DC bin (fall-back initial guess with frequency[0] = 0); the drive scope puts a second tone exactly "
    "on the lower / upper edge bin of the (open) search range on a dyadic frequency grid."
)
TRUSTED = [
    "RealLike formulas are proved over the reals and executed at Float: rounding is not modelled, the comparison "
    "tolerance (rel 1e-9; analytical fit: 1e-9 x conditioning scale supplied by the model) absorbs it",
    "numpy.fft, scipy.optimize.curve_fit/minimize, scipy.signal.windows.gaussian are NOT modelled: that the optimiser "
    "reaches the (proved unique) zero of the modelled objective, and that the spectrum of a Gaussian-windowed sinusoid is "
    "the Gaussian the estimator is proved to invert, is exploration only; np.polyfit on three points is modelled as the "
    "interpolating parabola (Newton form)",
    "active calibration: driving frequency/amplitude and the peak power density are measured by the code (FFT) and "
    "passed to the model as inputs",
]
ASSUMPTIONS = [
    "identities need fc != 0, D > 0, drag > 0, kT > 0 (hypotheses of the theorems; guaranteed by the generators)",
    "Rd_identity_active needs P_theory/P_exp > 0 (driving peak above the thermal background)",
    "analytic_lorentzian_exact needs a0 + b0 f_k^2 != 0 for every k and a non-zero determinant (proved positive as "
    "soon as two frequencies with non-zero power have different squares)",
    "optimiser recovery explored only inside the conditioning box 3 f_min <= fc <= 0.3 f_diode",
    "fit_recovery_unique_lorentz_diode needs f_c < f_diode for the candidate too (necessary: fit_twin_minimiser), four "
    "frequencies with distinct squares in the spectrum, alpha < 1; non-hydrodynamic spectrum only",
    "driving_peak_gaussian_recovery: three distinct bin frequencies, K, sigma > 0, centre inside the search range",
]

KB = 1.380649e-23
SAMPLE_RATE = 78125.0

_cache = {}  # per-run results of the implementation that later ops/oracle calls need (small dicts)
_sig_cache = {}  # synthetic signals (large arrays, bounded)


# How the harness reaches pylake (robustness against behaviour-preserving refactorings, DESIGN.md C11):
#  * what the package exports is taken from the package: lk.PassiveCalibrationModel, lk.ActiveCalibrationModel,
#    lk.fit_power_spectrum, lk.calibrate_force;
#  * the anchored mechanisms without a public name (FixedDiodeModel/DiodeModel/NoFilter, CalibrationResults, PowerSpectrum,
#    detail.power_models.fit_analytical_lorentzian, detail.driving_input.estimate_driving_input_parameters) are imported
#    from their modules, each where it is used, so that a moved module takes only its own direct tie with it;
#  * PRIVATE attributes are observed only while they are reachable (`priv`): a renamed one becomes "?" (ignored by
#    agree/oracle/nontrivial) or is replaced by the same quantity read off the public results - never an implementation
#    answer.  A case that cannot even be set up without a vanished private name is answered "?" as a whole
#    (`Unreachable`); the lk.calibrate_force streams keep those configurations tied through the public entry point.


class Unreachable(Exception):
    """a private name of pylake the harness needs to SET UP a case is gone: the case cannot be observed"""


_reach = {}  # private name -> reachable the last time the harness reached for it (printed in the coverage)


def priv(obj, name, fallback="?"):
    """a private attribute of a pylake object, observed only while it is reachable"""
    try:
        v = getattr(obj, name)
    except AttributeError:
        _reach[name] = False
        return fallback
    _reach[name] = True
    return v


def _pub():
    import lumicks.pylake as lk

    return lk


def _cm():
    from lumicks.pylake.force_calibration import calibration_models as cm

    return cm


# ------------------------------------------------------------------ encoding


def eo(x):
    return "N" if x is None else enc_float(x)


def opt_tokens(o):
    return " ".join(
        [
            enc_float(o["d"]),
            eo(o["visc"]),
            enc_float(o["temp"]),
            enc_bool(o["hydro"]),
            eo(o["dist"]),
            eo(o["rho_s"]),
            enc_float(o["rho_b"]),
            enc_bool(o["fast"]),
            enc_bool(o["axial"]),
            eo(o.get("drag")),
        ]
    )


def filt_tokens(o, fixed):
    if fixed is not None:
        return f"fixed {eo(fixed[0])} {eo(fixed[1])}"
    return "nofilter" if o["fast"] else "diode"


def fl(xs):
    return enc_list(xs, enc_float)


def show_floats(xs):
    """bit patterns of doubles; "?" marks an observation that could not be made (unreachable private bookkeeping)"""
    xs = [x if isinstance(x, str) else float(x) for x in xs]
    return "[" + ",".join(x if isinstance(x, str) else ("nan" if math.isnan(x) else enc_float(x)) for x in xs) + "]"


def parse_floats(s):
    """inverse of show_floats; an unobserved "?" comes back as None"""
    inner = s.strip()[1:-1]
    return [] if inner == "" else [None if x == "?" else dec_float(x) for x in inner.split(",")]


def branch_of(o):
    if o["hydro"]:
        return "hydro-surface" if o["dist"] is not None else "hydro"
    if o["dist"]:
        return "brenner" if o["axial"] else "faxen"
    return "bulk"


# ------------------------------------------------------------------ implementation side


def build_model(o, fixed, active=None):
    lk = _pub()
    kw = dict(
        bead_diameter=o["d"],
        viscosity=o["visc"],
        temperature=o["temp"],
        hydrodynamically_correct=o["hydro"],
        distance_to_surface=o["dist"],
        rho_sample=o["rho_s"],
        rho_bead=o["rho_b"],
        fast_sensor=o["fast"],
    )
    if active is None:
        m = lk.PassiveCalibrationModel(axial=o["axial"], **kw)
    else:
        drive, volts = signals(active)
        m = lk.ActiveCalibrationModel(
            drive, volts, active["rate"], driving_frequency_guess=active["guess"], num_windows=active["nwin"], **kw
        )
    # the two post-construction modifiers are applied the way lk.calibrate_force applies them (no public setter exists);
    # calibrate_force(drag=, fixed_diode=, fixed_alpha=) itself is tied by the "calib" streams
    if o.get("drag"):
        set_drag = priv(m, "_set_drag", None)
        if set_drag is not None:
            set_drag(o["drag"])
        else:
            m.drag_coeff = o["drag"]  # public attribute: the bulk drag the results are computed from
    if fixed is not None:
        cm = _cm()
        flt = cm.FixedDiodeModel(fixed[0], fixed[1])
        slot = "_filter"
        if priv(m, slot, None) is None:
            # renamed: the slot is recognised by what it holds (the filter the constructor chose), not by its name
            slots = [k for k, v in vars(m).items() if isinstance(v, (cm.DiodeModel, cm.NoFilter))]
            if len(slots) != 1:
                raise Unreachable("_filter")
            slot = slots[0]
        setattr(m, slot, flt)
    return m


def signals(a):
    """deterministic synthetic stage + detector signals of an active calibration (noise from the case's subseed)"""
    key = ("sig", a["rate"], a["n"], a["f"], a["amp_um"], a["phase"], a["noise_um"], a["volts_amp"], a["volts_noise"], a["subseed"])
    if key in _sig_cache:
        return _sig_cache[key]
    g = np.random.default_rng(a["subseed"])
    t = np.arange(a["n"]) / a["rate"]
    drive = a["amp_um"] * np.sin(2 * np.pi * a["f"] * t + a["phase"]) + 3.7 + a["noise_um"] * g.standard_normal(a["n"])
    volts = a["volts_amp"] * np.sin(2 * np.pi * a["f"] * t + a["phase"] - 0.4) + a["volts_noise"] * g.standard_normal(a["n"])
    if len(_sig_cache) > 16:
        _sig_cache.clear()
    _sig_cache[key] = (drive, volts)
    return drive, volts


def wrap_results(model, res, fitted):
    from lumicks.pylake.force_calibration.calibration_results import CalibrationResults

    return CalibrationResults(
        model=model, ps_model=None, ps_data=None, params=model.calibration_parameters(), results=res, fitted_params=fitted
    )


def reported_bulk_drag(cr, o):
    """the bulk drag the results report: under its own name when it was transferred from a lateral calibration"""
    if not o.get("drag"):
        return cr.theoretical_bulk_drag
    g = cr.transferred_lateral_drag_coefficient
    if g is None and _reach.get("_set_drag") is False:
        g = cr.theoretical_bulk_drag  # the harness had to set the public drag_coeff itself: the field was not renamed
    return g


def passive_observables(model, o, cr):
    gamma = reported_bulk_drag(cr, o)
    # the corrected drag and the surface correction as the PUBLIC results imply them (kappa = 2 pi gamma fc): they stand
    # in for the private attributes when a refactoring has renamed those, so that the position never goes dark
    drag_pub = corr_pub = "?"
    try:
        dp = float(cr.stiffness) * 1e-3 / (2 * math.pi * float(cr.corner_frequency))
        cp = dp / float(gamma)
        if math.isfinite(dp) and math.isfinite(cp):
            drag_pub, corr_pub = dp, cp
    except (TypeError, ValueError, ZeroDivisionError):
        pass
    return [
        cr.displacement_sensitivity,
        cr.stiffness,
        cr.force_sensitivity,
        gamma,
        cr.stiffness_std_err,
        cr.displacement_sensitivity_std_err,
        priv(model, "_drag", drag_pub),  # anchored mechanism; publicly tied by kappa and Rd (model + oracle)
        priv(model, "_drag_correction_factor", corr_pub),
        # bookkeeping for the ACTIVE results (local drag = measured x this); publicly tied there, not observable here
        priv(model, "_to_local_drag_coefficient", "?"),
    ]


def default_pars(o, fixed, fd=14000.0, al=0.4):
    """a filter-parameter vector of the right length for the filter the model ends up with"""
    if fixed is not None:
        return [v for v, fx in zip((fd, al), fixed) if fx is None]
    return [] if o["fast"] else [fd, al]


def impl(case):
    k = case["op"]
    with warnings.catch_warnings(), np.errstate(all="ignore"):
        warnings.simplefilter("ignore")
        try:
            return _impl(case, k)
        except Unreachable:
            return ["?"] * n_ops(case)
        except Exception as e:  # noqa: BLE001 — mapped to the small enum and compared with the model's answer
            return [errname(e)] * n_ops(case)


def n_ops(case):
    return {"passive": 1, "psd": 1, "active": 1, "route": 3, "anl": 1, "fit": 4, "drive": 1, "fitval": 1, "bounds": 1, "calibval": 1, "lloss": 1, "filter": 1, "calib": 2}[case["op"]]


def _impl(case, k):
    if k == "passive":
        o = case["o"]
        m = build_model(o, case.get("fixed"))
        pars = case.get("pars", default_pars(o, case.get("fixed")))
        res = m.calibration_results(case["fc"], case["D"], pars, case["efc"], case["eD"], [0.0] * len(pars))
        cr = wrap_results(m, res, [case["fc"], case["D"], *pars])
        return [f"ok {branch_of(o)} " + show_floats(passive_observables(m, o, cr))]
    if k == "psd":
        o = case["o"]
        m = build_model(o, case.get("fixed"))
        v = m(case["f"], case["fc"], case["D"], *case["pars"])
        return ["ok " + show_floats([float(np.asarray(v))])[1:-1]]
    if k == "filter":
        cm = _cm()
        if case["kind"] == "nofilter":
            f = cm.NoFilter()
        elif case["kind"] == "diode":
            f = cm.DiodeModel()
        else:
            f = cm.FixedDiodeModel(case["fixed"][0], case["fixed"][1])
        v = f(case["f"], *case["pars"])
        return ["ok " + show_floats([float(v)])[1:-1]]
    if k == "route":
        cm = _cm()
        try:
            f = cm.FixedDiodeModel(case["fixed"][0], case["fixed"][1])
        except Exception as e:  # noqa: BLE001
            return [errname(e)] * 3
        try:
            v = f(case["f"], *case["pars"])
            # where the values were placed: the private state of the anchored routing, observed while it is reachable
            placed = priv(f, "_parameters", None)
            p0 = "?" if placed is None else "ok [" + ",".join("N" if p is None else enc_float(p) for p in placed) + "]"
            # ... and the same routing through the public call: the filter value at TWO frequencies determines
            # (f_diode, alpha^2).  The object is stateful: the second call must not see anything of the first one.
            v2 = f(route_f2(case), *case["pars"])
            return [p0, "ok " + enc_float(v), "ok " + enc_float(v2)]
        except Exception as e:  # noqa: BLE001
            return [errname(e)] * 3
    if k == "active":
        o = case["o"]
        m = build_model(o, case.get("fixed"), case["a"])
        a = case["a"]
        meas = measured(m, (a["rate"], signals(a)[0], a["guess"]))
        _cache[("meas", case_key(case))] = meas
        pars = case["pars"]
        res = m.calibration_results(case["fc"], case["D"], pars, case["efc"], case["eD"], [0.0] * len(pars))
        cr = wrap_results(m, res, [case["fc"], case["D"], *pars])
        return [f"ok {branch_of(o)} " + show_floats(active_observables(o, cr, res, meas))]
    if k == "anl":
        from lumicks.pylake.force_calibration.detail import power_models

        ps = make_ps(case["fs"], case["ps"], case["dur"], 1)
        r = power_models.fit_analytical_lorentzian(ps)
        return ["ok " + show_floats([r.fc, r.D, r.sigma_fc, r.sigma_D]) + " " + show_floats(r.ps_fit.power)]
    if k == "fit":
        return impl_fit(case)
    if k == "calib":
        return impl_calib(case)
    if k == "lloss":
        # lorentzian_loss (module-level function of the anchored file) on a ScaledModel, as _fit_power_spectra calls it
        try:
            from lumicks.pylake.force_calibration import power_spectrum_calibration as psc
            from lumicks.pylake.force_calibration.detail.power_models import ScaledModel

            loss = psc.lorentzian_loss
        except (ImportError, AttributeError) as e:
            # neither has a public name: a moved / renamed one takes only this direct tie with it (the robust fit stays
            # reachable through lk.fit_power_spectrum(loss_function="lorentzian") in the validation scope)
            _reach["power_spectrum_calibration.lorentzian_loss / detail.power_models.ScaledModel"] = False
            raise Unreachable(str(e))
        _reach["power_spectrum_calibration.lorentzian_loss / detail.power_models.ScaledModel"] = True
        m = build_model(case["o"], case.get("fixed"))
        f, power = lloss_data(case, m)
        sm = ScaledModel(lambda ff, *q: m(ff, *q), np.asarray(case["scale"], dtype=float))
        v = loss(np.asarray(case["scaled"], dtype=float), sm, f, power, case["nblock"])
        return ["ok " + enc_float(float(v))]
    if k == "calibval":
        import lumicks.pylake as lk

        o, fixed = case["o"], case.get("fixed")
        kw = dict(
            bead_diameter=o["d"], temperature=o["temp"], sample_rate=78125.0, viscosity=o["visc"], hydrodynamically_correct=o["hydro"],
            rho_sample=o["rho_s"], rho_bead=o["rho_b"], distance_to_surface=o["dist"], fast_sensor=o["fast"], axial=o["axial"],
            drag=o.get("drag"), fixed_diode=None if fixed is None else fixed[0], fixed_alpha=None if fixed is None else fixed[1],
            active_calibration=case["active"], driving_frequency_guess=case["guess"],
            driving_data={"none": None, "empty": np.zeros(0), "ok": np.sin(np.arange(64) * 0.1)}[case["driving"]],
        )
        r = lk.calibrate_force(np.zeros(64), **kw)  # every case of this stream has to be refused before the data is touched
        return [filter_shape(r)]
    if k == "bounds":
        cm = _cm()
        if case["kind"] == "nofilter":
            f = cm.NoFilter()
        elif case["kind"] == "diode":
            f = cm.DiodeModel()
        else:
            f = cm.FixedDiodeModel(case["fixed"][0], case["fixed"][1])
        if not all(hasattr(f, nm) for nm in ("initial_values", "lower_bounds", "upper_bounds")):
            # accessors used only by fit_power_spectrum: renamed ones take only this direct tie with them
            _reach["filter.initial_values/lower_bounds/upper_bounds"] = False
            raise Unreachable("filter bound accessors")
        _reach["filter.initial_values/lower_bounds/upper_bounds"] = True
        return ["ok " + " ".join(show_floats([float(v) for v in vals]) for vals in (f.initial_values, f.lower_bounds(), f.upper_bounds(case["rate"])))]
    if k == "fitval":
        # argument validation of lk.fit_power_spectrum on an exact Lorentzian of `npts` bins (fast sensor: 2 parameters)
        lk = _pub()
        m = build_model(base_opts(fast=True), None)
        f = 100.0 + 500.0 * (np.arange(case["npts"]) + 0.5)
        ps = make_ps(f, np.asarray(m(f, 1000.0, 1.0), dtype=float), 1.0, 100)
        rng_anl = (10.0, 1e4) if case["anl"] else (1e5, 2e5)
        if case.get("arg", "PowerSpectrum") == "duck":
            # strengthening round H: an object that has every public attribute of the spectrum but is not a PowerSpectrum
            import types

            ps = types.SimpleNamespace(**{k: getattr(ps, k) for k in dir(ps) if not k.startswith("_")})
        lk.fit_power_spectrum(ps, m, analytical_fit_range=rng_anl, bias_correction=case["bias"], loss_function=case["loss"])
        return ["ok"]
    if k == "drive":
        r = run_drive(case)
        _cache[("drive", case_key(case))] = r
        _cache[("drive-slice", case_key(case))] = drive_slice(case)
        d = r["direct"]
        if d is None:
            return ["?"]
        if "error" in d:
            return [d["error"]]
        return ["ok " + show_floats([d["freq"], d["amp"], d["amp_std"]])]
    raise ValueError(k)


def measured(m, drive=None):
    """what ActiveCalibrationModel.__init__ measured on the signals (inputs of the model op).  Two of them are private
    bookkeeping: the block variance of the response spectrum (-> "perr", None when unreachable: taken from the public
    results by `active_observables`) and the standard error of the driving amplitude (-> "amp_err"; when the attribute is
    unreachable it is measured again with the anchored estimator on the same stage signal `drive` = (rate, data, guess);
    None when that is gone too: the three error entries that depend on it are then not observed)"""
    ps = m.output_power.ps
    idx = int(np.argmax(ps.power))
    df = ps.frequency_bin_width
    var = priv(ps, "_variance", "?")
    if isinstance(var, str):
        err = None
    else:
        err = float(np.sqrt(var[idx] / ps.num_points_per_block) * df) if var is not None else float("nan")
    amp_err = priv(m, "_driving_amplitude_err", None)
    if amp_err is None and drive is not None:
        try:
            from lumicks.pylake.force_calibration.detail.driving_input import estimate_driving_input_parameters

            amp_err = estimate_driving_input_parameters(drive[0], drive[1], drive[2])[2] * 1e-6
        except ImportError:
            amp_err = None
    return {
        "f": float(m.driving_frequency),
        "amp": float(m.driving_amplitude),
        "amp_err": None if amp_err is None else float(amp_err),
        "maxP": float(ps.power[idx]),
        # deepening round D: the whole spectrum of DrivenPower - the model takes the peak itself (np.argmax)
        "powers": [float(v) for v in ps.power],
        "df": float(df),
        "perr": err,
    }


def active_observables(o, cr, res, meas):
    if meas["perr"] is None:
        meas["perr"] = float(res["err_driving_power"].value)  # public: the error of the peak power as reported
    obs = [
        cr.displacement_sensitivity,
        cr.stiffness,
        cr.force_sensitivity,
        reported_bulk_drag(cr, o),
        cr.measured_drag_coefficient,
        res["local_drag_coefficient"].value,
        cr.driving_power,
        res["theoretical_power"].value,
        res["err_theoretical_power"].value,
        cr.stiffness_std_err,
        cr.displacement_sensitivity_std_err,
    ]
    if meas["amp_err"] is None:  # the model was not given the amplitude error: what depends on it is not compared
        obs[8:11] = ["?", "?", "?"]
    return obs


def meas_tokens(meas):
    return (
        f"{enc_float(meas['f'])} {enc_float(meas['amp'])} {enc_float(0.0 if meas['amp_err'] is None else meas['amp_err'])} "
        f"{enc_float(meas['maxP'])} {enc_float(meas['df'])} {enc_float(float('nan') if meas['perr'] is None else meas['perr'])}"
    )


def powers_token(meas):
    """optional last token of c11.active: the spectrum around the driving peak (the model finds the peak itself)"""
    return "" if not meas.get("powers") else " " + fl(meas["powers"])


def route_f2(case):
    """second probe frequency of a routing case"""
    return 2.5 * case["f"] + 100.0


def make_ps(fs, ps, dur, nblock):
    """a PowerSpectrum with the given bins, through its public interface only: constructed on a silent record with as
    many frequency bins (one block, hence no block variance), then the public attributes / with_spectrum"""
    from lumicks.pylake.force_calibration.power_spectrum import PowerSpectrum

    n = len(fs)
    obj = PowerSpectrum(np.zeros(max(2 * (n - 1), 1)), SAMPLE_RATE)
    obj.frequency = np.asarray(fs, dtype=float)
    obj = obj.with_spectrum(np.asarray(ps, dtype=float), int(nblock))
    obj.total_duration = float(dur)
    obj.total_sampled_used = int(round(dur * SAMPLE_RATE))
    return obj


def case_key(case):
    import json

    return json.dumps({k: v for k, v in case.items() if k != "stream"}, sort_keys=True)


# ------------------------------------------------------------------ exploration: optimiser and FFT estimator


def fit_grid(c):
    """frequencies of a block-averaged spectrum as calculate_power_spectrum would produce them"""
    return c["fmin"] + c["step"] * (np.arange(c["npts"]) + 0.5)


def true_pars(c):
    o, fixed = c["o"], c.get("fixed")
    if o["fast"] and fixed is None:
        return []
    return [c["fdiode"], c["alpha"]]


def fitted_par_names(c):
    o, fixed = c["o"], c.get("fixed")
    if fixed is not None:
        return [n for n, fx in zip(("f_diode", "alpha"), fixed) if fx is None]
    return [] if o["fast"] else ["f_diode", "alpha"]


def impl_fit(c):
    lk = _pub()
    o, fixed = c["o"], c.get("fixed")
    m = build_model(o, fixed)
    f = fit_grid(c)
    free = [v for n, v in zip(("f_diode", "alpha"), (c["fdiode"], c["alpha"])) if n in fitted_par_names(c)]
    clean = np.asarray(m(f, c["fc"], c["D"], *free), dtype=float)
    n = c["nblock"]
    if c["noisy"]:
        g = np.random.default_rng(c["subseed"])
        power = clean * g.gamma(n, 1.0 / n, size=len(f))
    else:
        power = clean
    ps = make_ps(f, power, c["dur"], n)
    r1 = lk.fit_power_spectrum(ps, m, bias_correction=True)
    r0 = lk.fit_power_spectrum(ps, m, bias_correction=False)
    names = fitted_par_names(c)
    info = {
        "fc": r1.corner_frequency,
        "D": r1.diffusion_constant_volts,
        "efc": r1.corner_frequency_std_err,
        "eD": r1.diffusion_volts_std_err,
        "D0": r0.diffusion_constant_volts,
        "eD0": r0.diffusion_volts_std_err,
        "fc0": r0.corner_frequency,
        "pars": [float(r1.results[nm].value) for nm in names],
        "epars": [float(r1.results["err_" + nm].value) for nm in names],
        "names": names,
        "fprobe": float(f[len(f) // 3]),
        "model_at_probe": float(np.asarray(r1(f[len(f) // 3]))),
        "Rd": r1.displacement_sensitivity,
        "kappa": r1.stiffness,
        "Rf": r1.force_sensitivity,
        "Rd0": r0.displacement_sensitivity,
        "fixed_reported": [r1.diode_frequency, r1.diode_relaxation_factor],
        "fitted_diode": r1.fitted_diode,
        "chi2": r1.chi_squared_per_degree,
        "chi2_0": r0.chi_squared_per_degree,
        "pars0": [float(r0.results[nm].value) for nm in names],
        "fs": [float(x) for x in f],
        "ps": [float(x) for x in power],
    }
    info = {k: (float(v) if isinstance(v, (np.floating, float, int)) and not isinstance(v, bool) else v) for k, v in info.items()}
    _cache[("fit", case_key(c))] = info
    obs = passive_observables(m, o, r1)
    dof = len(f) - 2 - len(names)
    return [
        enc_float(info["D"]) + " " + enc_float(info["eD"]),
        f"ok {branch_of(o)} " + show_floats(obs),
        "ok " + enc_float(info["model_at_probe"]),
        # deepening round D: the objective of _fit_power_spectra as the code reports it (without bias correction)
        "ok " + show_floats([info["chi2_0"] * dof, info["chi2_0"]]),
    ]


def synth_volts(c, m, free):
    """time series whose periodogram has the model spectrum as expectation (exponentially distributed bins)"""
    n = c["n"]
    rate = c["rate"]
    g = np.random.default_rng(c["subseed"])
    f = np.fft.rfftfreq(n, 1.0 / rate)
    p = np.zeros_like(f)
    p[1:] = np.asarray(m(f[1:], c["fc"], c["D"], *free), dtype=float)
    z = (g.standard_normal(len(f)) + 1j * g.standard_normal(len(f))) / math.sqrt(2.0)
    spec = np.sqrt(p * rate * n / 2.0) * z
    spec[0] = 0.0
    spec[-1] = spec[-1].real
    return np.fft.irfft(spec, n)


def impl_calib(c):
    """the complete public path: lk.calibrate_force on a synthetic time series"""
    import lumicks.pylake as lk

    o, fixed = c["o"], c.get("fixed")
    names = fitted_par_names(c)
    # the generating model is built directly (public constructor, plain diode filter evaluated at the generating - for
    # fixed parameters: the fixed - values, so that nothing private is needed to make the record); the model under test
    # is the one calibrate_force builds
    free = [] if o["fast"] else [c["fdiode"], c["alpha"]]
    try:
        m0 = build_model(o, None)
    except Exception:  # noqa: BLE001 — a configuration the constructor rejects: calibrate_force has to reject it too,
        # it is handed a plain Lorentzian x diode record so that a (wrongly) accepted configuration is fitted and reported
        m0, free = build_model(base_opts(d=o["d"] if o["d"] >= 0.01 else 1.0), None), [c["fdiode"], c["alpha"]]
    volts = synth_volts(c, m0, free)
    kw = dict(
        bead_diameter=o["d"],
        temperature=o["temp"],
        sample_rate=c["rate"],
        viscosity=o["visc"],
        hydrodynamically_correct=o["hydro"],
        rho_sample=o["rho_s"],
        rho_bead=o["rho_b"],
        distance_to_surface=o["dist"],
        fast_sensor=o["fast"],
        num_points_per_block=c["nblock"],
        fixed_diode=None if fixed is None else fixed[0],
        fixed_alpha=None if fixed is None else fixed[1],
    )
    # strengthening round H: the fit range is part of the case.  "default" leaves the keyword out (the documented default
    # (100 Hz, 23 kHz) is then applied by the library to a record of ANY sample rate, also one whose Nyquist frequency lies
    # below 23 kHz); an explicit range may end above the Nyquist frequency (the spectrum simply ends there)
    fr = c.get("fit_range", [100.0, 23000.0])
    if fr != "default":
        kw.update(fit_range=(float(fr[0]), float(fr[1])))
    a = c.get("a")
    if a is not None:
        t = np.arange(c["n"]) / c["rate"]
        drive = a["amp_um"] * np.sin(2 * np.pi * a["f"] * t + a["phase"]) + 1.3
        volts = volts + a["volts_amp"] * np.sin(2 * np.pi * a["f"] * t + a["phase"] - 0.3)
        kw.update(active_calibration=True, driving_data=drive, driving_frequency_guess=a["guess"])
        if o.get("drag") is not None:  # only the falsy-drag cases of the matrix: `if drag:` must let 0.0 through
            kw.update(drag=o["drag"])
    else:
        kw.update(axial=o["axial"], drag=o.get("drag"))
    r = lk.calibrate_force(volts, **kw)
    info = {
        "fc": float(r.corner_frequency),
        "D": float(r.diffusion_constant_volts),
        "efc": float(r.corner_frequency_std_err),
        "eD": float(r.diffusion_volts_std_err),
        "names": names,
        "pars": [float(r.results[nm].value) for nm in names],
        "epars": [float(r.results["err_" + nm].value) for nm in names],
        "nblock_used": int(r.ps_data.num_points_per_block),
        "fixed_reported": [None if v is None else float(v) for v in (r.diode_frequency, r.diode_relaxation_factor)],
        "n_fitted": len(r.fitted_params),
    }
    if a is not None:
        info["meas"] = measured(r.model, (c["rate"], drive, a["guess"]))
        obs = active_observables(o, r, r.results, info["meas"])
    else:
        obs = passive_observables(r.model, o, r)
    _cache[("calib", case_key(c))] = info
    return [f"ok {branch_of(o)} " + show_floats(obs), filter_shape(r)]


def filter_shape(r):
    """public trace of the filter calibrate_force ended up with: per diode parameter fitted (has a standard error) /
    fixed (reported without one) / absent, and the number of fitted parameters"""
    st = []
    for nm in ("f_diode", "alpha"):
        if "err_" + nm in r.results:
            st.append("fitted")
        elif nm in r.params:  # fixed values are reported among the calibration parameters
            st.append("fixed=" + enc_float(float(r.params[nm].value)))
        else:
            st.append("absent")
    return f"ok {st[0]} {st[1]} {len(r.fitted_params)}"


def calibsetup_op(o, fixed, active, driving, guess):
    fd, al = (None, None) if fixed is None else fixed
    return f"c11.calibsetup {opt_tokens(o)} {eo(fd)} {eo(al)} {enc_bool(active)} {enc_bool(driving)} {eo(guess)}"


def drive_signal(c):
    g = np.random.default_rng(c["subseed"])
    t = np.arange(c["n"]) / c["rate"]
    x = c["amp"] * np.sin(2 * np.pi * c["f"] * t + c["phase"]) + c["offset"] + c["noise"] * g.standard_normal(c["n"])
    for f2, a2 in c.get("tones", []):  # further tones inside / outside the search range (small scope of the peak search)
        x = x + a2 * c["amp"] * np.sin(2 * np.pi * f2 * t + 0.4)
    return x


def drive_slice(c):
    """what the model is handed: the part of numpy's spectrum of the Gaussian-windowed record (window, mean removal and
    rfft are NOT modelled: recomputed here with the recipe of the docstring of estimate_driving_input_parameters) that
    covers the search range and three bins on either side, the variance of the record and the two window sums"""
    import scipy.signal

    x = drive_signal(c)
    n = len(x)
    w = scipy.signal.windows.gaussian(M=n, std=n / c.get("window_factor", 10), sym=False)
    spec = np.abs(np.fft.rfft(w * (x - np.mean(x))))
    freq = np.fft.rfftfreq(n, 1.0 / c["rate"])
    df = c["rate"] / n
    fsr = c.get("f_search", 5.0)
    keep = np.nonzero(np.logical_and(freq > c["guess"] - fsr - 3.5 * df, freq < c["guess"] + fsr + 3.5 * df))[0]
    if len(keep) == 0:  # search range beyond the spectrum: the last bins (none of them inside the range)
        keep = np.arange(max(0, len(freq) - 4), len(freq))
    return {
        "freqs": [float(v) for v in freq[keep]],
        "mags": [float(v) for v in spec[keep]],
        "lo": int(keep[0]),
        "var": float(np.var(x)),
        "sw": float(np.sum(w)),
        "sw2": float(np.sum(w**2)),
    }


def run_drive(c):
    x = drive_signal(c)
    out = {}
    # direct tie: the anchored estimator (a function of the `detail` package, no public name of its own)
    try:
        from lumicks.pylake.force_calibration.detail import driving_input

        estimate = driving_input.estimate_driving_input_parameters
    except (ImportError, AttributeError):
        _reach["detail.driving_input.estimate_driving_input_parameters"] = False
        out["direct"] = None
    else:
        try:
            kw = {k: c[k] for k in ("window_factor", "f_search") if k in c}  # rarely used options (scope cases only)
            amp, freq, amp_std = estimate(c["rate"], x, c["guess"], **kw)
            out["direct"] = {"amp": float(amp), "freq": float(freq), "amp_std": float(amp_std)}
        except Exception as e:  # noqa: BLE001
            out["direct"] = {"error": errname(e)}
    # public tie: the constructor of lk.ActiveCalibrationModel measures the stage signal with the same estimator and
    # publishes driving_amplitude [m] / driving_frequency [Hz]
    if "window_factor" in c or "f_search" in c:
        out["public"] = None  # the constructor of ActiveCalibrationModel has no such options
        return out
    try:
        m = _pub().ActiveCalibrationModel(x, x, c["rate"], bead_diameter=1.0, driving_frequency_guess=c["guess"])
        out["public"] = {"amp": float(m.driving_amplitude) * 1e6, "freq": float(m.driving_frequency)}
    except Exception as e:  # noqa: BLE001
        out["public"] = {"error": errname(e)}
    return out


# ------------------------------------------------------------------ protocol ops


def ops(case):
    k = case["op"]
    if k == "passive":
        return [
            f"c11.passive {opt_tokens(case['o'])} {enc_float(case['fc'])} {enc_float(case['D'])} "
            f"{enc_float(case['efc'])} {enc_float(case['eD'])}"
        ]
    if k == "psd":
        return [
            f"c11.psd {opt_tokens(case['o'])} {filt_tokens(case['o'], case.get('fixed'))} {enc_float(case['f'])} "
            f"{enc_float(case['fc'])} {enc_float(case['D'])} {fl(case['pars'])}"
        ]
    if k == "filter":
        kind = case["kind"] if case["kind"] != "fixed" else f"fixed {eo(case['fixed'][0])} {eo(case['fixed'][1])}"
        return [f"c11.filter {kind} {enc_float(case['f'])} {fl(case['pars'])}"]
    if k == "route":
        fd, al = case["fixed"]
        return [
            f"c11.route {eo(fd)} {eo(al)} {fl(case['pars'])}",
            f"c11.filter fixed {eo(fd)} {eo(al)} {enc_float(case['f'])} {fl(case['pars'])}",
            f"c11.filter fixed {eo(fd)} {eo(al)} {enc_float(route_f2(case))} {fl(case['pars'])}",
        ]
    if k == "active":
        meas = _cache.get(("meas", case_key(case)))
        if meas is None:  # construction failed on the implementation: the model must fail the same way
            meas = {"f": case["a"]["f"], "amp": case["a"]["amp_um"] * 1e-6, "amp_err": 0.0, "maxP": 1.0, "df": 1.0, "perr": 0.0}
        return [
            f"c11.active {opt_tokens(case['o'])} {filt_tokens(case['o'], case.get('fixed'))} {meas_tokens(meas)} "
            f"{enc_float(case['fc'])} {enc_float(case['D'])} {enc_float(case['efc'])} "
            f"{enc_float(case['eD'])} {fl(case['pars'])}{powers_token(meas)}"
        ]
    if k == "anl":
        return [f"c11.anl {enc_list(case['fs'], enc_rat)} {enc_list(case['ps'], enc_rat)} {enc_float(case['dur'])}"]
    if k == "fit":
        info = _cache.get(("fit", case_key(case)))
        if info is None:
            return ["c11.bias 1 " + enc_float(0.0), "c11.fitfailed", "c11.fitfailed", "c11.fitfailed"]
        o = case["o"]
        fixed = case.get("fixed")
        # the filter parameters the spectrum model is evaluated with: fitted values in order
        return [
            f"c11.bias2 {case['nblock']} {enc_float(info['D0'])} {enc_float(info['eD0'])}",
            f"c11.passive {opt_tokens(o)} {enc_float(info['fc'])} {enc_float(info['D'])} {enc_float(info['efc'])} "
            f"{enc_float(info['eD'])}",
            f"c11.psd {opt_tokens(o)} {filt_tokens(o, fixed)} {enc_float(info['fprobe'])} {enc_float(info['fc'])} "
            f"{enc_float(info['D'])} {fl(info['pars'])}",
            f"c11.chi2 {opt_tokens(o)} {filt_tokens(o, fixed)} {fl(info['fs'])} {fl(info['ps'])} {case['nblock']} "
            f"{enc_float(info['fc0'])} {enc_float(info['D0'])} {fl(info['pars0'])}",
        ]
    if k == "calib":
        info = _cache.get(("calib", case_key(case)))
        o, fixed = case["o"], case.get("fixed")
        if info is None:
            # calibrate_force raised: the model must reject the same configuration with the same error
            info = {"fc": case["fc"], "D": case["D"], "efc": 1.0, "eD": 1.0, "pars": default_pars(o, fixed)}
            a = case.get("a") or {"f": 1.0, "amp_um": 1.0}
            info["meas"] = {"f": a["f"], "amp": a["amp_um"] * 1e-6, "amp_err": 0.0, "maxP": 1.0, "df": 1.0, "perr": 0.0}
        if case.get("a") is None:
            return [
                f"c11.passive {opt_tokens(o)} {enc_float(info['fc'])} {enc_float(info['D'])} {enc_float(info['efc'])} "
                f"{enc_float(info['eD'])}",
                calibsetup_op(o, fixed, False, False, None),
            ]
        meas = info["meas"]
        return [
            f"c11.active {opt_tokens(o)} {filt_tokens(o, fixed)} {meas_tokens(meas)} "
            f"{enc_float(info['fc'])} {enc_float(info['D'])} {enc_float(info['efc'])} "
            f"{enc_float(info['eD'])} {fl(info['pars'])}{powers_token(meas)}",
            # impl_calib passes neither axial= nor drag= for active calibration
            calibsetup_op(dict(o, axial=False), fixed, True, True, case["a"]["guess"]),
        ]
    if k == "lloss":
        m = build_model(case["o"], case.get("fixed"))
        f, power = lloss_data(case, m)
        return [
            f"c11.lloss {opt_tokens(case['o'])} {filt_tokens(case['o'], case.get('fixed'))} {fl([float(x) for x in f])} "
            f"{fl([float(x) for x in power])} {case['nblock']} {fl(case['scaled'])} {fl(case['scale'])}"
        ]
    if k == "calibval":
        return [calibsetup_op(case["o"], case.get("fixed"), case["active"], case["driving"] == "ok", case["guess"])]
    if k == "bounds":
        kind = case["kind"] if case["kind"] != "fixed" else f"fixed {eo(case['fixed'][0])} {eo(case['fixed'][1])}"
        return [f"c11.fitbounds {kind} {enc_float(case['rate'])}"]
    if k == "fitval":
        op = f"c11.fitvalidate {case['npts']} {case['loss']} {enc_bool(case['bias'])} {case['npts'] if case['anl'] else 0}"
        return [op + (" " + enc_bool(case["arg"] == "PowerSpectrum") if "arg" in case else "")]
    if k == "drive":
        sl = _cache.get(("drive-slice", case_key(case)))
        if sl is None:
            return ["c11.drivefailed"]
        return [
            f"c11.drive {fl(sl['freqs'])} {fl(sl['mags'])} {enc_float(case['guess'])} {enc_float(case.get('f_search', 5.0))} "
            f"{enc_float(2.0 / case['rate'])} {enc_float(float(case['n']))} {enc_float(sl['var'])} {enc_float(sl['sw'])} "
            f"{enc_float(sl['sw2'])}"
        ]
    raise ValueError(k)


def agree(case, i, ia, ma):
    k = case["op"]
    if ia == "?":
        return True  # not observed (a private name the harness would need is gone): nothing to compare
    if not ia.startswith("ok") and not ia.startswith("b"):
        return ia == ma
    if not (ma.startswith("ok") or ma.startswith("b")):
        return False
    if k == "anl":
        return agree_anl(case, ia, ma)
    if k == "fit" and i == 3:
        return agree_chi2(case, ia, ma)
    if k == "drive":
        return agree_drive(case, ia, ma)
    if k == "route" and i == 0:
        return ia == ma  # parameters are placed, not computed: bit-exact
    ti, tm = ia.split(" "), ma.split(" ")
    if len(ti) != len(tm):
        return False
    for a, b in zip(ti, tm):
        if a.startswith("["):
            xa, xb = parse_floats(a), parse_floats(b)
            if len(xa) != len(xb) or not all(x is None or close(x, y, 1e-9) for x, y in zip(xa, xb)):
                return False
        elif a.startswith("b") and a[1:].isdigit():
            if not (b.startswith("b") or b == "nan") or not close(dec_float(a), dec_float(b), 1e-9):
                return False
        elif a != b:
            return False
    return True


def agree_chi2(case, ia, ma):
    """chi^2 = n * sum (P/model - 1)^2.  On a noise-free spectrum every residual x = P/model - 1 is itself at the level
    of the optimiser's tolerance, so the value is dominated by the rounding delta of x (64 ulp allowed: the hydrodynamic
    spectrum is a page of complex arithmetic): |d chi^2| <= 2 delta sqrt(n N chi^2) + n N delta^2 (Cauchy-Schwarz),
    plus the usual 1e-9 relative."""
    vi, vm = parse_floats(ia.split(" ")[1]), parse_floats(ma.split(" ")[1])
    if len(vi) != 2 or len(vm) != 2 or any(v is None for v in vi + vm):
        return False
    info = _cache.get(("fit", case_key(case)))
    npts = len(info["fs"]) if info else case["npts"]
    dof = npts - 2 - (len(info["names"]) if info else 0)
    n = case["nblock"]
    delta = 64 * 2.220446049250313e-16
    c = abs(vm[0])
    tol = 1e-9 * c + 2 * delta * math.sqrt(n * npts * c) + n * npts * delta * delta
    return abs(vi[0] - vm[0]) <= tol and abs(vi[1] - vm[1]) <= tol / max(dof, 1)


def agree_drive(case, ia, ma):
    """frequency: 1e-9 relative.  amplitude = exp(p2 - p1^2/(4 p0) + ...): both terms of the exponent are as large as
    |p2| (~ mu^2/(2 sigma^2), 1e3..1e6) and cancel to log K, and np.polyfit returns p2 with a relative error of a few
    ulp times the conditioning of the 3x3 Vandermonde system: relative tolerance 1e-9 + 4096 ulp (1 + |p2|)."""
    tm = ma.split(" ")
    if tm[0] != "ok" or len(tm) != 4:
        return False
    vi, vm, pm = parse_floats(ia.split(" ")[1]), parse_floats(tm[2]), parse_floats(tm[3])
    if len(vi) != 3 or len(vm) != 3 or any(v is None for v in vi + vm + pm):
        return False
    atol = 1e-9 + 4096 * 2.220446049250313e-16 * (1.0 + abs(pm[2]))
    if not close(vi[0], vm[0], 1e-9):
        return False
    if not abs(vi[1] - vm[1]) <= atol * abs(vm[1]):
        return False
    # amp_std = ENBW sqrt(q) / sqrt(N), q = |var - amp^2/2|: for a clean sinusoid q is a difference of equal numbers;
    # |sqrt(q) - sqrt(q')| <= sqrt|q - q'| and |q - q'| <= atol amp^2 + 4 ulp var
    sl = _cache.get(("drive-slice", case_key(case))) or {"var": 0.0, "sw": 1.0, "sw2": 1.0}
    n = float(case["n"])
    factor = n * sl["sw2"] / (sl["sw"] ** 2) / math.sqrt(n)
    dq = atol * vm[1] ** 2 + 4 * 2.220446049250313e-16 * abs(sl["var"])
    return abs(vi[2] - vm[2]) <= 1e-9 * abs(vm[2]) + factor * math.sqrt(dq)


def agree_anl(case, ia, ma):
    ti, tm = ia.split(" "), ma.split(" ")
    if tm[0] != "ok" or len(tm) != 6:
        return False
    a, b, sa, sb = (dec_rat(x) for x in tm[1:5])
    mf = parse_floats(tm[5])
    fi = parse_floats(ti[1])
    pw = parse_floats(ti[2])
    tol_a = 1e-9 * float(sa)
    tol_b = 1e-9 * float(sb)
    fa, fb = float(a), float(b)
    # fitted spectrum 1/(a + b f^2): implies the implementation's a and b
    for f, p in zip(case["fs"], pw):
        den = fa + fb * f * f
        tol = tol_a + tol_b * f * f + 1e-9 * abs(den)
        if not (abs(1.0 / p - den) <= tol if p != 0 and math.isfinite(p) else False):
            return False
    ra = tol_a / abs(fa) if fa else 1.0
    rb = tol_b / abs(fb) if fb else 1.0
    if ra > 1e-3 or rb > 1e-3:
        return True  # too ill-conditioned for the derived quantities; a and b themselves were compared above
    rel = 4 * (ra + rb) + 1e-9
    for x, y, extra in zip(fi, mf, (1, 1, 40, 40)):
        if not close(x, y, rel * extra):
            return False
    return True


# ------------------------------------------------------------------ oracle: the property, in plain Python


def o_faxen(l, r):
    h = r / l
    return 1.0 / (1 - 9 * h / 16 + h**3 / 8 - 45 * h**4 / 256 - h**5 / 16)


def o_brenner(l, r):
    h = r / l
    return 1.0 / (1 - 9 * h / 8 + h**3 / 2 - 57 * h**4 / 100 + h**5 / 5 + 7 * h**11 / 200 - h**12 / 25)


def o_correction(o):
    """surface correction of the drag the property asks for"""
    if o["hydro"] or not o["dist"]:
        return 1.0
    r = o["d"] / 2
    return o_brenner(o["dist"], r) if o["axial"] else o_faxen(o["dist"], r)


def o_valid(o, fixed=None):
    """is this a valid model configuration (docstring of the constructors)?"""
    if o["d"] < 1e-2:
        return "ValueError"
    if o["dist"] is not None and o["dist"] < o["d"] / 2:
        return "ValueError"
    if o["visc"] is not None and o["visc"] <= 0.0003:
        return "ValueError"
    if not 5.0 < o["temp"] < 90.0:
        return "ValueError"
    if o["hydro"]:
        if o["axial"]:
            return "NotImplementedError"
        if o["dist"] is not None and o["dist"] < 0.75 * o["d"]:
            return "ValueError"
        if (o["rho_s"] is not None and o["rho_s"] < 100) or o["rho_b"] < 100:
            return "ValueError"
    if fixed is not None:
        if fixed[1] is not None and not 0 <= fixed[1] <= 1:
            return "ValueError"
        if fixed[0] is not None and fixed[0] <= 0:
            return "ValueError"
    return None


def rel_ok(x, y, rel=1e-9):
    return close(float(x), float(y), rel)


def o_complex_drag(f, gamma0, rho, r, l):
    """gamma/gamma0 of a sphere oscillating at frequency f near a wall (Tolic-Norrelykke 2006, D4-D6), complex"""
    nu = gamma0 / (6 * math.pi * rho * r)
    fnu = nu / (math.pi * r * r)
    x = f / fnu
    s = math.sqrt(x)
    stokes = 1 + (1 - 1j) * s - 2j * x / 9
    if l is None:
        return stokes
    import cmath

    eps = (2 * l - r) * s / r
    den = 1 - 9 / 16 * (r / l) * (1 - (1 - 1j) / 3 * s + 2j * x / 9 - 4 / 3 * (1 - cmath.exp(-(1 - 1j) * eps)))
    return stokes / den


def o_psd(o, gamma0, f, fc, D, g):
    if not o["hydro"]:
        return D / (math.pi**2 * (f * f + fc * fc)) * g
    r = o["d"] * 1e-6 / 2
    l = None if o["dist"] is None else o["dist"] * 1e-6
    rho = 997.0 if o["rho_s"] is None else o["rho_s"]
    z = o_complex_drag(f, gamma0, rho, r, l)
    fm = gamma0 / (2 * math.pi * (4 / 3 * math.pi * r**3 * o["rho_b"]))
    return D / math.pi**2 * z.real / ((fc + f * z.imag - f * f / fm) ** 2 + (f * z.real) ** 2) * g


def o_gdiode(f, fd, al):
    return al * al + (1 - al * al) / (1 + (f / fd) ** 2)


def o_filter_value(o, fixed, f, pars):
    """value of the parasitic filter with fitted values placed at the non-fixed positions in order"""
    if fixed is None:
        if o["fast"]:
            return 1.0
        if len(pars) != 2:
            return "TypeError"
        return o_gdiode(f, pars[0], pars[1])
    free = [i for i, v in enumerate(fixed) if v is None]
    if len(pars) != len(free):
        return None  # NumPy broadcasting / shape errors: left to the model comparison
    vals = list(fixed)
    for i, v in zip(free, pars):
        vals[i] = v
    return o_gdiode(f, vals[0], vals[1])


def oracle(case, ia):
    k = case["op"]
    if ia and all(a == "?" for a in ia):
        return None  # the case could not be set up (see Unreachable): no observation, no verdict
    try:
        return _oracle(case, ia, k)
    except (ValueError, ZeroDivisionError, OverflowError, IndexError) as e:
        return f"oracle-could-not-evaluate: {type(e).__name__} {e} on {ia[:1]}"


def _oracle(case, ia, k):
    if k in ("passive", "psd", "active"):
        o = case["o"]
        fixed = case.get("fixed")
        want = o_valid(o, fixed)
        ans = ia[0]
        if want is not None:
            return None if ans == want else f"validation: configuration must be rejected with {want}, implementation answered {ans[:80]}"
        if k == "active" and o["axial"]:
            return None
        if not ans.startswith("ok"):
            if k == "passive":
                return f"valid configuration rejected: {ans}"
            # psd/active: errors are legitimate only for a wrong number of filter parameters
            fv = o_filter_value(o, fixed, 1.0, case["pars"])
            if fv is None or isinstance(fv, str):
                return None
            return f"valid configuration and parameters rejected: {ans}"
    if k == "passive":
        o = case["o"]
        rd, kappa, rf, gamma0, ek, erd, drag, corr, tolocal = parse_floats(ia[0].split(" ")[2])
        eta = o["visc"]
        bulk = o["drag"] if o.get("drag") else (3 * math.pi * eta * o["d"] * 1e-6 if eta is not None else gamma0)
        if not rel_ok(gamma0, bulk):
            return f"bulk-drag: reported {gamma0} but 3 pi eta d (or the transferred drag) is {bulk}"
        gamma = bulk * o_correction(o)
        kT = KB * (o["temp"] + 273.15)
        fc, D = case["fc"], case["D"]
        if not rel_ok(kappa * 1e-3, 2 * math.pi * gamma * fc):
            return f"kappa-identity[{branch_of(o)}]: kappa={kappa * 1e-3} N/m but 2 pi gamma fc={2 * math.pi * gamma * fc} (gamma={gamma})"
        if not rel_ok(rd * 1e-6, math.sqrt(kT / (gamma * D))):
            return f"Rd-identity[{branch_of(o)}]: Rd={rd * 1e-6} m/V but sqrt(kT/(gamma D))={math.sqrt(kT / (gamma * D))}"
        if not rel_ok(rf * 1e-12, rd * 1e-6 * kappa * 1e-3):
            return f"Rf-identity: Rf={rf * 1e-12} N/V but Rd kappa={rd * 1e-6 * kappa * 1e-3}"
        # Gaussian error propagation: |d kappa / d fc| sigma_fc and |d Rd / d D| sigma_D
        if not rel_ok(ek * 1e-3, 2 * math.pi * gamma * case["efc"]):
            return f"err-kappa: {ek * 1e-3} but |dkappa/dfc| sigma_fc = {2 * math.pi * gamma * case['efc']}"
        if not rel_ok(erd * 1e-6, 0.5 * math.sqrt(kT / gamma) * D**-1.5 * case["eD"]):
            return f"err-Rd: {erd * 1e-6} but |dRd/dD| sigma_D = {0.5 * math.sqrt(kT / gamma) * D ** -1.5 * case['eD']}"
        return None
    if k == "active":
        o = case["o"]
        vals = parse_floats(ia[0].split(" ")[2])
        rd, kappa, rf, gamma0, gex, glocal, pexp, pth, epth, ek, erd = vals
        kT = KB * (o["temp"] + 273.15)
        fc, D = case["fc"], case["D"]
        if not (pexp > 0 and pth > 0):
            return None  # driving peak not above the thermal background: outside the property's premise
        gamma = gex * o_correction(o)  # measured (local) drag
        if not rel_ok(kappa * 1e-3, 2 * math.pi * gamma * fc):
            return f"kappa-identity[active,{branch_of(o)}]: kappa={kappa * 1e-3} but 2 pi gamma fc={2 * math.pi * gamma * fc}"
        if not rel_ok(rd * 1e-6, math.sqrt(kT / (gamma * D))):
            return f"Rd-identity[active,{branch_of(o)}]: Rd={rd * 1e-6} but sqrt(kT/(gamma D))={math.sqrt(kT / (gamma * D))}"
        if not rel_ok(rf * 1e-12, rd * 1e-6 * kappa * 1e-3):
            return f"Rf-identity[active]: Rf={rf * 1e-12} but Rd kappa={rd * 1e-6 * kappa * 1e-3}"
        if not rel_ok(rd * 1e-6, math.sqrt(pth / pexp)):
            return f"Rd-power-ratio: Rd={rd * 1e-6} but sqrt(P_theory/P_exp)={math.sqrt(pth / pexp)}"
        loc = 1.0
        if o["hydro"] and o["dist"] is not None:
            loc = 1.0 / (1 - 9 / 16 * (o["d"] / 2) / o["dist"])
        if not rel_ok(glocal, gamma * loc):
            return f"local-drag: {glocal} but measured drag x wall factor = {gamma * loc}"
        return None
    if k == "psd":
        o = case["o"]
        fixed = case.get("fixed")
        fv = o_filter_value(o, fixed, case["f"], case["pars"])
        if fv is None:
            return None
        ans = ia[0]
        if isinstance(fv, str):
            return None if ans == fv else f"filter-parameters: expected {fv}, got {ans[:60]}"
        eta = o["visc"]
        if eta is None:
            return None  # viscosity of water: compared with the model only
        gamma0 = 3 * math.pi * eta * o["d"] * 1e-6
        exp = o_psd(o, gamma0, case["f"], case["fc"], case["D"], fv)
        got = dec_float(ans.split(" ")[1])
        return None if rel_ok(got, exp, 1e-8) else f"spectrum-model[{branch_of(o)}]: model(f)={got} but the formula gives {exp}"
    if k == "filter":
        return None
    if k == "route":
        fd, al = case["fixed"]
        bad = (al is not None and not 0 <= al <= 1) or (fd is not None and fd <= 0)
        if bad:
            return None if ia[1] == "ValueError" else f"fixed-diode-validation: expected ValueError, got {ia[1][:60]}"
        free = [i for i, v in enumerate(case["fixed"]) if v is None]
        pars = case["pars"]
        if len(pars) != len(free):
            if len(pars) == 1:
                return None  # NumPy broadcast of a single value: not covered by the property text
            return None if ia[1] == "ValueError" else f"routing: {len(pars)} values for {len(free)} free positions must be an error, got {ia[1][:60]}"
        vals = list(case["fixed"])
        for i, v in zip(free, pars):
            vals[i] = v
        exp0 = "ok [" + ",".join(enc_float(v) for v in vals) + "]"
        if ia[0] != "?" and ia[0] != exp0:
            return f"routing: filter evaluated at {ia[0]} instead of fixed values with fitted ones in order {exp0}"
        for a, f in ((ia[1], case["f"]), (ia[2], route_f2(case))):
            if not a.startswith("ok "):
                return f"routing: valid fixed pattern and parameter count rejected: {a[:60]}"
            got = dec_float(a.split(" ")[1])
            exp = o_gdiode(f, vals[0], vals[1])
            if not rel_ok(got, exp):
                return f"routing-value: g_diode({f})={got}, expected {exp} (fixed values with the fitted ones in order)"
        return None
    if k == "anl":
        if not ia[0].startswith("ok"):
            return None if not case.get("exact") else f"analytical fit failed on an exact Lorentzian: {ia[0]}"
        if not case.get("exact"):
            return None
        fc, D, sfc, sD = parse_floats(ia[0].split(" ")[1])
        fc0, D0 = case["exact"]["fc"], case["exact"]["D"]
        tol = case["exact"]["tol"]
        if not rel_ok(fc, fc0, tol):
            return f"analytical-fit-exactness: fc={fc} on a noise-free Lorentzian with fc={fc0}"
        if not rel_ok(D, D0, tol):
            return f"analytical-fit-exactness: D={D} on a noise-free Lorentzian with D={D0}"
        return None
    if k == "fit":
        return oracle_fit(case, ia)
    if k == "calib":
        return oracle_calib(case, ia)
    if k == "drive":
        return oracle_drive(case)
    return None


def oracle_fit(c, ia):
    """EXPLORATION: recovery by the optimiser inside the conditioning box + deterministic consequences"""
    info = _cache.get(("fit", case_key(c)))
    if info is None:
        return f"fit-failed: {ia[0]} inside the conditioning box"
    n = c["nblock"]
    # bias correction (deterministic): D and its error are n/(n+1) times the uncorrected ones, fc untouched
    if not rel_ok(info["D"], info["D0"] * n / (n + 1)) or not rel_ok(info["eD"], info["eD0"] * n / (n + 1)):
        return f"bias-correction: D={info['D']} but n/(n+1) x uncorrected = {info['D0'] * n / (n + 1)}"
    if not rel_ok(info["fc"], info["fc0"]):
        return "bias-correction: corner frequency changed by the bias correction"
    o = c["o"]
    kT = KB * (o["temp"] + 273.15)
    eta = o["visc"]
    if eta is not None:
        gamma = (o["drag"] if o.get("drag") else 3 * math.pi * eta * o["d"] * 1e-6) * o_correction(o)
        if not rel_ok(info["kappa"] * 1e-3, 2 * math.pi * gamma * info["fc"]):
            return f"kappa-identity[fit,{branch_of(o)}]: kappa={info['kappa'] * 1e-3}, 2 pi gamma fc={2 * math.pi * gamma * info['fc']}"
        if not rel_ok(info["Rd"] * 1e-6, math.sqrt(kT / (gamma * info["D"]))):
            return f"Rd-identity[fit,{branch_of(o)}]: Rd={info['Rd'] * 1e-6}, sqrt(kT/(gamma D))={math.sqrt(kT / (gamma * info['D']))} (D must be the bias-corrected one)"
        if not rel_ok(info["Rf"] * 1e-12, info["Rd"] * 1e-6 * info["kappa"] * 1e-3):
            return "Rf-identity[fit]"
    # fixed diode parameters are reported unchanged
    fixed = c.get("fixed")
    if fixed is not None:
        for want, got, nm in zip(fixed, info["fixed_reported"], ("f_diode", "alpha")):
            if want is not None and (got is None or not rel_ok(got, want)):
                return f"fixed-diode: {nm} fixed at {want} but reported {got}"
    # goodness of fit (exploration): data drawn from the model with the theoretical noise gives chi^2/dof ~ 1
    if c["noisy"]:
        dof = c["npts"] - 2 - len(info["names"])
        if not abs(info["chi2"] - 1.0) <= 6.0 * math.sqrt(2.0 / dof) + 0.1:
            return f"chi-squared[exploration]: chi^2/dof={info['chi2']} for {dof} degrees of freedom on data with the theoretical noise"
    clause = fit_recovery_clause(c, info, o, n)
    if clause is None or not c["noisy"]:
        return clause
    # noisy spectra: only a miss on three noise realisations of the same configuration is reported (see oracle_calib)
    for k in (1, 2):
        c2 = dict(c, subseed=int(c["subseed"]) + 7919 * k)
        try:
            impl_fit(c2)
        except Exception:  # noqa: BLE001
            continue
        info2 = _cache.get(("fit", case_key(c2)))
        if info2 is not None and fit_recovery_clause(c2, info2, o, n) is None:
            return None
    return clause + " [missed on 3 of 3 noise realisations]"


def fit_recovery_clause(c, info, o, n):
    # recovery (exploration)
    truth = {"fc": c["fc"], "D": c["D"] * (n / (n + 1) if not c["noisy"] else 1.0), "f_diode": c["fdiode"], "alpha": c["alpha"]}
    est = {"fc": info["fc"], "D": info["D"]}
    err = {"fc": info["efc"], "D": info["eD"]}
    for nm, v, e in zip(info["names"], info["pars"], info["epars"]):
        est[nm], err[nm] = v, e
    for nm in est:
        if c["noisy"]:
            # z-scores measured on 1350 fits: mean 0.02-0.05, std 0.93-1.01, max 5.2 (gamma noise with n=20 is skewed)
            tol = 10.0 * err[nm] + 1e-3 * abs(truth[nm])
            if nm in ("alpha", "f_diode"):
                # with f_c far below the diode roll-off the two diode parameters are barely identifiable from ~200
                # noisy points: the fit may run alpha onto its bound and report a zero standard error (soak seed
                # 20).  Coarse band here; their exact recovery is asserted on the noise-free spectra below.
                tol += 0.3 if nm == "alpha" else 0.3 * abs(truth[nm])
        else:
            # measured: relative error <= 1e-10 on 1350 noise-free fits
            tol = 1e-7 * abs(truth[nm])
        if not abs(est[nm] - truth[nm]) <= tol:
            return (
                f"recovery[exploration,{branch_of(o)},{'noisy' if c['noisy'] else 'noise-free'}]: {nm}={est[nm]} vs generating "
                f"{truth[nm]} (reported std err {err[nm]}, tolerance {tol})"
            )
    return None


def oracle_calib(c, ia):
    """the identities on what lk.calibrate_force reports + EXPLORATION of the recovery through the public path"""
    info = _cache.get(("calib", case_key(c)))
    want = o_valid(c["o"], c.get("fixed"))
    if want is not None:
        # the entry point builds the model from its keyword arguments: what the constructor rejects, it rejects
        return None if ia[0] == want else f"calibrate_force: validation: configuration must be rejected with {want}, implementation answered {ia[0][:80]}"
    if info is None or not ia[0].startswith("ok"):
        return f"calibrate_force failed inside the conditioning box: {ia[0]}"
    sub = dict(c)
    sub["op"] = "active" if c.get("a") is not None else "passive"
    sub.update(fc=info["fc"], D=info["D"], efc=info["efc"], eD=info["eD"], pars=info["pars"])
    clause = _oracle(sub, ia, sub["op"])
    if clause:
        return "calibrate_force: " + clause
    # fixed diode parameters stay fixed: reported unchanged, and only fc, D and the free ones were fitted
    fixed = c.get("fixed")
    if fixed is not None:
        for want, got, nm in zip(fixed, info["fixed_reported"], ("f_diode", "alpha")):
            if want is not None and (got is None or not rel_ok(got, want)):
                return f"calibrate_force: fixed-diode: {nm} fixed at {want} but reported {got}"
    if info["n_fitted"] != 2 + len(info["names"]):
        return f"calibrate_force: {info['n_fitted']} fitted parameters, expected fc, D and {info['names']}"
    clause = calib_recovery_clause(c, info)
    if clause is None:
        return None
    # a miss on ONE noisy record can be that record (a second minimum of the noisy cost surface: soak seed 48, fc 27
    # reported standard errors off with a drive at 81 Hz); a defect in the code misses on every record.  The same
    # configuration is therefore calibrated on two more noise realisations and only a miss on all three is reported.
    for k in (1, 2):
        c2 = dict(c, subseed=int(c["subseed"]) + 7919 * k)
        try:
            impl_calib(c2)
        except Exception:  # noqa: BLE001
            continue
        info2 = _cache.get(("calib", case_key(c2)))
        if info2 is not None and calib_recovery_clause(c2, info2) is None:
            return None
    return clause + " [missed on 3 of 3 noise realisations]"


def calib_recovery_clause(c, info):
    n = info["nblock_used"]
    truth = {"fc": c["fc"], "D": c["D"], "f_diode": c["fdiode"], "alpha": c["alpha"]}
    est = {"fc": info["fc"], "D": info["D"]}
    err = {"fc": info["efc"], "D": info["eD"]}
    for nm, v, e in zip(info["names"], info["pars"], info["epars"]):
        est[nm], err[nm] = v, e
    for nm in est:
        # block averaging a curved spectrum biases the estimates by O((block width / fc)^2): 3 % allowance
        tol = 10.0 * err[nm] + 3e-2 * abs(truth[nm])
        if nm in ("alpha", "f_diode"):
            # on a ~1 s noisy record the diode parameters trade off against each other and the reported standard
            # error underestimates that (soak seed 4: 34 sigma on alpha with fc and D on target): they are held to
            # a coarse band here; their exact recovery is asserted on the noise-free spectra (1e-7)
            tol += 0.3 if nm == "alpha" else 0.3 * abs(truth[nm])
        if not abs(est[nm] - truth[nm]) <= tol:
            return (
                f"recovery[exploration,calibrate_force,{branch_of(c['o'])}]: {nm}={est[nm]} vs generating {truth[nm]} "
                f"(reported std err {err[nm]}, tolerance {tol}, n={n})"
            )
    return None


def oracle_drive(c):
    """EXPLORATION: the Gaussian-window FFT estimator recovers amplitude and frequency"""
    both = _cache.get(("drive", case_key(c)))
    if both is None:
        return "drive: no result"
    if c.get("scope"):
        # small scope of the peak search: two tones / peak outside the range - the recovery clause does not apply; what
        # the property text does determine: an answer lies inside the search range the caller asked for
        for route in ("direct", "public"):
            r = both[route]
            if r is not None and "error" not in r and not abs(r["freq"] - c["guess"]) <= c.get("f_search", 5.0) * (1 + 1e-12):
                return f"driving-peak: frequency {r['freq']} returned outside the search range {c['guess']} +- {c.get('f_search', 5.0)} Hz"
        return None
    for route in ("direct", "public"):
        r = both[route]
        if r is None:
            continue  # the direct tie is gone (module moved): the public route still speaks
        clause = drive_clause(c, r)
        if clause:
            return clause + (" [through lk.ActiveCalibrationModel]" if route == "public" else "")
    return None


def drive_clause(c, r):
    if "error" in r:
        return f"driving-peak[exploration]: {r['error']} for a sinusoid at {c['f']} Hz (guess {c['guess']})"
    dur = c["n"] / c["rate"]
    nrel = c["noise"] / c["amp"]
    # measured on 600 signals: errors are ~N(0, (3 nrel/sqrt(n))^2) relative (amplitude) and the same /duration
    # (frequency); noise-free floor 2.6e-6 (amplitude), 1.3e-6/duration (frequency).  Tolerance = 10 sigma + 8 x floor.
    ftol = (30.0 * nrel / math.sqrt(c["n"]) + 1e-5) / dur
    atol = (30.0 * nrel / math.sqrt(c["n"]) + 2e-5) * c["amp"]
    if not abs(r["freq"] - c["f"]) <= ftol:
        return f"driving-peak[exploration]: frequency {r['freq']} vs {c['f']} (tolerance {ftol})"
    if not abs(r["amp"] - c["amp"]) <= atol:
        return f"driving-peak[exploration]: amplitude {r['amp']} vs {c['amp']} (tolerance {atol})"
    return None


# ------------------------------------------------------------------ bookkeeping


def nontrivial(case, ia):
    k = case["op"]
    if ia and all(a == "?" for a in ia):
        return False  # nothing was observed
    if k in ("passive", "psd", "active", "filter"):
        if ia[0].startswith("ok"):
            # the model was constructed and every reported number is finite (NaN only for an undefined P_exp error)
            vals = [x for tok in ia[0].split(" ")[1:] if tok.startswith("[") for x in parse_floats(tok)]
            return all(x is None or math.isfinite(x) or math.isnan(x) for x in vals)
        # a rejection counts when the configuration is outside the documented domain or the parameter count is wrong
        return k == "filter" or o_valid(case["o"], case.get("fixed")) is not None or case.get("stream") == "malformed"
    if k == "route":
        return True
    if k == "anl":
        return ia[0].startswith("ok")
    if k == "fit":
        return ia[1].startswith("ok")
    if k == "calib":
        return ia[0].startswith("ok") or o_valid(case["o"], case.get("fixed")) is not None
    if k in ("drive", "fitval", "bounds", "calibval", "lloss"):
        return True
    return False


def tags(case, r):
    t = {"op": case["op"]}
    if "o" in case:
        t["branch"] = branch_of(case["o"])
        t["hydro"] = bool(case["o"]["hydro"])
    if case["op"] in ("fit", "calib"):
        # mechanism of finding F-C11-1: the optimiser ends on the lower bound fc = 0 (a local minimum)
        info = _cache.get((case["op"], case_key(case)))
        t["explored_fit"] = True
        t["fc_collapsed_to_lower_bound"] = bool(info is not None and info["fc"] < 1e-6 * case["fc"])
    return t


def shrink(case):
    k = case["op"]
    if k in ("passive", "psd", "active"):
        o = case["o"]
        for key, val in (("drag", None), ("visc", 0.001), ("rho_s", None), ("fast", False)):
            if o.get(key) != val:
                c = dict(case)
                c["o"] = dict(o)
                c["o"][key] = val
                yield c
        if case.get("fixed") is not None and k != "psd":
            c = dict(case)
            c["fixed"] = None
            c["pars"] = default_pars(o, None)
            yield c
    if k == "anl" and len(case["fs"]) > 3:
        for cut in (slice(0, len(case["fs"]) // 2), slice(1, None), slice(0, -1)):
            c = dict(case)
            c["fs"] = case["fs"][cut]
            c["ps"] = case["ps"][cut]
            yield c


def hydro_identifiability_det(c):
    """the hypothesis of rational_spectrum_recovery_unique on the spectrum of a hydrodynamic fit case: determinant of the
    rows (B^2 + C, B, 1) at the first, middle and last frequency, relative to the sum of the absolute values of its terms"""
    o = c["o"]
    eta = o["visc"]
    if eta is None:
        return None
    gamma0 = 3 * math.pi * eta * o["d"] * 1e-6
    r = o["d"] * 1e-6 / 2
    l = None if o["dist"] is None else o["dist"] * 1e-6
    rho = 997.0 if o["rho_s"] is None else o["rho_s"]
    fm = gamma0 / (2 * math.pi * (4 / 3 * math.pi * r**3 * o["rho_b"]))
    f = fit_grid(c)
    rows = []
    for x in (f[0], f[len(f) // 2], f[-1]):
        z = o_complex_drag(float(x), gamma0, rho, r, l)
        B = x * (z.imag - x / fm)
        rows.append((B * B + (x * z.real) ** 2, B))
    (w1, b1), (w2, b2), (w3, b3) = rows
    terms = [w1 * b2, -w1 * b3, -b1 * w2, b1 * w3, w2 * b3, -w3 * b2]
    return abs(sum(terms)) / max(sum(abs(v) for v in terms), 1e-300)


def extra_coverage(results):
    cov = {"by_op": {}, "by_branch": {}, "errors": {}, "exploration": {}}
    for r in results:
        c = r["case"]
        cov["by_op"][c["op"]] = cov["by_op"].get(c["op"], 0) + 1
        if "o" in c:
            b = branch_of(c["o"]) + ("/active" if c["op"] == "active" else "") + ("/fit" if c["op"] == "fit" else "") + ("/calibrate_force" if c["op"] == "calib" else "")
            cov["by_branch"][b] = cov["by_branch"].get(b, 0) + 1
        for a in r["impl"]:
            if not (a.startswith("ok") or a.startswith("b")):
                cov["errors"][a] = cov["errors"].get(a, 0) + 1
    fits = [r for r in results if r["case"]["op"] == "fit"]
    cov["exploration"] = {
        "label": "optimiser recovery (fit_power_spectrum) and FFT driving-peak estimator are EXPLORED, not proved",
        "fits": len(fits),
        "fits_noisy": sum(1 for r in fits if r["case"]["noisy"]),
        "fits_fixed_diode": sum(1 for r in fits if r["case"].get("fixed") is not None),
        "fits_hydro": sum(1 for r in fits if r["case"]["o"]["hydro"]),
        "drive_estimates": sum(1 for r in results if r["case"]["op"] == "drive"),
        "calibrate_force_runs": sum(1 for r in results if r["case"]["op"] == "calib"),
        "calibrate_force_active": sum(1 for r in results if r["case"]["op"] == "calib" and r["case"].get("a") is not None),
        "calibrate_force_option_matrix": sum(1 for r in results if r["case"].get("stream") == "matrix-calibrate_force"),
        "calibrate_force_axial_near_surface": sum(
            1 for r in results if r["case"]["op"] == "calib" and r["case"]["o"]["axial"] and r["case"]["o"]["dist"] and not r["case"]["o"]["hydro"]
        ),
        "calibrate_force_rejections": sum(1 for r in results if r["case"]["op"] == "calib" and not r["impl"][0].startswith("ok")),
    }
    drv = [r for r in results if r["case"]["op"] == "drive"]
    dbr = {}
    for r in drv:
        a = r["impl"][0] if r["impl"] else "?"
        key = "ok" if a.startswith("ok") else a
        dbr[key] = dbr.get(key, 0) + 1
    cov["deepening_D"] = {
        "chi2_objective_ties": sum(1 for r in fits if len(r["impl"]) > 3 and r["impl"][3].startswith("ok")),
        "chi2_objective_ties_hydro": sum(1 for r in fits if len(r["impl"]) > 3 and r["impl"][3].startswith("ok") and r["case"]["o"]["hydro"]),
        "chi2_objective_ties_noise_free": sum(1 for r in fits if len(r["impl"]) > 3 and r["impl"][3].startswith("ok") and not r["case"]["noisy"]),
        "fit_validation_scope(impl answers)": {
            k: sum(1 for r in results if r["case"]["op"] == "fitval" and r["impl"][0] == k) for k in ("ok", "RuntimeError", "ValueError", "TypeError")
        },
        "active_cases_with_model_side_peak_search(np.argmax of DrivenPower)": sum(
            1 for r in results if r["ops"] and r["ops"][0].startswith("c11.active") and r["ops"][0].rstrip().endswith("]") and r["ops"][0].count("[") >= 2
        ) if results and "ops" in results[0] else "n/a",
        "calibrate_force_refusal_scope(impl answers)": {
            k: sum(1 for r in results if r["case"]["op"] == "calibval" and r["impl"][0] == k)
            for k in sorted({r["impl"][0] for r in results if r["case"]["op"] == "calibval"})
        },
        "calibrate_force_filter_shapes(impl)": {
            k: sum(1 for r in results if r["case"]["op"] == "calib" and len(r["impl"]) > 1 and " ".join(x.split("=")[0] for x in r["impl"][1].split(" ")) == k)
            for k in sorted({" ".join(x.split("=")[0] for x in r["impl"][1].split(" ")) for r in results if r["case"]["op"] == "calib" and len(r["impl"]) > 1})
        },
        "hydro_identifiability_determinant(relative, hypothesis of rational_spectrum_recovery_unique)": (
            lambda ds: {"cases": len(ds), "min": min(ds) if ds else None, "nonzero": sum(1 for d in ds if d > 1e-9)}
        )([d for d in (hydro_identifiability_det(r["case"]) for r in fits if r["case"]["o"]["hydro"]) if d is not None]),
        "drive_estimator_ties": len(drv),
        "drive_estimator_scope_cases": sum(1 for r in drv if r["case"].get("scope")),
        "drive_estimator_branches(impl)": dict(sorted(dbr.items())),
        "drive_estimator_branches(model)": {
            k: sum(1 for r in drv if r["model"] and (r["model"][0].split(" ")[0] if not r["model"][0].startswith("ok") else "ok") == k)
            for k in ("ok", "RuntimeError", "IndexError", "unmodelled-wraparound")
        },
    }
    anl = [r for r in results if r["case"]["op"] == "anl"]
    br = {"a/b>0,b>0 (regular)": 0, "a/b<=0 (fc fall-back)": 0, "b<=0 (D fall-back)": 0, "singular": 0}
    illcond = 0
    for r in anl:
        tm = r["model"][0].split(" ")
        if tm[0] != "ok":
            br["singular"] += 1
            continue
        a, b, sa, sb = (dec_rat(x) for x in tm[1:5])
        if b <= 0:
            br["b<=0 (D fall-back)"] += 1
        if b == 0 or a / b <= 0:
            br["a/b<=0 (fc fall-back)"] += 1
        if b > 0 and a / b > 0:
            br["a/b>0,b>0 (regular)"] += 1
        if (a != 0 and float(sa / abs(a)) * 1e-9 > 1e-3) or (b != 0 and float(sb / abs(b)) * 1e-9 > 1e-3):
            illcond += 1
    cov["analytical_fit"] = {
        "cases": len(anl),
        "exact_lorentzians": sum(1 for r in anl if r["case"].get("exact")),
        "sizes": sorted({len(r["case"]["fs"]) for r in anl})[:40],
        "branches": br,
        "dropped_for_margin": f"{illcond} cases so ill-conditioned (1e-9 x scale > 1e-3 |value|) that only a, b (through the fitted "
        "spectrum) were compared, not fc/D/sigma",
    }
    cov["private_ties"] = {
        "label": "private names the harness observes only while reachable (False: renamed/moved - the public ties carry on)",
        **dict(sorted(_reach.items())),
    }
    cov["generator_margins"] = (
        "axial models: surface distance >= 1.001 radii (Brenner denominator vanishes at contact, condition number 1/(1-R/h)); "
        "fit exploration: fixed alpha inside 0.1-0.8 (alpha = 0 or 1 makes f_diode unidentifiable); active: driving peak at "
        "least 3x above the thermal background"
    )
    return cov


# ------------------------------------------------------------------ generators


def base_opts(**kw):
    o = {"d": 1.0, "visc": 0.001, "temp": 20.0, "hydro": False, "dist": None, "rho_s": None, "rho_b": 1060.0, "fast": False, "axial": False, "drag": None}
    o.update(kw)
    return o


def rand_opts(rng, active=False):
    d = rng.choice([0.2, 8.0, rng.loguniform(0.2, 8.0), rng.loguniform(0.2, 8.0)])
    hydro = rng.chance(0.4)
    axial = (not hydro) and (not active) and rng.chance(0.35)
    kind = rng.randint(0, 3)
    if kind == 0:
        dist = None
    else:
        lim = 0.75 * d if hydro else 0.5 * d
        if kind == 1:
            # axial: the Brenner denominator vanishes at contact (condition number ~ 1/(1 - R/h)), keep 1e-3 away
            dist = lim * rng.choice([1.001 if axial else 1.0 + 1e-9, 1.001, 1.05, 1.3])
        else:
            dist = lim * rng.loguniform(1.001, 20.0)
    o = base_opts(
        d=d,
        visc=None if rng.chance(0.35) else rng.loguniform(0.00031, 0.01),
        temp=rng.choice([10.0, 60.0, rng.uniform(10.0, 60.0), rng.uniform(5.001, 89.999)]),
        hydro=hydro,
        dist=dist,
        rho_s=None if rng.chance(0.5) else rng.uniform(100.0, 1500.0),
        rho_b=rng.choice([1060.0, rng.uniform(100.0, 3000.0)]),
        fast=rng.chance(0.3),
        axial=axial,
        drag=None if (active or rng.chance(0.75)) else rng.loguniform(1e-9, 1e-7),
    )
    return o


def rand_fixed(rng, o):
    if o["fast"] or rng.chance(0.5):
        return None
    pat = rng.randint(0, 3)
    fd = rng.uniform(5000.0, 20000.0) if pat & 1 else None
    al = rng.choice([0.0, 1.0, rng.uniform(0.1, 0.8)]) if pat & 2 else None
    return [fd, al]


def rand_fit_values(rng):
    fc = rng.choice([300.0, 6000.0, rng.loguniform(300.0, 6000.0), rng.loguniform(300.0, 6000.0)])
    D = rng.loguniform(1e-3, 1.0) * rng.choice([1.0, 1.0, 1e-3, 1e3])
    return {"fc": fc, "D": D, "efc": fc * rng.loguniform(1e-4, 0.2), "eD": D * rng.loguniform(1e-4, 0.2)}


def malformed_opts(rng):
    """configurations on both sides of every validity limit of the constructor"""
    out = []
    for d in (0.0099999, 0.01, 0.0100001):
        out.append(base_opts(d=d))
    for frac in (0.4999999, 0.5, 0.5000001):
        out.append(base_opts(d=2.0, dist=2.0 * frac))
        out.append(base_opts(d=2.0, dist=2.0 * frac, axial=True))
    for v in (0.0003, 0.00030000001, 0.0002, -1.0, 0.0):
        out.append(base_opts(visc=v))
    for t in (5.0, 5.0000001, 90.0, 89.99999, -3.0, 120.0):
        out.append(base_opts(temp=t))
        out.append(base_opts(temp=t, visc=None))
    out.append(base_opts(hydro=True, axial=True))
    out.append(base_opts(hydro=True, axial=True, d=0.001))
    for frac in (0.7499999, 0.75, 0.7500001, 0.6, 0.45):
        out.append(base_opts(hydro=True, d=2.0, dist=2.0 * frac))
    for r in (99.999, 100.0, 100.001):
        out.append(base_opts(hydro=True, rho_s=r))
        out.append(base_opts(hydro=True, rho_b=r))
        out.append(base_opts(hydro=False, rho_s=r, rho_b=r))
    out.append(base_opts(dist=0.0, d=1.0))
    out.append(base_opts(dist=-1.0, d=1.0))
    out.append(base_opts(drag=0.0))
    out.append(base_opts(drag=2e-8, hydro=True, dist=3.0))
    return out


def active_signal(rng, o, vals, quick):
    rate = rng.choice([78125.0, 50000.0, 10000.0]) if not quick else rng.choice([10000.0, 20000.0])
    f = rng.choice([17.0, 37.0, rng.uniform(12.0, 90.0)])
    dur = rng.uniform(1.0, 2.5) if quick else rng.uniform(1.0, 5.0)
    n = int(rate * dur)
    nwin = rng.choice([5, 5, 3, 8])
    amp_um = rng.loguniform(0.05, 2.0)
    # response amplitude: the peak must stand above the thermal background by the chosen ratio
    df = f / nwin
    thermal = vals["D"] / (math.pi**2 * (f * f + vals["fc"] ** 2))
    ratio = rng.choice([3.0, 30.0, 1e3, rng.loguniform(3.0, 1e4)])
    volts_amp = math.sqrt(2 * df * thermal * ratio)
    return {
        "rate": rate,
        "n": n,
        "f": f,
        "amp_um": amp_um,
        "phase": rng.uniform(0, 6.28),
        "noise_um": amp_um * rng.choice([0.0, 1e-3, 0.05]),
        "volts_amp": volts_amp,
        "volts_noise": volts_amp * rng.choice([0.0, 0.01, 0.1]),
        "guess": f + rng.uniform(-2.0, 2.0),
        "nwin": nwin,
        "subseed": rng.randint(0, 2**31),
    }


def lorentz_case(rng, stream, quick):
    """an exact Lorentzian 1/(a0 + b0 f^2) on a rational grid, rounded to doubles"""
    n = rng.choice([2, 3, 4, 5, 8, 16, 40]) if quick else rng.choice([2, 3, 4, 5, 8, 16, 40, 100, 250])
    fc0 = rng.choice([300.0, 6000.0, rng.loguniform(300.0, 6000.0)])
    D0 = rng.loguniform(1e-3, 1e3)
    lo = rng.uniform(0.05, 0.5) * fc0
    hi = rng.uniform(2.0, 10.0) * fc0
    q = rng.choice([1, 2, 4, 8, 3, 10])
    fs = sorted({round((lo + (hi - lo) * i / max(n - 1, 1)) * q) / q for i in range(n)})
    if len(fs) < 2:
        fs = [fs[0], fs[0] + 1.0]
    b0 = math.pi**2 / D0
    a0 = b0 * fc0 * fc0
    ps = [1.0 / (a0 + b0 * f * f) for f in fs]
    return {
        "stream": stream,
        "op": "anl",
        "fs": fs,
        "ps": ps,
        "dur": rng.uniform(1.0, 20.0),
        "exact": {"fc": fc0, "D": D0, "tol": 1e-7},
    }


def noisy_anl_case(rng, stream, quick):
    n = rng.choice([3, 4, 6, 12, 40]) if quick else rng.choice([3, 4, 6, 12, 40, 120])
    kind = rng.randint(0, 3)
    fc0 = rng.loguniform(100.0, 6000.0)
    lo = rng.uniform(0.05, 0.5) * fc0
    hi = rng.uniform(2.0, 10.0) * fc0
    fs = [lo + (hi - lo) * (i + rng.uniform(0.0, 0.5)) / n for i in range(n)]
    if rng.chance(0.3):
        # the spectrum starts at the DC bin (strengthening round H: for every kind, so that the fall-back initial guess
        # "half the lowest NON-ZERO frequency" is taken with frequency[0] = 0 too)
        fs[0] = 0.0
    if kind == 0:  # Lorentzian with multiplicative noise
        ps = [rng.loguniform(0.7, 1.4) / (1.0 + (f / fc0) ** 2) for f in fs]
    elif kind == 1:  # rising spectrum: b < 0
        ps = [1e-3 * (1.0 + (f / fc0) ** 2) * rng.loguniform(0.9, 1.1) for f in fs]
    elif kind == 2:  # flat + noise
        ps = [rng.loguniform(0.5, 2.0) for f in fs]
    else:  # steeper than Lorentzian (a < 0 likely)
        ps = [1.0 / (0.05 + (f / fc0) ** 4) for f in fs]
    return {"stream": stream, "op": "anl", "fs": fs, "ps": ps, "dur": rng.uniform(1.0, 20.0)}


def fit_case(rng, stream, quick, noisy):
    o = rand_opts(rng)
    o["axial"] = o["axial"] and rng.chance(0.5)
    fixed = rand_fixed(rng, o)
    fdiode = rng.uniform(5000.0, 20000.0)
    alpha = rng.uniform(0.1, 0.8)
    if fixed is not None:
        if fixed[1] is not None and not 0.1 <= fixed[1] <= 0.8:
            fixed[1] = rng.uniform(0.1, 0.8)  # alpha = 0 or 1 makes f_diode unidentifiable: outside the box
        fdiode = fixed[0] if fixed[0] is not None else fdiode
        alpha = fixed[1] if fixed[1] is not None else alpha
    fmin = 100.0
    fc = rng.loguniform(3 * fmin, min(6000.0, 0.3 * fdiode))
    nblock = rng.choice([20, 2000, rng.randint(20, 2000)])
    npts = rng.randint(150, 300) if quick else rng.randint(150, 900)
    step = (23000.0 - fmin) / npts
    return {
        "stream": stream,
        "op": "fit",
        "o": o,
        "fixed": fixed,
        "fc": fc,
        "D": rng.loguniform(1e-3, 1.0) * rng.choice([1.0, 1e-3, 1e3]),
        "fdiode": fdiode,
        "alpha": alpha,
        "fmin": fmin,
        "step": step,
        "npts": npts,
        "nblock": nblock,
        "dur": nblock / step,
        "noisy": noisy,
        "subseed": rng.randint(0, 2**31),
    }


def calib_case(rng, stream, quick, active):
    c = fit_case(rng, stream, quick, True)
    o = c["o"]
    if active:
        o["axial"] = False
        o["drag"] = None
        if o["dist"] is not None and not o["hydro"]:
            o["dist"] = max(o["dist"], 0.5 * o["d"] * 1.001)
    elif not o["hydro"]:
        # the rarely used option gets its full share here: this is the only stream in which calibrate_force (not the
        # harness) passes it on to the model
        o["axial"] = rng.chance(0.5)
        if o["axial"] and o["dist"] is not None:
            o["dist"] = max(o["dist"], 0.5 * o["d"] * 1.001)
    # strengthening round H: the sample rate and the fit range are drawn too (they used to be 78.125 kHz and an explicit
    # (100 Hz, 23 kHz) on every record, so neither the default range nor a record with a Nyquist frequency below the upper
    # fit limit ever reached calculate_power_spectrum).  A fitted f_diode starts at 14 kHz and is bounded by the Nyquist
    # frequency, so records with a free diode frequency stay at >= 30 kHz; f_diode (fitted) and fc stay inside the band.
    free_fd = "f_diode" in fitted_par_names(c)
    rate = rng.choice([78125.0, 78125.0, 50000.0, 40000.0, 30000.0 if free_fd else 20000.0, float(rng.randint(30000 if free_fd else 20000, 78125))])
    nyq = rate / 2.0
    if free_fd and c["fdiode"] > 0.8 * nyq:
        c["fdiode"] = rng.uniform(5000.0, 0.8 * nyq)
    fc_hi = min(6000.0, 0.3 * nyq, 0.3 * c["fdiode"] if not o["fast"] else 6000.0)
    if c["fc"] > fc_hi:
        c["fc"] = rng.loguniform(300.0, fc_hi)
    fmin = rng.choice([100.0, 100.0, rng.uniform(100.0, c["fc"] / 3.0)])
    need = max(1.15 * c["fdiode"] if free_fd else 0.0, 4.0 * c["fc"])  # the roll-off has to be inside the fitted band
    kind = rng.choice(["default", "default", "explicit", "nyquist", "beyond", "narrow"])
    if kind == "default":
        fit_range, fmin = "default", 100.0
    elif kind == "explicit":
        fit_range = [fmin, 23000.0]
    elif kind == "nyquist":
        fit_range = [fmin, nyq]
    elif kind == "beyond":
        fit_range = [fmin, nyq * rng.uniform(1.0, 2.0)]
    else:
        fit_range = [fmin, rng.uniform(need, max(need, min(23000.0, nyq)))]
    fmax = min(23000.0 if fit_range == "default" else fit_range[1], nyq)
    dur = rng.uniform(1.0, 2.0) if quick else rng.uniform(2.0, 6.0)
    n = 2 * int(rate * dur / 2)
    bins = (fmax - fmin) * (n / rate)
    npts = rng.randint(150, 400)
    c.update(op="calib", rate=rate, n=n, nblock=max(20, int(bins / npts)), fit_range=fit_range)
    for key in ("step", "npts", "dur", "fmin", "noisy"):
        c.pop(key, None)
    if active:
        f = rng.choice([17.0, 37.0, rng.uniform(12.0, 90.0)])
        thermal = c["D"] / (math.pi**2 * (f * f + c["fc"] ** 2))
        ratio = rng.loguniform(30.0, 1e4)
        volts_amp = math.sqrt(2 * (f / 5) * thermal * ratio)
        # the record is not a whole number of drive periods, so the (unwindowed) periodogram carries the skirts of the
        # drive peak, A^2 / (2 pi^2 T df^2) at distance df: a strong drive close to the lower fit limit (100 Hz) lifts
        # the first blocks above the thermal spectrum and the fit is biased on EVERY noise realisation (soak seed 48:
        # 81 Hz, fc 567 instead of 916).  That is the measurement, not the code: the skirt at 100 Hz is kept below 1 %
        # of the thermal level there.
        T = n / rate
        thermal100 = c["D"] / (math.pi**2 * (fmin**2 + c["fc"] ** 2))
        volts_amp = min(volts_amp, math.sqrt(0.01 * thermal100 * 2 * math.pi**2 * T * (fmin - f) ** 2))
        c["a"] = {
            "f": f,
            "amp_um": rng.loguniform(0.05, 2.0),
            "phase": rng.uniform(0, 6.28),
            "volts_amp": volts_amp,
            "guess": f + rng.uniform(-2.0, 2.0),
        }
    return c


def calib_matrix(quick):
    """EVERY combination of the model options through the public entry point lk.calibrate_force (the function builds the
    model from its own keyword arguments, so a model constructed directly says nothing about it): hydro x axial x surface
    distance {none, at the validity limit, far} x transferred drag x filter {diode, fast sensor, fixed f_diode, fixed alpha,
    both fixed} (x bead size x viscosity {given, derived} in the thorough tier), passive and active, on deterministic
    well-conditioned 1 s records (independent of VERIF_SEED).  hydro + axial must be rejected (NotImplementedError)."""
    rate, n = 78125.0, 78124
    truth = {"fc": 1500.0, "D": 0.8, "fdiode": 12000.0, "alpha": 0.45}
    filters = (("diode", False, None), ("fast", True, None), ("fd", False, [12000.0, None]), ("al", False, [None, 0.45]), ("both", False, [12000.0, 0.45]))
    idx = 0
    for d, visc in itertools.product((1.2,) if quick else (1.2, 4.4), (0.0009,) if quick else (0.0009, None)):
        for active, hydro, axial, dk, drag, (_, fast, fixed) in itertools.product(
            (False, True), (False, True), (False, True), (0, 1, 2), (None, 1.12e-8 * d / 1.2), filters
        ):
            if active and (axial or drag is not None):
                continue  # refused by calibrate_force itself; not part of the property
            idx += 1
            lim = (0.75 if hydro else 0.5) * d
            dist = None if dk == 0 else (lim * (1.0 + (1e-3 if (axial or active) else 1e-6)) if dk == 1 else 2.5 * d)
            o = base_opts(d=d, visc=visc, temp=25.0, hydro=hydro, axial=axial, dist=dist, fast=fast, drag=drag)
            c = {
                "stream": "matrix-calibrate_force",
                "op": "calib",
                "o": o,
                "fixed": None if fixed is None else list(fixed),
                **truth,
                "nblock": 100,
                "rate": rate,
                "n": n,
                "subseed": 1000 + idx,
            }
            if active:
                f = 37.0
                thermal = truth["D"] / (math.pi**2 * (f * f + truth["fc"] ** 2))
                c["a"] = {"f": f, "amp_um": 0.5, "phase": 1.0, "volts_amp": math.sqrt(2 * (f / 5) * thermal * 1e3), "guess": 36.0}
            yield c
            if drag is None and not hydro and not axial and dk in (0, 2) and fixed is None and not fast:
                # a transferred drag of 0.0 is falsy: `if drag:` must treat it like None (passive: not applied; active: not refused)
                c0 = dict(c, o=dict(o, drag=0.0), subseed=5000 + idx)
                yield c0
    # strengthening round H: sample rate x fit range {keyword left out (documented default 100 Hz - 23 kHz), ends at the
    # Nyquist frequency, ends above it, inside the band} x filter x passive/active on the plain bulk model.  The default range
    # has to work on every record: below 46 kHz its upper limit lies above the Nyquist frequency and the spectrum simply ends
    # there.  (A fitted f_diode starts at 14 kHz and is bounded by the Nyquist frequency: free-diode cells need >= 28 kHz.)
    for rate in (78125.0, 40000.0) if quick else (78125.0, 50000.0, 40000.0, 30000.0):
        nyq = rate / 2.0
        for rk, active, (fname, fast, fixed) in itertools.product(("default", "nyquist", "beyond", "inside"), (False, True), filters):
            if quick and rk in ("nyquist", "inside") and (active or fname in ("fd", "al")):
                continue
            idx += 1
            fr = {"default": "default", "nyquist": [100.0, nyq], "beyond": [100.0, 1.5 * nyq], "inside": [150.0, 0.9 * nyq]}[rk]
            tr = dict(truth, fdiode=min(truth["fdiode"], 0.7 * nyq))
            if fixed is not None and fixed[0] is not None:
                fixed = [tr["fdiode"], fixed[1]]
            o = base_opts(d=1.2, visc=0.0009, temp=25.0, fast=fast)
            c = {
                "stream": "matrix-calibrate_force-rate",
                "op": "calib",
                "o": o,
                "fixed": None if fixed is None else list(fixed),
                **tr,
                "nblock": 60,
                "rate": rate,
                "n": 2 * int(rate / 2),
                "fit_range": fr,
                "subseed": 9000 + idx,
            }
            if active:
                f = 37.0
                thermal = tr["D"] / (math.pi**2 * (f * f + tr["fc"] ** 2))
                c["a"] = {"f": f, "amp_um": 0.5, "phase": 1.0, "volts_amp": math.sqrt(2 * (f / 5) * thermal * 1e3), "guess": 36.0}
            yield c


def drive_case(rng, stream, quick):
    rate = rng.choice([10000.0, 20000.0]) if quick else rng.choice([10000.0, 50000.0, 78125.0])
    f = rng.choice([17.0, 37.0, rng.uniform(10.0, 120.0)])
    dur = rng.uniform(2.0, 4.0) if quick else rng.uniform(2.0, 8.0)
    amp = rng.loguniform(1e-3, 10.0)
    return {
        "stream": stream,
        "op": "drive",
        "rate": rate,
        "n": int(rate * dur),
        "f": f,
        "amp": amp,
        "phase": rng.uniform(0, 6.28),
        "offset": rng.uniform(-5, 5) * amp,
        "noise": amp * rng.choice([0.0, 1e-3, 0.02, 0.2]),
        "guess": f + rng.uniform(-3.0, 3.0),
        "subseed": rng.randint(0, 2**31),
    }


def lloss_data(case, m):
    """spectrum of a robust-loss case: the model at the generating parameters times a fixed pseudo-noise pattern"""
    f = 150.0 + 380.0 * (np.arange(case["npts"]) + 0.5)
    clean = np.asarray(m(f, *case["scale"]), dtype=float)
    g = np.random.default_rng(case["subseed"])
    return f, clean * g.gamma(case["nblock"], 1.0 / case["nblock"], size=len(f))


def lloss_scope(rng, quick):
    """robust loss: every filter shape x hydro (deterministic), scaled parameters around 1 (seeded)"""
    r = rng.fork("lloss")
    for hydro, (fast, fixed) in itertools.product(
        (False, True), ((False, None), (True, None), (False, [9000.0, None]), (False, [None, 0.25]), (False, [12000.0, 0.5]))
    ):
        for rep in range(2 if quick else 10):
            o = base_opts(d=1.1, visc=0.00095, temp=24.0, hydro=hydro, dist=5.0 if hydro and rep % 2 else None, fast=fast)
            free = [v for v, fx in zip((11000.0, 0.35), fixed or (None, None)) if fx is None] if not fast else []
            scale = [1400.0, 0.04, *free]
            scaled = [1.0 if rep == 0 else r.uniform(0.8, 1.25) for _ in scale]
            if len(scale) == 4 and scaled[3] * scale[3] > 1.0:
                scaled[3] = 1.0
            yield {"stream": "scope-robust-loss", "op": "lloss", "o": o, "fixed": fixed, "npts": 40, "nblock": r.choice([20, 150]), "scale": scale, "scaled": scaled, "subseed": 77 + rep}


def calib_refusal(o, fixed, active, driving, guess):
    """which error the documentation of lk.calibrate_force / the constructors promises for these keyword arguments (None:
    accepted) - used ONLY to select the cases of the refusal scope, never as a verdict"""
    if active and o["axial"]:
        return "ValueError"
    if active and o.get("drag"):
        return "ValueError"
    if fixed is not None and o["fast"]:
        return "ValueError"
    if active and driving != "ok":
        return "ValueError"
    if active and (not guess or guess < 0):
        return "ValueError"
    oo = dict(o, axial=False) if active else o
    return o_valid(oo, fixed)


def calibval_scope():
    """exhaustive small scope of the refusals of lk.calibrate_force (deterministic): every combination of active x axial x
    transferred drag {None, 0, value} x fast sensor x fixed {none, f_diode, alpha} x hydro x (active only) driving data
    {None, empty, given} x frequency guess {None, 0, negative, positive} that has to be refused"""
    for active, axial, drag, fast, fixed, hydro in itertools.product(
        (False, True), (False, True), (None, 0.0, 3.0e-8), (False, True), (None, [9000.0, None], [None, 0.25]), (False, True)
    ):
        o = base_opts(d=1.3, visc=0.001, temp=22.0, hydro=hydro, axial=axial, fast=fast, drag=drag)
        for driving, guess in itertools.product(("none", "empty", "ok"), (None, 0.0, -2.0, 17.0)) if active else ((("none", None),)):
            if calib_refusal(o, fixed, active, driving, guess) is None:
                continue
            yield {"stream": "scope-calibrate_force-refusals", "op": "calibval", "o": o, "fixed": None if fixed is None else list(fixed), "active": active, "driving": driving, "guess": guess}


def fit_scope():
    """deterministic small scope of the objective tie (c11.chi2): hydro x surface x every filter shape x {noise-free, one
    fixed noise realisation}, independent of the seed"""
    for hydro, dist, (fast, fixed), noisy in itertools.product(
        (False, True), (None, 7.0), ((False, None), (True, None), (False, [9000.0, None]), (False, [None, 0.25]), (False, [12000.0, 0.5])), (False, True)
    ):
        o = base_opts(d=1.1, visc=0.00095, temp=24.0, hydro=hydro, dist=dist, fast=fast, rho_s=None)
        fdiode = fixed[0] if fixed is not None and fixed[0] is not None else 11000.0
        alpha = fixed[1] if fixed is not None and fixed[1] is not None else 0.35
        npts = 180
        yield {
            "stream": "scope-fit",
            "op": "fit",
            "o": o,
            "fixed": fixed,
            "fc": 1400.0,
            "D": 0.04,
            "fdiode": fdiode,
            "alpha": alpha,
            "fmin": 100.0,
            "step": (23000.0 - 100.0) / npts,
            "npts": npts,
            "nblock": 150,
            "dur": 150 / ((23000.0 - 100.0) / npts),
            "noisy": noisy,
            "subseed": 12345,
        }


def drive_scope():
    """deterministic small scope of the peak search of estimate_driving_input_parameters (independent of the seed)"""
    rate, n = 10000.0, 20000
    for f in (17.0, 17.25, 36.9):
        for off in (0.0, -4.6, 3.1, 6.2, -7.4, 6000.0):
            for tones in ([], [(f + 2.0, 3.0)], [(f - 1.5, 0.5)]):
                yield {
                    "stream": "scope-drive",
                    "op": "drive",
                    "scope": True,
                    "rate": rate,
                    "n": n,
                    "f": f,
                    "amp": 0.8,
                    "phase": 0.3,
                    "offset": 1.1,
                    "noise": 0.0,
                    "guess": f + off,
                    "tones": [list(t) for t in tones],
                    "subseed": 1,
                }
    # strengthening round H: the search range is OPEN (guess - f_search < f < guess + f_search).  On a dyadic grid (8192 Hz,
    # 16384 samples: bins at exact multiples of 0.5 Hz) a slightly stronger second tone sits exactly on the lower / upper
    # edge bin: it is outside the range, the peak inside the range has to be reported
    for guess, edge in itertools.product((22.0, 18.0), (-5.0, 5.0)):
        yield {
            "stream": "scope-drive",
            "op": "drive",
            "scope": True,
            "rate": 8192.0,
            "n": 16384,
            "f": 20.0,
            "amp": 0.8,
            "phase": 0.3,
            "offset": 1.1,
            "noise": 0.0,
            "guess": guess,
            "tones": [[guess + edge, 1.1]],
            "subseed": 1,
        }
    # rarely used options of the estimator: f_search (width of the search range), window_factor (width of the window)
    for f_search, wf, off in itertools.product((2.0, 9.5), (6, 10, 14), (0.0, 1.7, -2.6, 8.0)):
        yield {
            "stream": "scope-drive",
            "op": "drive",
            "scope": True,
            "rate": rate,
            "n": n,
            "f": 21.3,
            "amp": 0.8,
            "phase": 0.3,
            "offset": 1.1,
            "noise": 0.0,
            "guess": 21.3 + off,
            "tones": [],
            "subseed": 1,
            "f_search": f_search,
            "window_factor": wf,
        }


FIXED_PATTERNS = [None, [9000.0, None], [None, 0.25], [12000.0, 0.5]]


def load_corpus():
    import glob
    import json
    import os

    out = []
    d = os.path.join(os.path.dirname(os.path.dirname(os.path.abspath(__file__))), "corpus", PROP)
    for p in sorted(glob.glob(os.path.join(d, "*.json"))):
        c = json.load(open(p))
        c = c.get("case", c)
        c["stream"] = "corpus"
        out.append(c)
    return out


def cases(tier, rng):
    quick = tier == "quick"
    yield from load_corpus()

    # ---- exhaustive option matrix
    values = [
        {"fc": 300.0, "D": 0.0021, "efc": 3.0, "eD": 1e-5},
        {"fc": 5871.5, "D": 1.37, "efc": 120.0, "eD": 0.2},
    ]
    r_mat = rng.fork("matrix")
    for hydro, axial, dk, visc, fast, drag, fixed in itertools.product(
        (False, True), (False, True), (0, 1, 2), (0.00089, None), (False, True), (None, 3.1e-8), FIXED_PATTERNS
    ):
        d = 4.4
        # near the validity limit (axial: 1e-3 away, the Brenner denominator vanishes at contact) / far
        dist = None if dk == 0 else ((0.75 if hydro else 0.5) * d * (1.0 + (1e-3 if axial else 1e-6)) if dk == 1 else 3.7 * d)
        o = base_opts(d=d, visc=visc, temp=25.0, hydro=hydro, axial=axial, dist=dist, fast=fast, drag=drag, rho_s=None)
        if fast and fixed is not None:
            continue
        for v in values:
            yield {"stream": "matrix", "op": "passive", "o": o, "fixed": fixed, **v}
        pars = default_pars(o, fixed)
        yield {"stream": "matrix", "op": "psd", "o": o, "fixed": fixed, "f": 1234.5, "fc": values[0]["fc"], "D": values[0]["D"], "pars": pars}
        if not axial and drag is None and (not quick or (visc is not None)):
            a = active_signal(r_mat, o, values[1], True)
            yield {"stream": "matrix", "op": "active", "o": o, "fixed": fixed, "a": a, "pars": pars, **values[1]}

    # ---- routing: every fixed pattern x 0..3 parameters (+ invalid fixed values)
    for fixed in ([None, None], [9000.0, None], [None, 0.25], [12000.0, 0.5], [None, 0.0], [None, 1.0]):
        for pars in ([], [7000.0], [0.7], [7000.0, 0.7], [0.7, 7000.0], [1.0, 2.0, 3.0]):
            yield {"stream": "routing", "op": "route", "fixed": fixed, "pars": pars, "f": 4321.0}
    for fixed in ([0.0, None], [-5.0, 0.3], [None, -1e-9], [None, 1.0000001], [1e-300, 1.0], [0.0, 2.0]):
        yield {"stream": "malformed", "op": "route", "fixed": fixed, "pars": [7000.0], "f": 100.0}
    for kind, pars in (("nofilter", []), ("nofilter", [1.0, 2.0, 3.0]), ("diode", [8000.0, 0.3]), ("diode", [8000.0]), ("diode", []), ("diode", [1.0, 0.2, 3.0])):
        yield {"stream": "routing", "op": "filter", "kind": kind, "pars": pars, "f": 2500.0}

    # ---- malformed constructor arguments
    r_mal = rng.fork("malformed")
    for o in malformed_opts(r_mal):
        yield {"stream": "malformed", "op": "passive", "o": o, "fixed": None, **values[0]}
    for o in (base_opts(), base_opts(hydro=True, dist=2.0), base_opts(fast=True)):
        for fixed, pars in ((None, [1.0]), (None, [1.0, 0.5, 2.0]), ([9000.0, None], []), ([9000.0, None], [1.0, 0.2]), ([None, 1.5], [9000.0]), ([-1.0, None], [0.2])):
            yield {"stream": "malformed", "op": "psd", "o": o, "fixed": fixed, "f": 800.0, "fc": 500.0, "D": 0.1, "pars": pars}

    # ---- analytical Lorentzian: exact and noisy
    r_anl = rng.fork("anl")
    for _ in range(200 if quick else 1500):
        yield lorentz_case(r_anl, "lorentzian-exact", quick)
    for _ in range(200 if quick else 1500):
        yield noisy_anl_case(r_anl, "lorentzian-noisy", quick)

    # ---- seeded random option matrix
    r = rng.fork("random")
    for _ in range(3000 if quick else 30000):
        o = rand_opts(r)
        fixed = rand_fixed(r, o)
        v = rand_fit_values(r)
        yield {"stream": "random", "op": "passive", "o": o, "fixed": fixed, **v}
        if r.chance(0.5):
            pars = default_pars(o, fixed, r.uniform(5000.0, 20000.0), r.uniform(0.1, 0.8))
            yield {"stream": "random", "op": "psd", "o": o, "fixed": fixed, "f": r.loguniform(1.0, 39000.0), "fc": v["fc"], "D": v["D"], "pars": pars}
    r = rng.fork("active")
    for _ in range(200 if quick else 2000):
        o = rand_opts(r, active=True)
        fixed = rand_fixed(r, o)
        v = rand_fit_values(r)
        pars = default_pars(o, fixed, r.uniform(5000.0, 20000.0), r.uniform(0.1, 0.8))
        yield {"stream": "random", "op": "active", "o": o, "fixed": fixed, "a": active_signal(r, o, v, quick), "pars": pars, **v}
    r = rng.fork("route")
    for _ in range(300 if quick else 3000):
        pat = r.randint(0, 3)
        fixed = [r.uniform(1.0, 30000.0) if pat & 1 else None, r.uniform(0.0, 1.0) if pat & 2 else None]
        pars = [r.uniform(1.0, 30000.0) for _ in range(r.choice([0, 1, 1, 2, 2, 3]))]
        yield {"stream": "routing", "op": "route", "fixed": fixed, "pars": pars, "f": r.loguniform(1.0, 39000.0)}

    # ---- EXPLORATION: optimiser and FFT estimator
    r = rng.fork("fit")
    for i in range(80 if quick else 1200):
        yield fit_case(r, "exploration-fit", quick, noisy=(i % 2 == 1))
    yield from fit_scope()
    r = rng.fork("drive")
    for _ in range(30 if quick else 400):
        yield drive_case(r, "exploration-drive", quick)
    yield from drive_scope()
    # ---- start values and bounds of the filter parameters: every filter shape x two sample rates (+ invalid fixed values)
    for rate in (78125.0, 50000.0):
        yield {"stream": "scope-fit-bounds", "op": "bounds", "kind": "nofilter", "rate": rate}
        yield {"stream": "scope-fit-bounds", "op": "bounds", "kind": "diode", "rate": rate}
        for fixed in ([None, None], [9000.0, None], [None, 0.25], [12000.0, 0.5], [None, 0.0], [None, 1.0]):
            yield {"stream": "scope-fit-bounds", "op": "bounds", "kind": "fixed", "fixed": fixed, "rate": rate}
        for fixed in ([None, 1.5], [0.0, None], [-3.0, 0.5]):
            yield {"stream": "malformed", "op": "bounds", "kind": "fixed", "fixed": fixed, "rate": rate}
    yield from calibval_scope()
    yield from lloss_scope(rng, quick)
    # ---- signs of the fitted parameters (np.abs of the optimiser's solution): the spectrum at every sign pattern
    for hydro, sfc, sfd, sal in itertools.product((False, True), (1.0, -1.0), (1.0, -1.0), (1.0, -1.0)):
        o = base_opts(d=1.1, visc=0.00095, temp=24.0, hydro=hydro)
        yield {"stream": "scope-psd-signs", "op": "psd", "o": o, "fixed": None, "f": 2345.6, "fc": sfc * 1400.0, "D": 0.04, "pars": [sfd * 11000.0, sal * 0.35]}
    # ---- argument validation of fit_power_spectrum: exhaustive small scope (deterministic)
    for npts, loss, bias, anl in itertools.product((3, 4, 5, 12), ("gaussian", "lorentzian", "huber"), (False, True), (True, False)):
        yield {"stream": "scope-fit-validation", "op": "fitval", "npts": npts, "loss": loss, "bias": bias, "anl": anl}
        if anl and npts >= 4 and loss != "huber" and not (bias and loss == "lorentzian"):
            # strengthening round H: an otherwise valid call with an argument that is not a PowerSpectrum (documented
            # TypeError; only calls whose ONLY defect is the type, so that the order of the raise statements does not matter)
            yield {"stream": "scope-fit-validation", "op": "fitval", "npts": npts, "loss": loss, "bias": bias, "anl": anl, "arg": "duck"}
    yield from calib_matrix(quick)
    r = rng.fork("calib")
    for i in range(16 if quick else 160):
        yield calib_case(r, "exploration-calibrate_force", quick, active=(i % 3 == 2))
