"""C06 — derived kymograph / scan views equal array operations on the source image (DESIGN.md 6/C06)."""
import itertools
from fractions import Fraction

import numpy as np

import builders_confocal as bc
from common import enc_float, enc_list, enc_opt, errname

PROP = "C06"
THEOREMS = [
    "Verif.C06.slice_lines",
    "Verif.C06.slice_empty_iff",
    "Verif.C06.processed_not_sliceable",
    "Verif.C06.slice_ranges_sublist",
    "Verif.C06.slice_slice",
    "Verif.C06.slice_compose",
    "Verif.C06.crop_rows",
    "Verif.C06.crop_negative",
    "Verif.C06.crop_crop",
    "Verif.C06.flip_rows",
    "Verif.C06.flip_flip",
    "Verif.C06.down_shape",
    "Verif.C06.down_entry",
    "Verif.C06.down_one",
    "Verif.C06.down_calibration",
    "Verif.C06.kbp_pixelsize",
    "Verif.C06.kbp_twice",
    "Verif.C06.scan_index_refines",
    "Verif.C06.scan_slice_refines",
    "Verif.C06.scan_crop_commutes_with_frames",
    "Verif.C06.scan_slice_slice",
    "Verif.C06.time_to_frame_start",
    "Verif.C06.scan_slice_timestamps",
    "Verif.C06.scan_slice_keeps_fast_step",
    "Verif.C06.scan_pixel_time_of_fast_step",
    "Verif.C06.scan_pixel_counts",
    "Verif.C06.down_with_entry",
    "Verif.C06.cropF_refines_crop",
    # deepening round D
    "Verif.C06.getitem_validation",
    "Verif.C06.getitem_resolves",
    "Verif.C06.slice_window",
    "Verif.C06.kwf_starts_sorted",
    "Verif.C06.getitem_all",
    "Verif.C06.down_entry_sum",
    "Verif.C06.scan_getitem_validation",
    "Verif.C06.scan_bound_resolution",
    "Verif.C06.scan_getitem_refines",
    "Verif.C06.time_to_frame_stop",
    "Verif.C06.scan_time_window",
    "Verif.C06.scan_stamp_start",
    "Verif.C06.crop_crop_view",
    "Verif.C06.flip_flip_view",
    "Verif.C06.pySliceOpt_pySliceOpt",
    "Verif.C06.slice_line_time",
    "Verif.C06.down_entry_timestamps",
    "Verif.C06.selecting_program_shows_window",
    "Verif.C06.scan_program_shows_windows",
    "Verif.C06.selecting_program_pixel_time",
    "Verif.C06.scan_program_pixel_time",
    "Verif.C06.crop_then_downsample",
    "Verif.C06.flip_then_crop",
    "Verif.C06.regular_ranges",
    "Verif.C06.regular_establishes",
    "Verif.C06.regular_row_step",
    "Verif.C06.slice_then_downsample",
]
RULE = (
    "kymographs and scans built from generated info waves (P<=5 pixels, <=6 lines/frames, k<=3 samples per pixel, "
    "lead-in, dead time, optional unfinished last line) through lumicks.pylake.low_level; programs of <=2 (quick) / "
    "<=3 (thorough) operations. Kymograph alphabet: time slices with bounds on/around every line start and stop "
    "(±1 ns, None), crop_by_distance with bounds that are multiples of 1/64 of the (dyadic) pixel size incl. "
    "negative / empty / beyond the end, flip, downsampled_by (time and position factors 1..3), calibrate_to_kbp. "
    "Also kymo[item] as the user writes it: bounds None / integer timestamps / time strings (plain, decimal, composite, "
    "odd spacing, malformed) counted from the start or back from the stop, on and 1 ns beside line starts, stepped slices "
    "and scalars; start/stop of every view are observed. "
    "Scan alphabet: integer frame indices (negative, out of range), frame slices, spatial crops via __getitem__ and "
    "crop_by_pixels, timestamp-based frame slices, scan[item] as the user writes it (frame bounds as index / timestamp / "
    "time string, 0-2 spatial slices, refused items: steps, scalar spatial items, floats, lists); both fast-axis orders, "
    "single- and multi-frame, complete and with a recording stopped inside the last frame (cut after any pixel, inside a "
    "pixel or in a dead time; the rest of the frame is zero padded), time windows on / beside the frame edges and inside the "
    "exposures, list bounds (refused); start/stop of every view are observed; empty objects are asked for their images "
    "(no data); downsampled_by also with a factor left to its default. Exhaustive over "
    "the alphabet for length<=2 on fixed small objects, seeded random beyond. Non-trivial: the program changes the "
    "image (not the identity), or ends in an empty object / documented error."
)
TRUSTED = [
    "time strings are read by the Timeindex model of C01 (Verif.C01.parseTime, proved and tied there); C06 sends the string itself to model and code",
    "skimage.measure.block_reduce (used by downsampled_by) is assumed to compute block sums; checked by the oracle on every case",
    "pixel sizes are dyadic (125, 250, 500 nm) and crop bounds multiples of 1/64 so that lower/px is exact in floating point; other quotients are outside the tie",
]
ASSUMPTIONS = [
    "constant samples per pixel and no discarded samples inside a pixel (pylake's own assumption for timestamps)",
    "per-pixel timestamps after flip are not asserted (observation O1 in DESIGN.md)",
    "sample periods for which int(1e9 / sample_rate) equals the period (12800, 1000, 16 ns)",
]

# ------------------------------------------------------------------ independent reconstruction from the info wave


def layout_of(case):
    iw = bc.layout_infowave(case["layout"])
    return iw


def pixel_table(case):
    """per pixel (acquisition order): (value, t_first_used, t_last_used) from a plain walk over the info wave"""
    iw = layout_of(case)
    cnt = case["counts"]
    start, dt = case.get("start", bc.START), case["dt"]
    pix = []
    cur_v, cur_first, cur_last = 0, None, None
    for i, code in enumerate(iw):
        if code == bc.DISCARD:
            continue
        t = start + i * dt
        if i < len(cnt):
            cur_v += cnt[i]
        cur_first = t if cur_first is None else cur_first
        cur_last = t
        if code == bc.BOUNDARY:
            pix.append((cur_v, cur_first, cur_last))
            cur_v, cur_first, cur_last = 0, None, None
    return pix


def kymo_reference(case):
    """(rows of (value, tmin, tmax) triples, exclusive line ranges of the unprocessed kymograph)"""
    P = case["layout"]["P"]
    pix = pixel_table(case)
    L = -(-len(pix) // P)
    img = [[(0, 0, 0)] * L for _ in range(P)]
    ranges = []
    for l in range(L):
        linepix = pix[l * P : (l + 1) * P]
        for r, p in enumerate(linepix):
            img[r][l] = p
        ranges.append((linepix[0][1], max(p[2] for p in linepix) + case["dt"]))
    return img, ranges


def scan_reference(case):
    lay = case["layout"]
    P, L = lay["P"], lay["L"]
    pix = pixel_table(case)
    nf = -(-len(pix) // (P * L))
    frames = []
    for f in range(nf):
        fp = pix[f * P * L : (f + 1) * P * L]
        fp = fp + [(0, 0, 0)] * (P * L - len(fp))
        arr = [[fp[s * P + q] for q in range(P)] for s in range(L)]  # [slow][fast]
        if not case["fast"] < case["slow"]:
            arr = [[arr[s][q] for s in range(L)] for q in range(P)]  # [fast][slow]
        frames.append(arr)
    return frames


# ------------------------------------------------------------------ program encoding


def frac(x):
    return Fraction(x)


def enc_frac(x):
    f = Fraction(x)
    return f"{f.numerator}_{f.denominator}"


def enc_rat(x):
    f = Fraction(x)
    return f"{f.numerator}/{f.denominator}"


def kop_token(op):
    k = op[0]
    if k == "slice":
        return f"slice:{op[1]}:{op[2]}"
    if k == "crop":
        return f"crop:{enc_frac(op[1])}:{enc_frac(op[2])}"
    if k == "cropf":
        return f"cropf:{enc_float(float(op[1]))}:{enc_float(float(op[2]))}"
    if k == "flip":
        return "flip"
    if k == "down":
        return f"down:{op[1]}:{op[2]}"
    if k == "downr":
        return f"downr:{op[1]}:{op[2]}:{op[3]}"
    if k == "kbp":
        return f"kbp:{enc_frac(op[1])}"
    if k in ("get", "getstep"):
        return f"{k}:{enc_kbound(op[1])}:{enc_kbound(op[2])}"
    if k == "scalar":
        return "scalar"
    raise ValueError(op)


def enc_kbound(b):
    """a bound of kymo[a:b] as written by the user: None, an integer timestamp, or a time string (sent as code points:
    the model parses the string itself)"""
    if b is None:
        return "N"
    if isinstance(b, str):
        return "s" + ".".join(str(ord(c)) for c in b)
    if isinstance(b, list):
        return "O"  # scan[[0]:]: a bound that is neither a number nor a string (refused)
    return str(int(b))


def kymo_window(case):
    """[start, stop) of the source kymograph: that of its info wave"""
    start = case.get("start", bc.START)
    return start, start + len(layout_of(case)) * case["dt"]


def sop_token(op):
    k = op[0]
    if k == "index":
        return "index:" + ":".join([str(op[1])] + [enc_opt(x) for x in op[2:6]])
    if k in ("slice", "cropxy"):
        if k == "cropxy":  # crop_by_pixels(x0, x1, y0, y1): rows y, cols x; not a __getitem__ (start/stop are kept)
            x0, x1, y0, y1 = op[1:5]
            return "cropxy:" + ":".join(enc_opt(x) for x in (y0, y1, x0, x1))
        return "slice:" + ":".join(enc_opt(x) for x in op[1:7])
    if k == "slicet":
        return f"slicet:{enc_opt(op[1])}:{enc_opt(op[2])}"
    if k == "get":  # scan[item] as the user writes it
        fi, sp = op[1], op[2]
        ftxt = {"i": lambda: f"i,{fi[1]}", "s": lambda: f"s,{enc_kbound(fi[1])},{enc_kbound(fi[2])}",
                "sstep": lambda: f"sstep,{enc_kbound(fi[1])},{enc_kbound(fi[2])}", "o": lambda: "o"}[fi[0]]()
        stxt = [{"s": lambda a=a: f"s,{enc_opt(a[1])},{enc_opt(a[2])}", "sstep": lambda a=a: f"sstep,{enc_opt(a[1])},{enc_opt(a[2])}",
                 "i": lambda: "i", "o": lambda: "o"}[a[0]]() for a in sp]
        return ":".join(["get", ftxt] + stxt)
    raise ValueError(op)


def ops(case):
    if case["kind"] == "regular":
        lay = case["layout"]
        t0 = case.get("start", bc.START) + lay["lead_in"] * case["dt"]
        return [f"c06.regular {t0} {lay['P']} {lay['lines']} {lay['k']} {lay['dead']} {case['dt']}"]
    if case["kind"] == "kymo":
        img, ranges = kymo_reference(case)
        px = Fraction(case["pixel_nm"]) / 1000
        L = len(ranges)
        lt = (ranges[1][0] - ranges[0][0]) if L >= 2 else case["layout"]["P"] * case["layout"]["k"] * case["dt"]
        st = case["layout"]["P"] * case["layout"]["k"] * case["dt"]
        head = (
            f"c06.kymo [{';'.join(','.join(f'{v}:{a}:{b}' for v, a, b in row) for row in img)}] "
            f"{case['dt']} {enc_rat(px)} 0 {enc_rat(px)} {lt}/1 {st}/1 {case['layout']['k'] * case['dt']} "
            f"{kymo_window(case)[0]} {kymo_window(case)[1]}"
        )
        return [head + "".join(" " + kop_token(o) for o in case["program"])]
    frames = scan_reference(case)
    ftxt = "|".join("[" + ";".join(",".join(f"{v}:{a}:{b}" for v, a, b in row) for row in f) + "]" for f in frames)
    fast_rows = 0 if case["fast"] < case["slow"] else 1
    w0, w1 = kymo_window(case)
    return [f"c06.scan {ftxt} {case['dt']} {fast_rows} {w0} {w1}" + "".join(" " + sop_token(o) for o in case["program"])]


# ------------------------------------------------------------------ implementation


def build(case):
    iw = layout_of(case)
    ch = {"red": case["counts"]}
    if case["kind"] in ("kymo", "regular"):
        return bc.make_kymo(iw, case["layout"]["P"], ch, pixel_size_nm=case["pixel_nm"], dt=case["dt"], start=case.get("start", bc.START))
    return bc.make_scan(iw, case["layout"]["P"], case["layout"]["L"], ch, fast_axis=case["fast"], slow_axis=case["slow"],
                        scan_count=case.get("scan_count", 0), dt=case["dt"], start=case.get("start", bc.START))


def apply_kop(k, op):
    n = op[0]
    if n == "slice":
        return k[op[1] : op[2]]
    if n == "crop":
        return k.crop_by_distance(float(Fraction(op[1])), float(Fraction(op[2])))
    if n == "cropf":
        return k.crop_by_distance(float(op[1]), float(op[2]))
    if n == "flip":
        return k.flip()
    if n == "down":
        if len(op) > 3 and op[3] == "defaults":  # as a user writes it: a factor of 1 is not mentioned
            kw = {name: v for name, v in (("time_factor", op[1]), ("position_factor", op[2])) if v != 1}
            return k.downsampled_by(**kw)
        return k.downsampled_by(time_factor=op[1], position_factor=op[2])
    if n == "downr":
        return k.downsampled_by(time_factor=op[2], position_factor=op[3], reduce={"max": np.max, "min": np.min, "ptp": np.ptp}[op[1]])
    if n == "kbp":
        return k.calibrate_to_kbp(float(Fraction(op[1])))
    if n == "get":  # the item as the user writes it: None / integer timestamps / time strings
        return k[op[1] : op[2]]
    if n == "getstep":
        return k[op[1] : op[2] : 2]
    if n == "scalar":
        return k[op[1]]
    raise ValueError(op)


def apply_sop(s, op):
    n = op[0]
    if n == "index":
        i, y0, y1, x0, x1 = op[1:6]
        if y0 is None and y1 is None and x0 is None and x1 is None and op[6] == "bare":
            return s[i]
        return s[i, y0:y1, x0:x1]
    if n == "slice":
        a, b, y0, y1, x0, x1 = op[1:7]
        if y0 is None and y1 is None and x0 is None and x1 is None and op[7] == "bare":
            return s[a:b]
        return s[a:b, y0:y1, x0:x1]
    if n == "cropxy":
        return s.crop_by_pixels(*op[1:5])
    if n == "slicet":
        return s[op[1] : op[2]]
    if n == "get":
        fi, sp = op[1], op[2]
        frame = {"i": lambda: fi[1], "s": lambda: slice(fi[1], fi[2]), "sstep": lambda: slice(fi[1], fi[2], 2),
                 "o": lambda: 1.5 if fi[1] == "float" else [0, 1]}[fi[0]]()
        spatial = [{"s": lambda a=a: slice(a[1], a[2]), "sstep": lambda a=a: slice(a[1], a[2], 2), "i": lambda a=a: a[1],
                    "o": lambda: 0.5}[a[0]]() for a in sp]
        return s[(frame, *spatial)] if spatial else s[frame]
    raise ValueError(op)


def absent_shape(g):
    """shape of the image of a colour that has no photon data (must be zeros of the same shape as the others)"""
    g = np.asarray(g)
    if g.ndim != 2:
        return "ndim" + str(g.ndim)
    return f"{g.shape[0]}x{g.shape[1]}" + ("" if not np.any(g) else "-nonzero")


def shape_txt(a):
    return "x".join(str(int(n)) for n in np.asarray(a).shape) or "scalar"


def show_empty(o):
    """an empty (falsy) object still answers get_image: what it hands out is observed (must be no data at all)"""
    return f"empty red={shape_txt(o.get_image('red'))} rgb={shape_txt(o.get_image('rgb'))}"


def show_kymo(k):
    if not k:
        return show_empty(k)
    if int(k.pixels_per_line) == 0:
        return "degenerate"  # position factor larger than the number of pixels: nothing left to observe
    img = np.asarray(k.get_image("red"))
    if img.size and not np.all(img == np.round(img)):
        return "non-integer-image"
    if img.shape == (1, 1):
        return f"single-pixel [{int(img[0, 0])}]"  # pixel/line time are read from a second pixel/line: not observed
    rows = ";".join(",".join(str(int(v)) for v in row) for row in img)
    try:
        rs = "[" + ",".join(f"{int(a)}:{int(b)}" for a, b in k.line_timestamp_ranges()) + "]"
    except NotImplementedError:
        rs = "undefined"
    # calibration unit and position offset are private bookkeeping (used by plotting / tracking): observed while they
    # exist under these names, skipped ("?") when a refactor has moved them — the property does not mention them
    try:
        unit = {"um": 0, "kbp": 1, "pixel": 2}[k._calibration.unit]
    except (AttributeError, KeyError):
        unit = "?"
    try:
        offset = enc_rat(float(k._position_offset))
    except AttributeError:
        offset = "?"
    pxum = k.pixelsize_um[0]
    try:
        pt = enc_rat(float(k.pixel_time_seconds))
    except (NotImplementedError, IndexError) as e:
        pt = type(e).__name__
    return (
        f"view img=[{rows}] ranges={rs} px={enc_rat(float(k.pixelsize[0]))} unit={unit} "
        f"pxum={'N' if pxum is None else enc_rat(float(pxum))} linetime={enc_rat(float(k.line_time_seconds))} "
        f"ppl={int(k.pixels_per_line)} offset={offset} absent={absent_shape(k.get_image('green'))} pt={pt} "
        f"start={int(k.start)} stop={int(k.stop)}"
    )


def show_scan(s):
    if not s:
        return show_empty(s)
    img = np.asarray(s.get_image("red"))
    nf = int(s.num_frames)
    if img.ndim == 2:
        frames = [img]
    else:
        frames = list(img)
    if len(frames) != nf:
        return f"num_frames-mismatch {nf} {len(frames)}"
    ftxt = "|".join("[" + ";".join(",".join(str(int(v)) for v in row) for row in f) + "]" for f in frames)
    rs = "[" + ",".join(f"{int(a)}:{int(b)}" for a, b in s.frame_timestamp_ranges()) + "]"
    g = np.asarray(s.get_image("green"))
    gf = [g] if g.ndim == 2 else list(g)
    ts = np.asarray(s.timestamps)
    tf = [ts] if ts.ndim == 2 else list(ts)
    ttxt = "|".join("[" + ";".join(",".join(str(int(v)) for v in row) for row in f) + "]" for f in tf)
    try:
        pt = enc_rat(float(s.pixel_time_seconds))
    except IndexError:
        pt = "U"  # a derived scan reads it from a second pixel along the fast axis; there is none
    return (f"view frames={ftxt} ranges={rs} absent={'|'.join(absent_shape(x) for x in gf)} ts={ttxt} pt={pt} "
            f"ppl={int(s.pixels_per_line)} lpf={int(s.lines_per_frame)} start={int(s.start)} stop={int(s.stop)}")


def show_timing(k):
    """line ranges and per-pixel timestamps of a freshly built kymograph (the acquisition timing the model's
    `regularImg` describes)"""
    rs = "[" + ",".join(f"{int(a)}:{int(b)}" for a, b in k.line_timestamp_ranges()) + "]"
    ts = np.asarray(k.timestamps)
    return f"ranges={rs} ts=[" + ";".join(",".join(str(int(v)) for v in row) for row in ts) + "]"


def impl(case):
    try:
        with bc.quiet():
            obj = build(case)
            if case["kind"] == "regular":
                return [show_timing(obj)]
            show0 = show_kymo if case["kind"] == "kymo" else show_scan
            for op in case["program"]:
                if case.get("ask_first", True):
                    # the source is asked everything before something is derived from it: what it has memoised must
                    # not travel into the derived object
                    try:
                        show0(obj)
                    except Exception:
                        pass
                obj = apply_kop(obj, op) if case["kind"] == "kymo" else apply_sop(obj, op)
                if not obj:
                    break
                if case["kind"] == "kymo" and int(obj.pixels_per_line) == 0:
                    break  # nothing left to operate on
            show = show_kymo if case["kind"] == "kymo" else show_scan
            first = show(obj)
            # asking again must give the same answers (a derived object that hands out its own mutable state, or
            # scales what its source handed it in place, answers differently the second time)
            again = show(obj)
            if again != first:
                return [f"unstable-queries first={first[:300]} again={again[:300]}"]
            return [first]
    except Exception as e:
        return [errname(e)]


def fields(s):
    if not s.startswith("view "):
        return None
    return dict(tok.split("=", 1) for tok in s[5:].split(" "))


def agree(case, i, ia, ma):
    if case["kind"] == "scan" and "trunc" in case["layout"] and len(case["program"]) > 1:
        flags = {}
        scan_judge(case, ia, flags)
        if flags.get("unsorted"):
            return True  # a time looked up among frame times that are not in order: outside the model's searchsorted
    if ia.startswith("empty "):
        return ma == "empty"  # the model says "empty"; the images an empty object hands out are judged by the oracle
    fi, fm = fields(ia), fields(ma)
    if fi is None or fm is None:
        return ia == ma
    if set(fi) != set(fm):
        return False
    for k in fi:
        if k == "pt":
            if not fi[k][0].isdigit() and fi[k][0] != "-" or not fm[k][0].isdigit() and fm[k][0] != "-":
                if fi[k] != fm[k]:
                    return False
                continue
            a, b = Fraction(fi[k]) * 10**9, Fraction(fm[k])
            if abs(a - b) > Fraction(1, 10**6) * max(abs(b), 1):
                return False
        elif k == "linetime":
            a = Fraction(fi[k]) * 10**9  # implementation reports seconds
            b = Fraction(fm[k])
            if abs(a - b) > Fraction(1, 10**6) * max(abs(b), 1):
                return False
        elif fi[k] == "?":
            continue  # private bookkeeping that is no longer reachable under its old name: not compared
        elif k in ("px", "pxum", "offset"):
            if fi[k] == "N" or fm[k] == "N":
                if fi[k] != fm[k]:
                    return False
                continue
            a, b = Fraction(fi[k]), Fraction(fm[k])
            if abs(a - b) > Fraction(1, 10**12) * max(abs(b), 1):
                return False
        elif fi[k] != fm[k]:
            return False
    return True


# ------------------------------------------------------------------ oracle: the NumPy operation on the source image

_UNIT_NS = {"d": 86400 * 10**9, "h": 3600 * 10**9, "m": 60 * 10**9, "s": 10**9, "ms": 10**6, "us": 10**3, "ns": 1}
_UNIT_ORDER = ["d", "h", "m", "s", "ms", "us", "ns"]


def plain_time_string_ns(text):
    """nanoseconds meant by a time string of the plain documented form `[-]<number><unit>[ <number><unit>…]` with the
    units in decreasing order (each term truncated to whole ns); None for anything else (not judged by the oracle)"""
    import re

    m = re.fullmatch(r"(-?)((?:\d*\.?\d+(?:ms|us|ns|d|h|m|s)(?: |$))+)", text)
    if not m or text.endswith(" "):
        return None
    terms = re.findall(r"(\d*\.?\d+)(ms|us|ns|d|h|m|s)", m.group(2))
    order = [_UNIT_ORDER.index(u) for _, u in terms]
    if order != sorted(set(order)):
        return None
    total = sum(int(Fraction(v) * _UNIT_NS[u]) for v, u in terms)
    return -total if m.group(1) else total



def oracle(case, ia):
    ans = ia[0]
    if case["kind"] == "regular":
        # from a plain walk over the info wave: a line runs from its first used sample to one period past its last one,
        # a pixel's timestamp is the (floored) mean of its first and last sample
        img, ranges = kymo_reference(case)
        want = ("ranges=[" + ",".join(f"{a}:{b}" for a, b in ranges) + "] ts=[" +
                ";".join(",".join(str(a + (b - a) // 2) for _, a, b in row) for row in img) + "]")
        return None if ans == want else f"timing of a regular kymograph: implementation {ans[:200]}, info wave says {want[:200]}"
    if case["kind"] == "kymo":
        img, ranges0 = kymo_reference(case)
        P0 = len(img)
        ref = np.array([[p[0] for p in row] for row in img], dtype=np.int64).reshape(P0, -1)
        tmn = np.array([[p[1] for p in row] for row in img], dtype=np.int64).reshape(P0, -1)
        tmx = np.array([[p[2] for p in row] for row in img], dtype=np.int64).reshape(P0, -1)
        px = Fraction(case["pixel_nm"]) / 1000
        processed = False
        kbp = False
        status = "view"
        tf_total = 1
        import math
        win = kymo_window(case)  # [start, stop) of the object a time string is relative to; None once it was sliced
        first_start = None  # start of the first line of the latest time slice

        def cur_ranges():
            return [(int(tmn[0, j]), int(tmx[:, j].max()) + case["dt"]) for j in range(ref.shape[1])]

        for op in case["program"]:
            n = op[0]
            if n == "slice":
                if processed:
                    status = "NotImplementedError"
                    break
                keep = [j for j, (t0, _) in enumerate(cur_ranges()) if op[1] <= t0 < op[2]]
                if not keep:
                    status = "empty"
                    break
                ref, tmn, tmx = ref[:, keep], tmn[:, keep], tmx[:, keep]
                first_start, win = int(tmn[0, 0]), None
            elif n in ("scalar", "getstep"):
                status = "IndexError"  # refused whatever the state of the kymograph
                break
            elif n == "get":
                if processed:
                    status = "NotImplementedError"
                    break
                bounds = []
                for bnd, open_end in ((op[1], -math.inf), (op[2], math.inf)):
                    if bnd is None:
                        bounds.append(open_end)  # an open bound excludes nothing
                    elif isinstance(bnd, str):
                        ns_ = plain_time_string_ns(bnd)
                        if ns_ is None or win is None:
                            return None  # not of the plain form, or relative to a slice whose stop the text leaves open
                        bounds.append(win[0] + ns_ if ns_ >= 0 else win[1] + ns_)
                    else:
                        bounds.append(bnd)
                keep = [j for j, (t0, _) in enumerate(cur_ranges()) if bounds[0] <= t0 < bounds[1]]
                if not keep:
                    status = "empty"
                    break
                ref, tmn, tmx = ref[:, keep], tmn[:, keep], tmx[:, keep]
                first_start, win = int(tmn[0, 0]), None
            elif n in ("crop", "cropf"):
                lo, hi = Fraction(op[1]), Fraction(op[2])
                if lo < 0 or hi < 0:
                    status = "ValueError"
                    break
                if n == "cropf":
                    # bounds and pixel size are doubles that need not be binary fractions of each other: where a
                    # quotient is within 1e-9 of an integer, "floor(lo/px)" depends on how one reads the numbers (the
                    # exact quotient of the doubles, the decimal literals, or the rounded quotient): not judged here,
                    # left to the model, which executes the division as the code does
                    for q in (lo / px, hi / px):
                        if abs(q - round(q)) < Fraction(1, 10**9):
                            return None
                r0, r1 = math.floor(lo / px), math.ceil(hi / px)
                if ref[r0:r1, :].shape[0] == 0:
                    status = "IndexError"
                    break
                ref, tmn, tmx = ref[r0:r1, :], tmn[r0:r1, :], tmx[r0:r1, :]
                processed = True
            elif n == "flip":
                ref = ref[::-1, :]  # timestamps are not asserted after a flip (O1); the code leaves them unflipped
                processed = True
            elif n in ("down", "downr"):
                tf, pf = (op[1], op[2]) if n == "down" else (op[2], op[3])
                P2, L2 = ref.shape[0] // pf, ref.shape[1] // tf
                blocks = ref[: P2 * pf, : L2 * tf].reshape(P2, pf, L2, tf)
                if n == "down":
                    ref = blocks.sum(axis=(1, 3))
                else:  # the user's reducer over each whole two-dimensional block
                    flat = blocks.transpose(0, 2, 1, 3).reshape(P2, L2, pf * tf)
                    ref = {"max": lambda b: b.max(axis=2), "min": lambda b: b.min(axis=2), "ptp": lambda b: b.max(axis=2) - b.min(axis=2)}[op[1]](flat)
                if tf == 1 and tf_total == 1:
                    tmn = tmn[: P2 * pf, :].reshape(P2, pf, L2).min(axis=1)
                    tmx = tmx[: P2 * pf, :].reshape(P2, pf, L2).max(axis=1)
                px = px * pf
                processed = True
                tf_total *= tf
                if ref.shape[0] == 0:
                    break
            elif n == "kbp":
                if kbp:
                    status = "RuntimeError"
                    break
                px = Fraction(op[1]) / ref.shape[0]
                kbp = True
        if status == "empty":
            # no line selected: the NumPy operation on the source image leaves all rows and no column
            want_e = f"empty red={ref.shape[0]}x0 rgb={ref.shape[0]}x0x3"
            return None if ans == want_e else f"program {case['program']}: expected {want_e} (no lines of the {ref.shape[0]} pixel rows), implementation gave {ans[:200]}"
        if status != "view":
            return None if ans == status else f"program {case['program']}: expected {status}, implementation gave {ans[:200]}"
        if ref.shape[0] == 0:
            return None if ans == "degenerate" else f"program {case['program']}: no pixel rows left, implementation gave {ans[:200]}"
        if ref.shape == (1, 1):
            want1 = f"single-pixel [{int(ref[0, 0])}]"
            return None if ans == want1 else f"program {case['program']}: expected {want1}, implementation gave {ans[:200]}"
        f = fields(ans)
        if f is None:
            return f"program {case['program']}: expected a kymograph view, implementation gave {ans[:200]}"
        want = "[" + ";".join(",".join(str(int(v)) for v in row) for row in ref) + "]"
        if f["img"] != want:
            return f"image: program {case['program']} gives {f['img'][:200]} but the NumPy operation on the source image gives {want[:200]}"
        if int(f["ppl"]) != ref.shape[0]:
            return f"pixels_per_line {f['ppl']} but the image has {ref.shape[0]} rows"
        if abs(Fraction(f["px"]) - px) > Fraction(1, 10**12) * px:
            return f"pixel size {f['px']} but expected {px}"
        if tf_total == 1 and ref.shape[0] > 0 and not any(o[0] == "flip" for o in case["program"]):
            wr = "[" + ",".join(f"{a}:{b}" for a, b in cur_ranges()) + "]"
            if f["ranges"] != wr:
                return f"line ranges {f['ranges'][:200]} but the selected lines/pixels span {wr[:200]}"
        # the object's own time window: contains every line it shows; a time slice starts with its first line and never
        # reaches beyond its source
        w0, w1 = kymo_window(case)
        if not (w0 <= int(f["start"]) <= int(f["stop"]) <= w1):
            return f"start/stop {f['start']}/{f['stop']} not inside the source's window {w0}/{w1}"
        if tf_total == 1 and not any(o[0] == "flip" for o in case["program"]) and tmn[0, 0] > 0:
            rr = cur_ranges()
            if int(f["start"]) > rr[0][0] or int(f["stop"]) < rr[-1][1]:
                return f"start/stop {f['start']}/{f['stop']} do not contain the lines shown, which span {rr[0][0]}..{rr[-1][1]}"
        if first_start is not None and int(f["start"]) != first_start:
            return f"start {f['start']} of a time slice is not the start {first_start} of its first line"
        # pixel time: that of the source times the position binning (every pixel of the generated info waves has the
        # same number of samples); gone with the per-pixel timestamps after binning in time; a processed kymograph
        # with a single pixel row cannot report one
        pf_total = 1
        for o in case["program"]:
            if o[0] in ("down", "downr"):
                pf_total *= o[2] if o[0] == "down" else o[3]
        if tf_total > 1:
            want_pt = "NotImplementedError"
        elif processed and ref.shape[0] < 2:
            want_pt = "IndexError"
        else:
            want_pt = case["layout"]["k"] * case["dt"] * pf_total
        got_pt = f["pt"]
        if not isinstance(want_pt, str) and processed and tf_total == 1 and (tmn[0, 0] <= 0 or tmn[1, 0] <= 0):
            pass  # zero-padded pixels of an unfinished line carry no time: not judged
        elif isinstance(want_pt, str):
            if got_pt != want_pt:
                return f"pixel_time_seconds gave {got_pt}, expected {want_pt} for program {case['program']}"
        elif not (got_pt[0].isdigit() and abs(Fraction(got_pt) * 10**9 - want_pt) <= Fraction(1, 10**9) * want_pt):
            return f"pixel_time_seconds {got_pt} s but the source's pixels are {case['layout']['k'] * case['dt']} ns long and {pf_total} of them were binned"
        return None
    return scan_judge(case, ans, {})


def scan_judge(case, ans, flags):
    """the oracle for scans.  flags["unsorted"] is set when a timestamp / time string was looked up on a view whose frame
    starts or stops are not in order (a crop left only never-recorded, zero-padded pixels at [0,0] / in the whole of an
    unfinished last frame): what "the frames in the window" means is then open, nothing is judged and the model (whose
    searchsorted is specified for sorted lists, NumPy's bisection is not) is not compared either"""
    frames = scan_reference(case)
    cur = [np.array([[p[0] for p in row] for row in f], dtype=np.int64) for f in frames]
    tmin = [np.array([[p[1] for p in row] for row in f], dtype=np.int64) for f in frames]
    tmax = [np.array([[p[2] for p in row] for row in f], dtype=np.int64) for f in frames]
    status = "view"

    def lookup_ranges(tmin, tmax):
        r = rng_of(tmin, tmax)
        if any(r[i][c] > r[i + 1][c] for i in range(len(r) - 1) for c in (0, 1)):
            flags["unsorted"] = True
        return r

    def rng_of(tmin, tmax):
        # a frame is exposed from its first pixel to one sample period past the latest sample of any of its pixels (the
        # never recorded pixels of an unfinished frame are zero padded: neither the earliest nor the latest)
        return [(int(a[0, 0]), int(b.max()) + case["dt"]) for a, b in zip(tmin, tmax)]

    FIRST_TS = 1388534400000000000  # integers below it are frame indices
    win = kymo_window(case)  # what a time string is relative to; None once a __getitem__ has re-stamped start/stop
    stamped_first = None  # timestamp of pixel [0,0] of the first frame when start/stop were last stamped
    for op in case["program"]:
        n = op[0]
        if n == "get":
            fi, sp = op[1], op[2]
            if fi[0] in ("sstep", "o"):
                status = "IndexError"
                break
            if fi[0] == "i":
                try:
                    sel = [range(len(cur))[fi[1]]]
                except IndexError:
                    status = "IndexError"
                    break
            else:
                r = None
                idx = []
                if any(isinstance(b, str) or (isinstance(b, int) and b >= FIRST_TS) for b in (fi[1], fi[2])):
                    lookup_ranges(tmin, tmax)  # (a string may still resolve to a frame index: abstaining is the safe side)
                    if flags.get("unsorted"):
                        return None
                for bnd, col in ((fi[1], 0), (fi[2], 1)):
                    if isinstance(bnd, list):
                        status = "IndexError"  # slicing by a list is not supported (the start bound is read first)
                        break
                    if isinstance(bnd, str):
                        ns_ = plain_time_string_ns(bnd)
                        if ns_ is None or win is None:
                            return None  # not of the plain form / relative to a re-stamped window: left to the model
                        bnd = win[0] + ns_ if ns_ >= 0 else win[1] + ns_
                    if bnd is None or bnd < FIRST_TS:
                        idx.append(bnd)
                    else:
                        r = r or lookup_ranges(tmin, tmax)
                        idx.append(int(np.searchsorted([x[col] for x in r], bnd)))
                if flags.get("unsorted"):
                    return None
                if status != "view":
                    break
                sel = list(range(len(cur)))[idx[0] : idx[1]]
            if any(a[0] != "s" for a in sp):
                status = "IndexError"
                break
            if fi[0] == "s" and not sel:
                status = "empty"
                break
            ys = slice(sp[0][1], sp[0][2]) if len(sp) > 0 else slice(None)
            xs = slice(sp[1][1], sp[1][2]) if len(sp) > 1 else slice(None)
        elif n == "index":
            i = op[1]
            try:
                sel = [range(len(cur))[i]]
            except IndexError:
                status = "IndexError"
                break
            ys, xs = slice(op[2], op[3]), slice(op[4], op[5])
        elif n in ("slice", "cropxy", "slicet"):
            if n == "slice":
                a, b = op[1], op[2]
                ys, xs = slice(op[3], op[4]), slice(op[5], op[6])
            elif n == "cropxy":
                a = b = None
                xs, ys = slice(op[1], op[2]), slice(op[3], op[4])
            else:
                r = rng_of(tmin, tmax) if op[1] is None and op[2] is None else lookup_ranges(tmin, tmax)
                if flags.get("unsorted"):
                    return None
                a = None if op[1] is None else int(np.searchsorted([x[0] for x in r], op[1]))
                b = None if op[2] is None else int(np.searchsorted([x[1] for x in r], op[2]))
                ys = xs = slice(None)
            sel = list(range(len(cur)))[a:b]
            if not sel:
                status = "empty"
                break
        new = [cur[j][ys, xs] for j in sel]
        if any(x.size == 0 for x in new):
            status = "NotImplementedError"
            break
        cur = new
        tmin = [tmin[j][ys, xs] for j in sel]
        tmax = [tmax[j][ys, xs] for j in sel]
        if n != "cropxy":  # every __getitem__ stamps start/stop anew; crop_by_pixels keeps them
            win, stamped_first = None, int(tmin[0][0, 0])
    if status == "empty":
        # no frame selected: whatever shape the images of the empty object have, they hold no data
        fe = dict(t.split("=", 1) for t in ans.split(" ")[1:]) if ans.startswith("empty ") else None
        if fe is None or any("0" not in fe[c].split("x") for c in ("red", "rgb")):
            return f"program {case['program']}: expected an empty scan whose images hold no data, implementation gave {ans[:200]}"
        return None
    if status != "view":
        return None if ans == status else f"program {case['program']}: expected {status}, implementation gave {ans[:200]}"
    f = fields(ans)
    if f is None:
        return f"program {case['program']}: expected a scan view, implementation gave {ans[:200]}"
    want = "|".join("[" + ";".join(",".join(str(int(v)) for v in row) for row in fr) + "]" for fr in cur)
    if f["frames"] != want:
        return f"frames: program {case['program']} gives {f['frames'][:200]} but array indexing of the source gives {want[:200]}"
    wr = "[" + ",".join(f"{a}:{b}" for a, b in rng_of(tmin, tmax)) + "]"
    if f["ranges"] != wr:
        return f"frame ranges {f['ranges'][:200]} but the selected frames/pixels span {wr[:200]}"
    # the view's own window lies inside the source's; after a __getitem__ it starts with pixel [0,0] of its first frame
    # (a frame whose first shown pixel was never recorded carries no start time: window not judged)
    w0, w1 = kymo_window(case)
    if all(int(a[0, 0]) > 0 for a in tmin) and not (w0 <= int(f["start"]) <= int(f["stop"])):
        return f"start/stop {f['start']}/{f['stop']} not a window inside the source's, which starts at {w0}"
    if stamped_first is not None and stamped_first > 0 and int(f["start"]) != stamped_first:
        return f"start {f['start']} of an indexed scan is not the timestamp {stamped_first} of the first pixel of its first frame"
    # per-pixel timestamps: those of the selected source pixels (mean of a pixel's evenly spaced sample timestamps)
    wt = "|".join("[" + ";".join(",".join(str(int(a + (b - a) // 2)) for a, b in zip(ra, rb)) for ra, rb in zip(fa, fb)) + "]"
                  for fa, fb in zip(tmin, tmax))
    if f["ts"] != wt:
        return f"pixel timestamps {f['ts'][:200]} but the selected source pixels have {wt[:200]}"
    # pixel counts follow the image: the fast axis runs along the columns iff its axis number is the smaller one
    rows, cols = cur[0].shape
    along_cols = case["fast"] < case["slow"]
    want_ppl, want_lpf = (cols, rows) if along_cols else (rows, cols)
    if (int(f["ppl"]), int(f["lpf"])) != (want_ppl, want_lpf):
        return f"pixels_per_line/lines_per_frame {f['ppl']}/{f['lpf']} but the image is {rows}x{cols} with the fast axis along the {'columns' if along_cols else 'rows'}"
    # pixel time: that of the source (samples per pixel x sample period), whatever was selected; a derived scan
    # without a second pixel along the fast axis cannot report one, and zero-padded pixels of an unfinished frame
    # carry no time (not judged)
    second = (0, 1) if along_cols else (1, 0)
    if want_ppl >= 2 and tmin[0][0, 0] > 0 and tmin[0][second] > 0:
        want_pt = case["layout"]["k"] * case["dt"]
        if f["pt"] == "U" or abs(Fraction(f["pt"]) * 10**9 - want_pt) > Fraction(1, 10**6) * want_pt:
            return f"pixel_time_seconds {f['pt']} s but every pixel of the source is {want_pt} ns long"
    return None


def nontrivial(case, ia):
    return len(case["program"]) > 0 or case["kind"] == "regular"


def tags(case, r):
    return {"kind": case["kind"], "ops": "+".join(o[0] for o in case["program"])}


def shrink(case):
    if len(case["program"]) > 1:
        for i in range(len(case["program"])):
            yield dict(case, program=case["program"][:i] + case["program"][i + 1 :])
    lay = case["layout"]
    for key, lo in (("lines", 1), ("lead_in", 0), ("dead", 0)):
        if isinstance(lay.get(key), int) and lay[key] > lo:
            l2 = dict(lay)
            l2[key] = lay[key] - 1
            yield remake(case, l2)


def remake(case, lay):
    c = dict(case, layout=lay)
    n = len(bc.layout_infowave(lay))
    c["counts"] = (case["counts"] * (n // max(len(case["counts"]), 1) + 1))[:n]
    return c


# ------------------------------------------------------------------ generators


def det_counts(n, salt=0):
    return [((i * 7 + 3 + salt) % 5) + (3 if i % 4 == 0 else 0) for i in range(n)]


def kymo_case(P, lines, k, lead, dead, trunc_pixels=None, pixel_nm=125.0, dt=12800, salt=0):
    lay = {"P": P, "lines": lines, "k": k, "lead_in": lead, "dead": dead}
    if trunc_pixels is not None:
        # cut the stream right after `trunc_pixels` pixels of the last line
        full = bc.infowave(P, lines, k, lead_in=lead, dead=dead)
        line_len = P * k + dead
        lay["trunc"] = lead + (lines - 1) * line_len + trunc_pixels * k
    n = len(bc.layout_infowave(lay))
    return {"kind": "kymo", "layout": lay, "counts": det_counts(n, salt), "pixel_nm": pixel_nm, "dt": dt}


def scan_case(P, L, frames, k, lead, dead, frame_dead, fast, slow, dt=12800, scan_count=0, salt=0, unfinished=None):
    """`unfinished=(m, extra)`: the recording was stopped inside the last frame, `extra` samples after its `m`-th pixel
    (1 <= m < P*L) was completed; `extra` is cut down to stay short of the next pixel boundary, so the cut may fall
    inside a pixel, between pixels or in a dead time, and exactly m pixels of the last frame exist"""
    lay = {"P": P, "L": L, "lines": L * frames, "k": k, "lead_in": lead, "dead": dead, "frame_dead": frame_dead}
    if unfinished is not None:
        m, extra = unfinished
        bpos = [i for i, c in enumerate(bc.layout_infowave(lay)) if c == bc.BOUNDARY]
        at = (frames - 1) * P * L + m - 1
        lay["trunc"] = bpos[at] + 1 + max(0, min(extra, bpos[at + 1] - bpos[at] - 1))
    n = len(bc.layout_infowave(lay))
    return {"kind": "scan", "layout": lay, "counts": det_counts(n, salt), "dt": dt, "fast": fast, "slow": slow, "scan_count": scan_count}


def kymo_alphabet(case, rng=None, full=True):
    img, ranges = kymo_reference(case)
    P = len(img)
    px = Fraction(case["pixel_nm"]) / 1000
    ts = set()
    for a, b in ranges:
        ts.update([a, a - 1, a + 1, b, b + 1])
    ts = sorted(ts)
    if not full and rng is not None:
        ts = rng.sample(ts, min(len(ts), 5))
    ops_ = []
    for a, b in itertools.product(ts, ts):
        if a <= b or (a - b) < 3:
            ops_.append(["slice", a, b])
    if not full and rng is not None and len(ops_) > 12:
        ops_ = rng.sample(ops_, 12)
    bounds = sorted({Fraction(0), px / 2, px, px * 3 / 2, px * 2, px * (P - 1), px * P, px * P + px / 2, px * (P + 2), -px})
    for lo, hi in itertools.product(bounds, bounds):
        ops_.append(["crop", str(lo), str(hi)])
    ops_.append(["flip"])
    for tf, pf in itertools.product((1, 2, 3), (1, 2, 3)):
        ops_.append(["down", tf, pf])
    for tf, pf in ((1, 1), (2, 1), (1, 2), (3, 1), (1, 3)):
        ops_.append(["down", tf, pf, "defaults"])  # downsampled_by(time_factor=2): the other factor is left to its default
    # other reducers; np.ptp does not factor into a reduction over position followed by one over time
    for red, (tf, pf) in itertools.product(("ptp", "max", "min"), ((2, 2), (2, 3), (3, 2), (1, 2), (2, 1))):
        if red == "ptp" or (tf, pf) == (2, 2):
            ops_.append(["downr", red, tf, pf])
    ops_.append(["kbp", str(Fraction(P) / 4)])
    ops_.append(["kbp", str(Fraction(P) * 2)])
    ops_.extend(kymo_item_alphabet(case, ranges, rng if not full else None))
    return ops_


def kymo_item_alphabet(case, ranges, rng=None):
    """kymo[item] as a user writes it: None bounds, integer timestamps, time strings counted from the start or back from
    the stop of the kymograph (on / one ns beside line starts; plain, decimal, composite, odd spacing, malformed), slices
    with a step and scalar items (refused)"""
    w0, w1 = kymo_window(case)
    lines = list(range(len(ranges)))
    if len(lines) > 3:
        lines = [0, 1, len(ranges) - 1] if rng is None else sorted(rng.sample(lines, 3))
    bounds = [None]
    for j in lines:
        a = ranges[j][0]
        off, back = a - w0, w1 - a
        forms = [f"{off}ns", f"{off // 1000}.{off % 1000:03d}us", f"{off // 1000}us {off % 1000}ns", f"{off + 1}ns",
                 f"-{back}ns", f"-{back // 1000}.{back % 1000:03d}us", f"-{back - 1}ns", a]
        if rng is not None:
            forms = rng.sample(forms, 3)
        bounds.extend(forms)
    bounds.extend(["0s", f"{(w1 - w0) // 1000 + 1}us", "-0ns", ranges[-1][1]])
    odd = ["", f" {ranges[0][0] - w0} ns", f"{(ranges[-1][0] - w0) // 1000}us\n", "1.5.2us", "abc", "1ns 1us", "5", "1us ", ".5ms", "1e3ns"]
    out = []
    for a, b in itertools.product(bounds, bounds):
        out.append(["get", a, b])
    for o in odd:
        out.append(["get", o, None])
        out.append(["get", None, o])
    out.append(["getstep", None, None])
    out.append(["getstep", ranges[0][0], ranges[-1][1]])
    out.append(["scalar", ranges[0][0]])
    out.append(["scalar", 0])
    if rng is not None and len(out) > 30:
        out = rng.sample(out, 30)
    return out


def float_crop_cases(quick, rng):
    """kymographs with pixel sizes such as 0.1, 0.08, 0.03 um; bounds on (products k*px, decimal literals k/10),
    beside (one ulp) and between pixel edges; alone, after position binning (the pixel size becomes a rounded
    product), after calibrate_to_kbp (a rounded quotient) and after another crop (offset)"""
    r = rng.fork("c06-floatcrop")
    for pixel_nm, P in ((100.0, 12), (80.0, 7), (30.0, 11)) if not quick else ((100.0, 12), (30.0, 7)):
        obj = kymo_case(P, 2, 1, 0, 1, pixel_nm=pixel_nm)
        px = pixel_nm / 1000
        edges = set()
        for k in range(0, P + 2):
            for v in (k * px, round(k * px, 10), k / 10 if pixel_nm == 100.0 else k * px):
                edges.update([v, float(np.nextafter(v, 0.0)) if v > 0 else 0.0, float(np.nextafter(v, 1e9))])
            edges.add((k + 0.5) * px)
        edges = sorted(e for e in edges if e >= 0)
        pairs = [(lo, hi) for lo in edges for hi in edges if lo < hi + px]
        if quick:
            pairs = r.sample(pairs, 350)
        for lo, hi in pairs:
            yield dict(obj, stream="small-scope", program=[["cropf", lo, hi]])
        firsts = [["down", 1, 2], ["down", 1, 3], ["kbp", str(Fraction(17, 10))], ["kbp", str(Fraction(P) * Fraction(3, 10))], ["cropf", px, (P - 1) * px], ["flip"]]
        for first in firsts:
            pf = first[2] if first[0] == "down" else 1
            px2 = {"down": px * pf, "kbp": float(Fraction(first[1])) / P if first[0] == "kbp" else None}.get(first[0], px)
            n2 = P // pf - (2 if first[0] == "cropf" else 0)
            e2 = set()
            for k in range(0, n2 + 2):
                v = k * px2
                e2.update([v, float(np.nextafter(v, 0.0)) if v > 0 else 0.0, float(np.nextafter(v, 1e9)), (k + 0.5) * px2])
            e2 = sorted(e2)
            p2 = [(lo, hi) for lo in e2 for hi in e2 if lo < hi]
            for lo, hi in r.sample(p2, min(len(p2), 40 if quick else 400)):
                yield dict(obj, stream="small-scope", program=[first, ["cropf", lo, hi]])


def scan_alphabet(case, rng=None):
    frames = scan_reference(case)
    n = len(frames)
    H, W = len(frames[0]), len(frames[0][0])
    ops_ = []
    for i in range(-n - 1, n + 2):
        ops_.append(["index", i, None, None, None, None, "bare"])
    ops_.append(["index", 0, 1, None, None, -1, "tuple"])
    ops_.append(["index", -1, None, H, 1, None, "tuple"])
    bs = [None, 0, 1, -1, n, n + 1, -n - 1]
    for a, b in itertools.product(bs, bs):
        ops_.append(["slice", a, b, None, None, None, None, "bare"])
    crops = [(None, None, None, None), (1, None, None, None), (None, -1, None, None), (None, None, 1, None), (None, None, None, -1),
             (0, 1, 0, 1), (1, 1, None, None), (None, None, W, None), (-1, None, -1, None), (None, H + 3, None, W + 3)]
    for y0, y1, x0, x1 in crops:
        ops_.append(["slice", None, None, y0, y1, x0, x1, "tuple"])
        ops_.append(["cropxy", x0, x1, y0, y1])
    ops_.append(["slice", 1, None, 1, None, None, None, "tuple"])
    # timestamps on / around the frame range edges
    tmin = [f[0][0][1] for f in frames]
    tmax = [max(p[2] for row in f for p in row) + case["dt"] for f in frames]
    # … and inside every frame's exposure (a window may end while a frame is being recorded), one past its stop
    mids = [(a + b) // 2 for a, b in zip(tmin, tmax)]
    pts = sorted(set(tmin + tmax + [t + 1 for t in tmin] + [t - 1 for t in tmax] + mids + [t + 1 for t in tmax]))
    if rng is not None and len(pts) > 6:
        pts = rng.sample(pts, 6)
    for a, b in itertools.product([None] + pts, [None] + pts):
        ops_.append(["slicet", a, b])
    ops_.extend(scan_item_alphabet(case, frames, tmin, tmax, rng))
    return ops_


def scan_item_alphabet(case, frames, tmin, tmax, rng=None):
    """scan[item] as a user writes it: frame slices whose bounds are None / frame indices / timestamps / time strings
    counted from the start or back from the stop (on and one ns beside frame starts and stops), with 0-2 spatial slices;
    steps, scalar spatial items, floats and lists (refused)"""
    w0, w1 = kymo_window(case)
    n = len(frames)
    js = sorted({0, n - 1, n // 2})
    bounds = [None, 0, 1, -1, n]
    inside, core = [], [None, 0, -1]
    for j in js:
        a, b = tmin[j], tmax[j]
        mid = (a + b) // 2  # inside the frame's exposure: a window may start or end while a frame is being recorded
        forms = [a, b, f"{a - w0}ns", f"{(a - w0) // 1000}us {(a - w0) % 1000}ns", f"{a - w0 + 1}ns", f"{b - w0}ns", f"{b - w0 - 1}ns",
                 f"-{w1 - b}ns", f"-{(w1 - a) // 1000}.{(w1 - a) % 1000:03d}us"]
        if rng is not None:
            forms = rng.sample(forms + [mid, f"{mid - w0}ns"], 3)
        else:
            inside.extend([mid, f"{mid - w0}ns"])
            core.extend([a, f"{b - w0}ns"])
        bounds.extend(forms)
    out = [["get", ["s", a, b], []] for a, b in itertools.product(bounds, bounds)]
    # (exhaustive mode: the points inside the exposures are paired with a coarser set of other bounds and with each other)
    out += [["get", ["s", a, b], []] for a, b in list(itertools.product(inside, core)) + list(itertools.product(core, inside))]
    out += [["get", ["s", a, b], []] for a, b in itertools.product(inside[0::2], inside[1::2])]
    if rng is not None and len(out) > 25:
        out = rng.sample(out, 25)
    spat = [[["s", 1, None]], [["s", None, None], ["s", None, -1]], [["s", 0, 1], ["s", 1, 2]], [["s", 5, None]]]
    for sp in spat:
        out.append(["get", ["s", None, None], sp])
        out.append(["get", ["i", -1], sp])
        out.append(["get", ["s", f"{tmin[0] - w0}ns", tmax[-1]], sp])
    # refused items
    out += [["get", ["sstep", None, None], []], ["get", ["sstep", 0, 2], [["s", None, None]]], ["get", ["o", "float"], []],
            ["get", ["o", "list"], []], ["get", ["i", 0], [["i", 0]]], ["get", ["i", 0], [["s", None, None], ["i", 1]]],
            ["get", ["s", None, None], [["sstep", None, None]]], ["get", ["s", None, None], [["s", None, None], ["o"]]],
            ["get", ["i", n + 3], [["i", 0]]], ["get", ["sstep", None, None], [["i", 0]]],
            ["get", ["s", "abc", None], []], ["get", ["s", None, "1ns 1us"], []], ["get", ["s", "", None], []],
            ["get", ["s", " 5 ns", None], [["i", 0]]],
            # bounds that are neither numbers nor strings
            ["get", ["s", [0], None], []], ["get", ["s", None, [0, 1]], []], ["get", ["s", [0], "abc"], []], ["get", ["s", "abc", [0]], []],
            ["get", ["s", 0, []], [["s", None, None]]], ["get", ["s", [1], None], [["i", 0]]]]
    return out


def cases(tier, rng):
    quick = tier == "quick"
    # ---- corpus: boundary placements that were informative while building
    base = kymo_case(3, 4, 2, 1, 2)
    img, ranges = kymo_reference(base)
    yield dict(base, stream="corpus", program=[["slice", ranges[1][0], ranges[2][0]]])
    yield dict(base, stream="corpus", program=[["slice", ranges[1][0] + 1, ranges[3][0] + 1], ["flip"]])
    yield dict(base, stream="corpus", program=[["flip"], ["slice", ranges[0][0], ranges[2][0]]])
    yield dict(base, stream="corpus", program=[["crop", "1/8", "1/4"], ["crop", "0", "1/8"]])
    # finding F10 (fixed in /repo 9339b86): a slice of a slice with a stop beyond the first slice returned later lines
    yield dict(base, stream="corpus", program=[["slice", ranges[1][0], ranges[2][0] + 1], ["slice", ranges[0][0] - 5, ranges[3][1] + 10**9]])
    yield dict(base, stream="corpus", program=[["slice", ranges[0][0], ranges[1][0]], ["slice", ranges[0][0], ranges[3][1] + 1], ["flip"]])

    # a second calibration to base pairs is refused, also after other operations; the first one survives them
    yield dict(base, stream="corpus", program=[["kbp", "3/4"], ["kbp", "6"]])
    yield dict(base, stream="corpus", program=[["kbp", "3/4"], ["down", 1, 2], ["kbp", "6"]])
    yield dict(base, stream="corpus", program=[["crop", "1/8", "3/8"], ["kbp", "3/4"], ["flip"]])
    # round H (thorough, seed 0): a crop leaves only never-recorded pixels of the unfinished last frame, then a time string is
    # looked up among frame starts [t, 0] that are not in order (NumPy bisects, the model counts): not judged, not compared
    yield dict(scan_case(4, 3, 2, 2, 0, 0, 1, 2, 1, unfinished=(3, 0)), stream="corpus",
               program=[["cropxy", -1, None, -1, None], ["get", ["s", "12800ns", bc.START + 742400], [["s", 5, None]]]])
    yield dict(scan_case(3, 2, 3, 2, 0, 0, 2, 0, 1, unfinished=(3, 0)), stream="corpus",
               program=[["slice", 1, None, 1, None, None, None, "tuple"], ["get", ["s", "-307200ns", "12us 800ns"], []]])
    # ---- exhaustive small scope: all programs of length <= 2 over the alphabet on fixed small objects
    kobjs = [kymo_case(3, 4, 2, 1, 2), kymo_case(4, 3, 1, 0, 1, trunc_pixels=2, pixel_nm=250.0)]
    if not quick:
        kobjs += [kymo_case(2, 1, 3, 2, 3), kymo_case(5, 6, 1, 0, 0, pixel_nm=500.0, dt=1000)]
    for obj in kobjs:
        yield dict(obj, stream="small-scope", program=[])
        alpha = kymo_alphabet(obj)
        for o in alpha:
            yield dict(obj, stream="small-scope", program=[o])
        # second level: the alphabet is re-derived on a coarser grid to keep the product finite
        r2 = rng.fork("k2")
        # pairs: the user-style items (hundreds of bound combinations at level one) enter with a sample
        items = [o for o in alpha if o[0] in ("get", "getstep", "scalar")]
        alpha2 = [o for o in alpha if o[0] not in ("get", "getstep", "scalar")] + r2.sample(items, min(len(items), 15))
        a1 = alpha2 if not quick else r2.sample(alpha, min(len(alpha), 40))
        a2 = kymo_alphabet(obj, rng=r2, full=False)
        if quick:
            a2 = r2.sample(a2, min(len(a2), 40))
        for o1, o2 in itertools.product(a1, a2):
            yield dict(obj, stream="small-scope", program=[o1, o2])
    # ---- acquisition timing of regular kymographs (what `regularImg` of the model claims; theorem regular_establishes)
    for P, L, k, lead, dead, dt in itertools.product((1, 2, 3), (1, 2, 3), (1, 2, 3), (0, 2), (0, 1, 3), (12800, 16)):
        if quick and (P + L + k + lead + dead) % 2 and dt == 16:
            continue
        yield dict(kymo_case(P, L, k, lead, dead, dt=dt), kind="regular", stream="small-scope", program=[])
    rr = rng.fork("c06-regular")
    for i in range(40 if quick else 600):
        sub = rr.fork(i)
        yield dict(kymo_case(sub.randint(1, 6), sub.randint(1, 7), sub.randint(1, 4), sub.randint(0, 4), sub.randint(0, 5),
                             dt=sub.choice([12800, 1000, 16]), salt=i), kind="regular", stream="random", program=[], subseed=i)
    # ---- pixel sizes that are not binary fractions: the crop is executed in floating point (cropf)
    yield from float_crop_cases(quick, rng)
    sobjs = [scan_case(3, 2, 3, 1, 1, 1, 2, 0, 1), scan_case(2, 3, 2, 2, 0, 1, 0, 1, 0), scan_case(3, 3, 1, 1, 0, 1, 1, 0, 1),
             # recording stopped inside the last frame (its remaining pixels are zero padded, image and timestamps alike)
             scan_case(3, 2, 3, 2, 1, 1, 2, 0, 1, unfinished=(2, 1))]
    if not quick:
        sobjs += [scan_case(2, 2, 4, 1, 2, 0, 3, 1, 2), scan_case(4, 2, 1, 2, 1, 2, 0, 1, 0, scan_count=1)]
    # every order of the scan axes (X, Y, Z = 0, 1, 2): the first three objects get the full product, the others a sample
    n_full = len(sobjs)
    sobjs += [scan_case(3, 2, 2, 2, 1, 1, 1, 1, 2), scan_case(2, 3, 2, 1, 0, 1, 2, 2, 0), scan_case(3, 3, 2, 2, 1, 0, 1, 2, 1),
              scan_case(2, 2, 3, 1, 1, 1, 0, 0, 2), scan_case(2, 3, 4, 1, 0, 1, 1, 1, 0, unfinished=(4, 0)),
              scan_case(3, 2, 1, 2, 1, 0, 0, 0, 1, unfinished=(4, 1))]
    for oi, obj in enumerate(sobjs):
        yield dict(obj, stream="small-scope", program=[])
        alpha = scan_alphabet(obj)
        r2 = rng.fork("s2")
        light = quick or oi >= n_full
        level1 = alpha
        if quick and oi >= n_full:
            # the resolution of frame bounds does not depend on the axis order: the objects that only vary the axes get a
            # sample of the (hundreds of) bound combinations of scan[a:b] in the quick tier
            plain = [o for o in alpha if o[0] == "get" and o[1][0] == "s" and not o[2]]
            keep = {id(o) for o in r2.fork("level1").sample(plain, min(len(plain), 300))}
            level1 = [o for o in alpha if not (o[0] == "get" and o[1][0] == "s" and not o[2]) or id(o) in keep]
        for o in level1:
            yield dict(obj, stream="small-scope", program=[o])
        items = [o for o in alpha if o[0] == "get"]
        alpha2 = [o for o in alpha if o[0] != "get"] + r2.sample(items, min(len(items), 10))
        if not light:  # thorough: every first op, but of the (hundreds of) timestamp windows a sample
            tw = [o for o in alpha2 if o[0] == "slicet"]
            a1 = [o for o in alpha2 if o[0] != "slicet"] + r2.sample(tw, min(len(tw), 170))
        else:
            a1 = r2.sample(alpha, min(len(alpha), 40 if oi < n_full else 15))
        a2 = alpha2 if not light else r2.sample(alpha, min(len(alpha), 25 if oi < n_full else 12))
        for o1, o2 in itertools.product(a1, a2):
            # timestamps of the second op must be drawn for the derived object; keep index/slice/crop ops only
            if o2[0] == "slicet" or (o2[0] == "get" and o1[0] in ("index", "slice", "slicet", "get") and r2.chance(0.6)):
                continue
            yield dict(obj, stream="small-scope", program=[o1, o2])

    # ---- seeded random objects and programs
    r = rng.fork("c06-random")
    N = 250 if quick else 6000
    for i in range(N):
        sub = r.fork(i)
        plen = sub.choice([1, 2, 2, 3] if not quick else [1, 2, 2])
        if sub.chance(0.55):
            P, lines = sub.randint(1, 5), sub.randint(1, 6)
            k = sub.randint(1, 3)
            trunc = sub.randint(1, P) if (sub.chance(0.25) and lines >= 2) else None
            obj = kymo_case(P, lines, k, sub.randint(0, 3), sub.randint(0, 3), trunc_pixels=trunc,
                            pixel_nm=sub.choice([125.0, 250.0, 500.0]), dt=sub.choice([12800, 1000, 16]), salt=i)
            prog = []
            cur = obj
            alpha = kymo_alphabet(obj, rng=sub, full=False)
            for _ in range(plen):
                prog.append(sub.choice(alpha))
            yield dict(obj, stream="random", program=prog, subseed=i)
        else:
            fast, slow = sub.choice([(0, 1), (1, 0), (0, 2), (1, 2), (2, 1), (2, 0)])
            frames = sub.randint(1, 4)
            # P, L >= 2: pylake squeezes singleton image axes, which turns a one-line/one-pixel scan into a
            # lower-dimensional array (outside what the property calls a scan)
            sP, sL = sub.randint(2, 4), sub.randint(2, 4)
            obj = scan_case(sP, sL, frames, sub.randint(1, 2), sub.randint(0, 2), sub.randint(0, 2),
                            sub.randint(0, 3), fast, slow, dt=sub.choice([12800, 1000]), scan_count=sub.choice([0, 0, frames]), salt=i,
                            unfinished=(sub.randint(1, sP * sL - 1), sub.randint(0, 3)) if sub.chance(0.3) else None)
            alpha = scan_alphabet(obj, rng=sub)
            prog = [sub.choice(alpha)]
            for _ in range(plen - 1):
                prog.append(sub.choice([o for o in alpha if o[0] != "slicet"]))
            yield dict(obj, stream="random", program=prog, subseed=i)


def extra_coverage(results):
    outcomes, opsn, kinds = {}, {}, {}
    for r in results:
        a = r["impl"][0]
        key = "view" if a.startswith("view") else a.split(" ")[0]
        outcomes[key] = outcomes.get(key, 0) + 1
        kinds[r["case"]["kind"]] = kinds.get(r["case"]["kind"], 0) + 1
        for o in r["case"]["program"]:
            opsn[o[0]] = opsn.get(o[0], 0) + 1
    # branches of Kymo.__getitem__ as the user calls it, and whether the window invariant the theorems assume
    # (every line inside [start, stop), lines in order and not overlapping) holds on the real objects
    branches, wf = {}, {"holds": 0, "fails": 0, "not-applicable": 0}
    sbranches = {}

    def bkind(b):
        if b is None:
            return "None"
        if isinstance(b, str):
            return "string"
        if isinstance(b, list):
            return "other"
        return "index" if abs(b) < 1388534400000000000 else "timestamp"

    for r in results:
        prog = r["case"]["program"]
        if r["case"]["kind"] != "kymo":
            if prog and prog[-1][0] == "get":
                fi, sp = prog[-1][1], prog[-1][2]
                a = r["impl"][0]
                ftxt = fi[0] if fi[0] not in ("s", "sstep") else f"{fi[0]}({bkind(fi[1])},{bkind(fi[2])})"
                key = f"scan[{ftxt}{''.join(',' + x[0] for x in sp)}] (op {len(prog)}) -> " + ("view" if a.startswith("view") else a.split(" ")[0])
                sbranches[key] = sbranches.get(key, 0) + 1
            continue
        a = r["impl"][0]
        if prog and prog[-1][0] in ("get", "getstep", "scalar"):
            o = prog[-1]
            kinds_ = "+".join("None" if b is None else ("string" if isinstance(b, str) else "timestamp") for b in o[1:3]) if o[0] != "scalar" else "-"
            key = f"{o[0]}[{kinds_}] -> " + ("view" if a.startswith("view") else a.split(" ")[0])
            branches[key] = branches.get(key, 0) + 1
        f = fields(a)
        if f is None or f.get("ranges") in (None, "undefined") or any(o[0] == "flip" for o in prog):
            wf["not-applicable"] += 1
            continue
        rs = [tuple(int(x) for x in t.split(":")) for t in f["ranges"].strip("[]").split(",") if t]
        if rs and rs[-1][0] <= 0:
            wf["not-applicable"] += 1  # unfinished last line whose first shown pixel was never acquired
            continue
        ok = all(a0 < b0 for a0, b0 in rs) and all(rs[i][1] <= rs[i + 1][0] for i in range(len(rs) - 1)) and \
            (not rs or (int(f["start"]) <= rs[0][0] and rs[-1][1] <= int(f["stop"])))
        wf["holds" if ok else "fails"] += 1
    return {"outcomes": outcomes, "operations": opsn, "object_kinds": kinds, "kymo_getitem_last_op_vs_final_outcome": branches, "scan_getitem_last_op_vs_final_outcome": sbranches,
            "window_invariant_KWf_on_real_views": wf}
