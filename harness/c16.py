"""C16 — HMM inference (Viterbi, forward-backward, Baum-Welch) and dwell extraction:
correspondence + oracle (see DESIGN.md 6/C16)."""
import copy
import itertools
import json
import math
import sys
import warnings
from contextlib import contextmanager
from fractions import Fraction

import numpy as np

from common import _raised_in_harness, canonical, dec_float, enc_bool, enc_float, enc_list, enc_listlist, enc_rat, errname

PROP = "C16"
THEOREMS = [
    "Verif.C16.viterbi_optimal",
    "Verif.C16.dwells_partition",
    "Verif.C16.dwells_tile",
    "Verif.C16.dwells_exclude_ends",
    "Verif.C16.dwells_keys",
    "Verif.C16.dwells_all",
    "Verif.C16.likelihood_exact",
    "Verif.C16.gamma_normalised",
    "Verif.C16.xi_marginal",
    "Verif.C16.update_normalised",
    "Verif.C16.gamma_exact",
    "Verif.C16.xi_exact",
    "Verif.C16.scaling_positive",
    "Verif.C16.posteriors_nonneg",
    "Verif.C16.occupancy_positive",
    "Verif.C16.inference_exact_of_posModel",
    "Verif.C16.update_normalised_of_posModel",
    "Verif.C16.hypotheses_needed",
    "Verif.C16.em_monotone",
    "Verif.C16.em_monotone_of_pos",
    "Verif.C16.em_monotone_general",
    "Verif.C16.em_link",
    "Verif.C16.em_monotone_tables",
    "Verif.C16.emTables_mono",
    "Verif.C16.em_link_update",
    "Verif.C16.dwell_counts_conserve",
    "Verif.C16.generic_model_is_executable_model",
    "Verif.C16.baum_welch_step_monotone",
    "Verif.C16.baum_welch_monotone",
    "Verif.C16.baum_welch_step_monotone_zeros",
    "Verif.C16.dwellsChecked_spec",
    "Verif.C16.initCheck_spec",
]
RULE = (
    "corpus (zero-probability initial states/transitions, the all-impossible model, constant paths, single runs) + "
    "small scope: for every one of 20 (quick) / 200 (thorough) seeded random Gaussian-emission models with K<=3 "
    "states (about half of them with zero entries in pi and A) every trace length T<=5 (quick) / T<=7 (thorough): "
    "the decoded path of HiddenMarkovModel.state_path is scored exactly by the Lean model against the proved optimum "
    "and against a brute-force maximum over ALL K^T paths; forward_backward/calculate_temporary_variables/"
    "ClassicHmm.update are compared with the exact rational model and with brute-force sums over ALL K^T paths; "
    "every label sequence of length <=7 (quick) / <=9 (thorough) over 3 labels through _dwellcounts_from_statepath "
    "in both modes, and a sample of them through HiddenMarkovModel.extract_dwell_times; every ordered pair of label "
    "sequences of equal length <=3 (quick) / <=4 (thorough) as three calls a, b, a of extract_dwell_times on ONE "
    "HiddenMarkovModel / GaussianMixtureModel object over the same time window (all mode combinations), and 150 / 3000 "
    "seeded random sequences of 2-6 calls on one model object (next trace: same start/dt/length with other data, the same "
    "trace again, exactly one of start/dt/length changed with the same or other data, or unrelated; state_path calls "
    "interleaved): every call must "
    "return the dwells of the trace it was given + seeded random: medium traces "
    "(T<=40 quick / <=64 thorough) through the exact forward-backward model, long traces (T<=5000) through "
    "Baum-Welch (manual E/M steps and the public constructor with tol in {0, 1e-3, 0.5, 5}: n_iter, converged and "
    "fit_info.log_likelihood must match the E/M sequence) for normalisation and EM monotonicity with the final "
    "model's Viterbi path scored exactly by the Lean model; trained HiddenMarkovModel OBJECTS: for every small-scope model "
    "and every T>=2 (1-3 iterations, tol 0), for 40 / 400 short and medium traces (T<=40 / <=64, overlapping states, in a "
    "third of them the first observation between two state means, 1-5 iterations, tol in {0, 1e-3, 0.5}) and for the long "
    "traces, fit_info.log_likelihood has to be the exact log-likelihood of the parameters the SAME object reports "
    "(initial_state_probability, transition_matrix, means, variances): sum over ALL K^T paths where K^T<=2200, the exact "
    "Lean forward-backward model for T<=20, an independent log-space forward recursion beyond; read when the constructor "
    "returns and again after state_path and after the object served as initial_guess of one more Baum-Welch iteration, "
    "which must itself be exact, normalised and not below; the observation sequence in the array forms callers hold: "
    "for each of the element types int64, uint32, int32, uint8, float32, uint16, int16, uint64 (integer types: models on a "
    "count scale with state spacing 0.5-200 counts, traces rounded to integers, means above / around / below zero) 16 / 64 "
    "x 3 small-scope models with every T<=5 / 7 (vit, fb, em as above, sums over ALL K^T paths), 32 / 160 medium traces "
    "through the exact forward-backward model and 32 / 200 Baum-Welch runs (T<=40 / 64, a quarter of them long, T<=800 / "
    "5000), the array being its own buffer, a strided view or read-only and the constructor getting the array or a Slice; "
    "the numbers in the array are exactly those the model and the oracle work on; long label sequences over <=5 labels (negative labels "
    "included) + malformed stream (empty trace, NaN labels, wrong initial_guess type, state-count mismatch). "
    "Public twins of the anchored private functions: every forward-backward case is also run as ONE Baum-Welch iteration of "
    "the public constructor started from the model (updated pi, A, means, variances against the exact model, pi' against the "
    "exact posterior of the first sample, the reported log-likelihood against the reported parameters); every Baum-Welch case "
    "with T<=64 is also iterated one step at a time through the public constructor, each step started from the previous model "
    "object (same clauses as the manual E/M steps).  A private function that is not reachable under its anchored name gives "
    "'?' observations (never compared, listed in coverage.private_ties) and leaves its public twin: the chain for every T, "
    "extract_dwell_times for the label sequences a model can decode. "
    "Round D: every forward-backward run of the Lean model also reports whether the model has probability weights and positive "
    "emission densities and, if so, that every c_t > 0, gamma, xi >= 0 and occupancies are positive (theorems scaling_positive, "
    "posteriors_nonneg, occupancy_positive), compared with the signs of the code's arrays; every forward-backward case with "
    "K^T <= 243 and T >= 2 also evaluates the exact likelihood (sum over ALL paths) before and after re-estimating pi, A with the "
    "emission table kept (op c16.emtab, theorem em_monotone_tables) against forward_backward of the model holding the pi', A' that "
    "ClassicHmm.update returned with the old emissions; every label sequence also gives the number of samples all dwells cover "
    "together (op c16.dwelltot, theorem dwell_counts_conserve). "
    "Non-trivial: decoded path with >=2 states; forward-backward with K>=2 and T>=2; EM with K>=2 and >=2 "
    "iterations; label sequence with >=2 runs; call sequence with >=2 calls and a trace with >=2 runs; malformed input "
    "that must raise."
)
TRUSTED = [
    "the Gaussian log-density log N(x; mu, 1/tau) and log pi, log A are computed by the harness with math.log/math.exp "
    "independently of state_log_likelihood and handed to the Lean model as exact rationals of those doubles",
    "floating point: the code decides arg-max ties and accumulates scores in IEEE doubles; the model is exact, so "
    "path scores and posteriors are compared within 1e-9*scale, not bit for bit; underflow for very long traces is "
    "outside the model (the code's scaling is what the model mirrors)",
    "display rounding of the model's rationals (>= 160 significant bits kept) when numerator/denominator exceed 400 bits",
    "scikit-learn (GaussianMixture initial guess) is outside: models are built with ClassicHmm(...) directly",
    "a model object with GIVEN parameters cannot be made through the public API (the constructors train): it is a copy of a "
    "HiddenMarkovModel / GaussianMixtureModel trained once per run through the public constructors, with n_states and the "
    "parameter object replaced; the instance attribute that holds the parameters and the class of the parameter object are "
    "learned from that trained object (positional field order K, mu, tau, pi, A resp. K, mu, tau, weights is assumed and "
    "checked by reading the given parameters back); all parameters are read back through the public properties only",
]
ASSUMPTIONS = [
    "theorems gamma_normalised / likelihood_exact / update_normalised assume every scaling factor c_t != 0 "
    "(observations not impossible under the model); generators keep max_j log B_t(j) > -600",
    "update_normalised excludes rows of A' whose state has zero occupancy before the last time point (0/0 in the code)",
    "the update step is compared for T >= 2 (for T = 1 the code divides 0/0)",
    "the ascent of the log-likelihood is not compared across a Baum-Welch step that starts or ends in a model with a state's "
    "precision above 1e12 (variance collapse onto identical observations, frequent in integer traces: the Gaussian is "
    "singular, the likelihood unbounded and its computed value rounding noise; "
    "corpus/C16/em_variance_collapse_identical_counts.json); such runs are counted",
    "Baum-Welch ascent (baum_welch_step_monotone / baum_welch_monotone) is a theorem about the ALGORITHM in exact real "
    "arithmetic: the forward-backward model with Rat replaced by an arbitrary field (Lemmas/C16F, generated text; at F = Q "
    "proved to be the executable model the harness runs against the code: generic_model_is_executable_model), instantiated "
    "at the reals with the Gaussian emission table; hypotheses: strictly positive pi and A with totals at most one (exactly "
    "one after one exact update - re-established by the step), positive variances, at least two samples that are not all "
    "equal (then no re-estimated variance is zero).  Models with zero entries in pi / A: baum_welch_step_monotone_zeros (the algorithm, "
    "side conditions: no row of A' is 0/0 and every re-estimated variance is positive), em_monotone (posteriors as sums over "
    "all paths, zero entries allowed, side condition that no re-estimated variance of an occupied state is zero) and "
    "em_monotone_tables / emTables_mono (executable model, emission table kept), joined to the executable model by em_link / "
    "em_link_update.  Not formal: that the doubles of the code follow the exact reals (compared within 1e-9*scale on every run)",
    "the implementation's log-likelihood sequence itself is still observed on every run (oracle), as before",
    "state labels handed to dwell extraction are integers",
]

sys.set_int_max_str_digits(0)
TOL = 1e-9
NEG_INF = float("-inf")

# ------------------------------------------------------------------ implementation access


class TieLost(Exception):
    """the harness cannot build the objects the property is about (reported as a broken tie, never as an answer of the code)"""


def _lk():
    """the PUBLIC names only: the model classes as the package exports them, Slice / Continuous of the public channel module"""
    import lumicks.pylake as lk
    from lumicks.pylake.channel import Continuous, Slice

    return Slice, Continuous, lk.HiddenMarkovModel, lk.GaussianMixtureModel


@contextmanager
def quiet():
    old = warnings.showwarning
    warnings.showwarning = lambda *a, **k: None
    try:
        with np.errstate(all="ignore"):
            yield
    finally:
        warnings.showwarning = old


# The property is about models with GIVEN parameters; the public constructors only TRAIN models.  A model object with given
# parameters therefore has to be assembled by hand, which needs (i) the class of the parameter object and (ii) the instance
# attribute the model class keeps it in.  Neither is named here: both are read off objects that the PUBLIC constructors built
# (so a renamed slot, a renamed or moved parameter class or a moved module is followed).  The anchored algorithms
# (forward_backward, calculate_temporary_variables, ClassicHmm.update, _dwellcounts_from_statepath) have no public name: they
# are called directly while they are reachable under their anchored names; when one is not, its observations are "?" (ignored
# by agree / oracle / nontrivial, never an answer of the implementation) and the same behaviour stays tied through the public
# constructor / extract_dwell_times (see `pub1`, `chain`, the public twin of the `dwell` op).
_LAYOUT = {}
TEMPLATE_DATA = [0.0, 0.1, 10.0, 10.1, 0.05, 9.9, 0.0, 10.05, 0.1, 10.0, 9.95, 0.02, 10.1, 0.0, 10.0, 0.07]
ANCHOR_MODULE = "lumicks.pylake.population.detail.hmm"
ANCHOR_ALGOS = ("forward_backward", "calculate_temporary_variables")
ANCHOR_UPDATE = "update"
ANCHOR_DWELL = ("lumicks.pylake.population.dwelltime", "_dwellcounts_from_statepath")


def _slots(obj):
    """(name of the instance attribute holding what .fit_info returns, name of the one holding the parameter object)"""
    attrs = dict(vars(obj))
    info = obj.fit_info
    fit = [n for n, v in attrs.items() if v is info]
    cand = [n for n, v in attrs.items() if n not in fit and type(v).__module__.split(".")[:2] == ["lumicks", "pylake"]]
    if len(cand) > 1:  # the one the public `means` reads from
        means = obj.means
        cand = [n for n in cand if any(v is means for v in getattr(attrs[n], "__dict__", {}).values())] or cand
    if len(cand) != 1:
        raise TieLost(f"cannot tell where {type(obj).__name__} keeps its parameters (instance attributes {sorted(attrs)})")
    return (fit[0] if len(fit) == 1 else None), cand[0]


def learned_layout():
    if "error" in _LAYOUT:
        raise TieLost(_LAYOUT["error"])
    if not _LAYOUT:
        import importlib

        _, _, HMM, GMM = _lk()
        state = np.random.get_state()  # scikit-learn's k-means initialisation draws from NumPy's global generator
        L = {}
        try:
            with quiet():
                np.random.seed(12345)
                data = np.array(TEMPLATE_DATA)
                g = GMM(data, 2)
                h = HMM(data, 2, max_iter=1, initial_guess=g)
            L["gmm_fit"], L["gmm_par"] = _slots(g)
            L["hmm_fit"], L["hmm_par"] = _slots(h)
            L["GmmPar"], L["HmmPar"] = type(getattr(g, L["gmm_par"])), type(getattr(h, L["hmm_par"]))
            L["gmm_template"], L["hmm_template"] = g, h
            L["learned"] = True
            _LAYOUT.update(L)
            _check_assembly()
        except Exception as e:
            # no usable template through the public constructors (that by itself is judged by the `init` cases): the anchored
            # names, as far as they are there
            why = str(e) if isinstance(e, TieLost) else f"no template model through the public constructors: {type(e).__name__} {str(e)[:120]}"
            _LAYOUT.clear()
            try:
                L = {"gmm_fit": "_fit_info", "gmm_par": "_model", "hmm_fit": "_fit_info", "hmm_par": "_model", "gmm_template": None,
                     "hmm_template": None, "learned": False, "HmmPar": importlib.import_module(ANCHOR_MODULE).ClassicHmm,
                     "GmmPar": importlib.import_module("lumicks.pylake.population.mixture").ClassicGmm}
                _LAYOUT.update(L)
                _check_assembly()
            except Exception:
                _LAYOUT.clear()
                _LAYOUT["error"] = why
                raise TieLost(why)
        finally:
            np.random.set_state(state)
        # the module of the anchored algorithms: under its anchored path, else wherever the parameter class of a trained
        # HiddenMarkovModel is defined
        try:
            L["algos"] = importlib.import_module(ANCHOR_MODULE)
            L["algos_at_anchor"] = True
        except ImportError:
            L["algos"] = sys.modules.get(L["HmmPar"].__module__)
            L["algos_at_anchor"] = False
        try:
            L["dwell"] = getattr(importlib.import_module(ANCHOR_DWELL[0]), ANCHOR_DWELL[1], None)
        except ImportError:
            L["dwell"] = None
        _LAYOUT.update(L)
    return _LAYOUT


def _check_assembly():
    """set-up check, once per run: a model object assembled by hand reports, through its PUBLIC properties, exactly the
    parameters it was given (so the slot, the parameter classes and their positional field order are what is assumed here)"""
    mu, tau, pi, A, w = [1.5, 4.25], [4.0, 0.5], [0.25, 0.75], [[0.875, 0.125], [0.375, 0.625]], [0.125, 0.875]
    try:
        h = stub_hmm(hmm_params(2, mu, tau, pi, A), 2)
        g = stub_gmm(2, mu, tau, w)
        ok = (h.n_states == 2 and g.n_states == 2 and [r.tolist() for r in reported(h)] == [pi, A, mu, [1.0 / t for t in tau]]
              and np.array(g.means, dtype=float).tolist() == mu and np.array(g.variances, dtype=float).tolist() == [1.0 / t for t in tau]
              and np.array(g.weights, dtype=float).tolist() == w)
    except TieLost:
        raise
    except Exception as e:
        raise TieLost(f"a model object with given parameters cannot be assembled: {type(e).__name__} {str(e)[:120]}")
    if not ok:
        raise TieLost("a model object assembled with given parameters does not report them through its public properties")


class Unreachable(Exception):
    """an anchored private function is not reachable under its name / with its anchored signature"""


def anchored(f, *args, returns=None, **kw):
    """call an anchored private function.  Not there, a call that does not even bind, or another number of results: the direct
    tie is lost (Unreachable: the observations become "?"), which says nothing about what the code computes"""
    if not callable(f):
        raise Unreachable()
    try:
        r = f(*args, **kw)
    except TypeError as e:
        if _raised_in_harness(e):  # raised by the call itself, not inside the function
            raise Unreachable()
        raise
    if returns is not None and not (isinstance(r, tuple) and len(r) == returns):
        raise Unreachable()
    return r


def algo(name):
    """an anchored function of the HMM algorithms module, or None when it is not reachable under that name"""
    f = getattr(learned_layout()["algos"], name, None)
    return f if callable(f) else None


def private_ties():
    """which of the private ties were reachable in this run (evidence)"""
    try:
        L = learned_layout()
    except TieLost as e:
        return {"error": str(e)}
    return {
        "model layout": "learned from publicly trained objects" if L["learned"] else "anchored names (no template through the public constructors)",
        "HiddenMarkovModel parameter slot": L["hmm_par"],
        "HiddenMarkovModel fit-info slot": L["hmm_fit"], "GaussianMixtureModel parameter slot": L["gmm_par"],
        "GaussianMixtureModel fit-info slot": L["gmm_fit"],
        "parameter classes": [f"{c.__module__}.{c.__qualname__}" for c in (L["HmmPar"], L["GmmPar"])],
        f"module {ANCHOR_MODULE}": "reachable" if L["algos_at_anchor"] else f"moved, followed to {getattr(L['algos'], '__name__', None)}",
        **{n: ("reachable" if algo(n) else "not reachable: observations '?', public twin only") for n in ANCHOR_ALGOS},
        f"ClassicHmm.{ANCHOR_UPDATE}": "reachable" if callable(getattr(L["HmmPar"], ANCHOR_UPDATE, None)) else "not reachable: observations '?', public twin only",
        ANCHOR_DWELL[1]: "reachable" if L["dwell"] else "not reachable: observations '?', public twin only",
    }


def hmm_params(K, mu, tau, pi, A):
    """the parameter object of a hidden Markov model (anchored ClassicHmm: K, mu, tau, pi, A)"""
    return learned_layout()["HmmPar"](int(K), np.array(mu, dtype=float), np.array(tau, dtype=float), np.array(pi, dtype=float),
                              np.array(A, dtype=float).reshape(int(K), int(K)))


def classic(case):
    return hmm_params(case["K"], case["mu"], case["tau"], case["pi"], case["A"])


def stub_hmm(model, K):
    """a HiddenMarkovModel with given parameters (the constructor would train it): a copy of a publicly trained object whose
    parameter object is replaced"""
    L = learned_layout()
    # (a copy: whatever else the constructor sets up stays in place)
    h = copy.deepcopy(L["hmm_template"]) if L["hmm_template"] is not None else _lk()[2].__new__(_lk()[2])
    h.n_states = int(K)
    setattr(h, L["hmm_par"], model)
    if L["hmm_fit"]:
        setattr(h, L["hmm_fit"], None)
    return h


def stub_gmm(K, mu, tau, weights):
    """a GaussianMixtureModel with given parameters"""
    L = learned_layout()
    g = copy.deepcopy(L["gmm_template"]) if L["gmm_template"] is not None else _lk()[3].__new__(_lk()[3])
    g.n_states = int(K)
    setattr(g, L["gmm_par"], L["GmmPar"](int(K), np.array(mu, dtype=float), np.array(tau, dtype=float), np.array(weights, dtype=float)))
    if L["gmm_fit"]:
        setattr(g, L["gmm_fit"], None)
    return g


def reported(h):
    """the parameters of a model object as its PUBLIC properties report them: pi, A, means, variances (float arrays)"""
    return (np.array(h.initial_state_probability, dtype=float), np.atleast_2d(np.array(h.transition_matrix, dtype=float)),
            np.array(h.means, dtype=float), np.array(h.variances, dtype=float))


def public_params(h):
    """what a HiddenMarkovModel reports about itself through its public properties, read at this moment (copies, as bit
    patterns): fit_info.log_likelihood, initial_state_probability, transition_matrix, means, variances (as 1/variance)"""
    with np.errstate(all="ignore"):
        tau = 1.0 / np.asarray(h.variances, dtype=float)
    return {"ll": enc_float(h.fit_info.log_likelihood), "pi": fl(np.array(h.initial_state_probability, dtype=float)),
            "A": [fl(r) for r in np.atleast_2d(np.array(h.transition_matrix, dtype=float))], "mu": fl(np.array(h.means, dtype=float)),
            "tau": fl(tau)}


def trace_of(data, dt=1000):
    Slice, Continuous, *_ = _lk()
    return Slice(Continuous(np.array(data, dtype=float), 0, dt))


# The property speaks of ANY observation sequence.  What the caller hands over is a NumPy array (or a Slice holding one):
# the same numbers can arrive as float64, as integers (photon counts are stored as unsigned integers, np.random.poisson
# gives int64), in single precision, as a strided view into a larger recording or as a read-only buffer.
OBS_DTYPES = ["int64", "uint32", "int32", "uint8", "float32", "uint16", "int16", "uint64"]
OBS_LAYOUTS = ["own", "strided", "readonly"]


class SetupFailure(Exception):
    pass


def obs_array(case):
    """the observation sequence of the case as the array the caller would hand over: the numbers case["data"] in the
    element type case["dtype"] (float64 unless stated) and the memory layout case["layout"] (own contiguous buffer unless
    stated; "strided": every other element of a larger buffer; "readonly": not writeable).  The array holds EXACTLY the
    numbers of case["data"] (checked), so model and oracle keep working on case["data"]"""
    dt = np.dtype(case.get("dtype", "float64"))
    vals = [float(v) for v in case["data"]]
    if dt.kind in "iu":
        if any(v != math.floor(v) for v in vals):
            raise SetupFailure(f"observations {vals[:8]} are not integers")
        a = np.array([int(v) for v in vals], dtype=dt)
    else:
        a = np.array(vals, dtype=dt)
    if [float(v) for v in a] != vals:
        raise SetupFailure(f"observations {vals[:8]} do not exist in {dt}")
    layout = case.get("layout", "own")
    if layout == "strided":
        buf = np.full(2 * len(vals), 77, dtype=dt)
        buf[::2] = a
        a = buf[::2]
    elif layout == "readonly":
        a.setflags(write=False)
    elif layout != "own":
        raise SetupFailure(f"layout {layout}")
    return a


def obs_trace(case, dt=1000):
    Slice, Continuous, *_ = _lk()
    return Slice(Continuous(obs_array(case), 0, dt))


def retype(data, dtype):
    """the nearest observation sequence that exists in that element type (integers: rounded, clipped to the range)"""
    dt = np.dtype(dtype)
    if dt.kind in "iu":
        info = np.iinfo(dt)
        return [float(min(max(round(x), int(info.min)), int(info.max))) for x in data]
    return [float(v) for v in np.array(data, dtype=float).astype(dt)]


def seq_model(kind, K):
    """a model OBJECT with well separated states (means 10*j, sd 0.1, uniform pi/A resp. weights): every label sequence is
    the unique optimal decoding of the trace `seq_trace` builds from it"""
    mu = np.array([10.0 * j for j in range(K)])
    if kind == "gmm":
        return stub_gmm(K, mu, np.full(K, 100.0), np.full(K, 1.0 / K))
    return stub_hmm(hmm_params(K, mu, np.full(K, 100.0), np.full(K, 1.0 / K), np.full((K, K), 1.0 / K)), K)


def seq_trace(labels, start, dt):
    Slice, Continuous, *_ = _lk()
    return Slice(Continuous(np.array([10.0 * s for s in labels], dtype=float), int(start), int(dt)))


def counts_of_times(times, dt):
    """dwell times (seconds) as whole numbers of samples: canonical string, or a description of what is wrong"""
    dt_s = dt * 1e-9
    counts = {}
    for s, v in times.items():
        cs = []
        for x in np.atleast_1d(v):
            c = round(float(x) / dt_s)
            if abs(float(x) - c * dt_s) > 1e-9 * max(abs(float(x)), dt_s):
                return f"dwell time {float(x)!r} is not a multiple of the sample period"
            cs.append(c)
        counts[s] = cs
    return show_counts(counts)


_decodes = {}


def decodes_trivially(kind, K, labels):
    """set-up check on a FRESH model object (never the one under test): the labels are what state_path decodes"""
    key = (kind, K, tuple(labels))
    if key not in _decodes:
        if len(_decodes) > 200000:
            _decodes.clear()
        _decodes[key] = [int(s) for s in seq_model(kind, K).state_path(seq_trace(labels, 0, 1000)).data] == list(labels)
    return _decodes[key]


def impl_seq(case):
    """a SEQUENCE of public calls on ONE model object: extract_dwell_times (optionally with a state_path call on the same
    object before/after) for traces that may or may not share the time window, the data or the Slice object itself"""
    kind, K = case["kind"], case["K"]
    model = seq_model(kind, K)
    traces = {}
    out = []
    for st in case["steps"]:
        labels, start, dt = [int(s) for s in st["path"]], st["start"], st["dt"]
        try:
            if not decodes_trivially(kind, K, labels):
                out.append("setup-failure: a fresh model does not decode the labels")
                continue
            key = (start, dt, tuple(labels))
            if key not in traces:  # the same trace again is the same Slice object again
                traces[key] = seq_trace(labels, start, dt)
            tr = traces[key]
            peeks = []
            if st.get("peek") == "before":
                peeks.append([int(s) for s in model.state_path(tr).data])
            times = model.extract_dwell_times(tr, exclude_ambiguous_dwells=st["exclude"])
            if st.get("peek") == "after":
                peeks.append([int(s) for s in model.state_path(tr).data])
            if any(p != labels for p in peeks):
                out.append(f"state_path of this model object decodes {peeks[0]}, a fresh model with the same parameters {labels}")
                continue
            out.append(counts_of_times(times, dt))
        except TieLost:
            raise
        except Exception as e:
            out.append(errname(e))
    return out


# ------------------------------------------------------------------ independent formulas (property text)


def gauss_logpdf(x, mu, tau):
    """log N(x; mean mu, variance 1/tau)"""
    return 0.5 * math.log(tau / (2.0 * math.pi)) - 0.5 * tau * (x - mu) * (x - mu)


def log0(p):
    return NEG_INF if p == 0 else math.log(p)


def log_tables(K, pi, A, mu, tau, data):
    lp = [log0(p) for p in pi]
    la = [[log0(a) for a in row] for row in A]
    lb = [[gauss_logpdf(x, mu[j], tau[j]) for j in range(K)] for x in data]
    return lp, la, lb


def enc_score(x):
    return "N" if x == NEG_INF else enc_rat(x)


SC = 1 << 1074  # every finite double is an integer multiple of 2**-1074


def fx(x):
    """a double as an exact integer multiple of 2**-1074 (-inf stays -inf)"""
    if x == NEG_INF:
        return NEG_INF
    n, d = float(x).as_integer_ratio()
    return n * (SC // d)


def unfx(v):
    return NEG_INF if v == NEG_INF else Fraction(v, SC)


def path_score(lp, la, lb, path):
    """exact joint log score of a path from the double log tables (-inf absorbing), and the sum of |terms|"""
    terms = [lp[path[0]], lb[0][path[0]]]
    for t in range(1, len(path)):
        terms.append(la[path[t - 1]][path[t]])
        terms.append(lb[t][path[t]])
    scale = sum(abs(x) for x in terms if x != NEG_INF)
    if any(x == NEG_INF for x in terms):
        return NEG_INF, scale
    return Fraction(sum(fx(x) for x in terms), SC), scale


def best_score_dp(K, lp, la, lb):
    """max over all paths by exact dynamic programming (value only; used beyond the brute-force scope)"""
    def add(a, b):
        return NEG_INF if a == NEG_INF or b == NEG_INF else a + b

    ilp = [fx(v) for v in lp]
    ila = [[fx(v) for v in row] for row in la]
    d = [add(ilp[j], fx(lb[0][j])) for j in range(K)]
    for t in range(1, len(lb)):
        d = [add(max(add(d[i], ila[i][j]) for i in range(K)), fx(lb[t][j])) for j in range(K)]
    return unfx(max(d))


def brute_paths(K, T):
    return itertools.product(range(K), repeat=T)


def brute_posteriors(K, pi, A, B):
    """exact L, gamma, xi by summing P(path, y) over ALL K^T paths (Fractions)"""
    T = len(B)
    Fpi = [Fraction(p) for p in pi]
    FA = [[Fraction(a) for a in row] for row in A]
    FB = [[Fraction(b) for b in row] for row in B]
    L = Fraction(0)
    g = [[Fraction(0)] * K for _ in range(T)]
    x = [[[Fraction(0)] * K for _ in range(K)] for _ in range(max(T - 1, 0))]
    for p in brute_paths(K, T):
        w = Fpi[p[0]] * FB[0][p[0]]
        for t in range(1, T):
            if w == 0:
                break
            w *= FA[p[t - 1]][p[t]] * FB[t][p[t]]
        if w == 0:
            continue
        L += w
        for t in range(T):
            g[t][p[t]] += w
        for t in range(T - 1):
            x[t][p[t]][p[t + 1]] += w
    return L, g, x


def loglik_logspace(K, pi, A, mu, tau, data):
    """log-likelihood by an unscaled log-space forward recursion (log-sum-exp), plain floats"""
    def lse(xs):
        m = max(xs)
        if m == NEG_INF:
            return NEG_INF
        return m + math.log(math.fsum(math.exp(v - m) for v in xs))

    lp, la, lb = log_tables(K, pi, A, mu, tau, data)
    a = [lp[j] + lb[0][j] for j in range(K)]
    for t in range(1, len(data)):
        a = [lse([a[i] + la[i][j] for i in range(K)]) + lb[t][j] for j in range(K)]
    return lse(a)


def loglik_and_scale(K, pi, A, mu, tau, data):
    """the same recursion, also returning 1 + sum_t |log c_t| (c_t = P(y_t | y_0..y_{t-1}), the terms a scaled
    implementation adds up): the conditioning-aware scale for comparing two log-likelihoods"""
    def lse(xs):
        m = max(xs)
        if m == NEG_INF:
            return NEG_INF
        return m + math.log(math.fsum(math.exp(v - m) for v in xs))

    lp, la, lb = log_tables(K, pi, A, mu, tau, data)
    a = [lp[j] + lb[0][j] for j in range(K)]
    tot = lse(a)
    scale = 1.0 + abs(tot)
    for t in range(1, len(data)):
        a = [lse([a[i] + la[i][j] for i in range(K)]) + lb[t][j] for j in range(K)]
        nxt = lse(a)
        if nxt == NEG_INF:
            return NEG_INF, scale
        scale += abs(nxt - tot)
        tot = nxt
    return tot, scale


def mant(x):
    """a finite double >= 0 as (m, e) with x == m * 2**e exactly"""
    m, e = math.frexp(x)
    return int(m * (1 << 53)), e - 53


def brute_loglik(K, pi, A, B):
    """log of the sum of P(path, y) over ALL K^T paths.  Every path product is formed exactly (integer mantissas,
    summed exponents) and the products are added exactly; only the final logarithm rounds"""
    T = len(B)
    P = [mant(v) for v in pi]
    AA = [[mant(v) for v in row] for row in A]
    BB = [[mant(v) for v in row] for row in B]
    acc = {}
    for p in brute_paths(K, T):
        m, e = P[p[0]]
        mb, eb = BB[0][p[0]]
        m, e = m * mb, e + eb
        for t in range(1, T):
            if m == 0:
                break
            ma, ea = AA[p[t - 1]][p[t]]
            mb, eb = BB[t][p[t]]
            m, e = m * ma * mb, e + ea + eb
        if m:
            acc[e] = acc.get(e, 0) + m
    if not acc:
        return NEG_INF
    e0 = min(acc)
    M = sum(m << (e - e0) for e, m in acc.items())
    sh = max(M.bit_length() - 200, 0)
    return math.log(M >> sh) + (sh + e0) * math.log(2.0)


def runs_of(path):
    """maximal constant runs (state, start, stop) — itertools.groupby"""
    out, i = [], 0
    for s, grp in itertools.groupby(path):
        n = len(list(grp))
        out.append((s, i, i + n))
        i += n
    return out


# ------------------------------------------------------------------ canonical strings


def show_dwells(ranges):
    return "[" + ",".join(f"{int(s)}=" + "|".join(f"{int(a)}:{int(b)}" for a, b in rs) for s, rs in sorted(ranges.items())) + "]"


def show_counts(counts):
    return "[" + ",".join(f"{int(s)}=" + "|".join(str(int(c)) for c in cs) for s, cs in sorted(counts.items())) + "]"


def parse_dwells(s, pair=True):
    inner = s.strip()[1:-1]
    out = {}
    if inner == "":
        return out
    for item in inner.split(","):
        k, v = item.split("=")
        if v == "":
            out[int(k)] = []
        elif pair:
            out[int(k)] = [tuple(int(z) for z in p.split(":")) for p in v.split("|")]
        else:
            out[int(k)] = [int(z) for z in v.split("|")]
    return out


def fl(xs):
    return [enc_float(float(x)) for x in xs]


def unfl(xs):
    return [dec_float(x) for x in xs]


def dec_rat_f(s):
    p, q = s.split("/")
    return int(p) / int(q) if abs(int(p)).bit_length() < 1000 and int(q).bit_length() < 1000 else float(Fraction(int(p), int(q)))


def dec_ratlist(s):
    inner = s.strip()[1:-1]
    return [] if inner == "" else [dec_rat_f(x) for x in inner.split(",")]


def dec_ratll(s):
    inner = s.strip()[1:-1]
    if inner == "":
        return []
    return [([] if row == "" else [dec_rat_f(x) for x in row.split(",")]) for row in inner.split(";")]


def is_err(s):
    return s.endswith("Error") or s.startswith("Error:")


# ------------------------------------------------------------------ impl

_cache = {}


def _remember(case, ans):
    _cache.clear()
    _cache[canonical(case)] = ans
    return ans


def _impl_of(case):
    k = canonical(case)
    if k not in _cache:
        impl(case)
    return _cache[k]


def impl(case):
    try:
        with quiet():
            return _remember(case, _impl(case))
    except TieLost as e:  # the harness could not build its objects: a broken tie (reported as such), not an answer of the code
        return _remember(case, ["Error:TieBroken:" + str(e)[:200]] * n_ops(case))
    except Exception as e:  # mapped to the small enum; compared with the model's error answer
        return _remember(case, [errname(e)] * n_ops(case))


FB_MODEL_T = 20  # trained models of traces up to this length also go through the exact (rational) forward-backward model (cost grows fast with T)


def n_ops(case):
    if case["op"] == "dwell_seq":
        return len(case["steps"])
    if case["op"] == "em":
        return 2 if len(case["data"]) <= FB_MODEL_T else 1
    if case["op"] == "fb":
        return 2 if emtab_applies(case) else 1
    return 3 if case["op"] == "dwell" else 1


EMTAB_LIMIT = 243  # K^T up to which the two sides of em_monotone_tables (sums over ALL paths) are also run by the Lean model


def emtab_applies(case):
    """forward-backward cases whose re-estimated pi, A (emissions kept) are ALSO evaluated: exact likelihood before and after, by
    the Lean model as sums over all K^T paths (theorem em_monotone_tables / emTables_mono), by the code as forward_backward of the
    model that holds the updated pi, A and the old means and precisions"""
    T = len(case["data"])
    return 2 <= T and case["K"] ** T <= EMTAB_LIMIT and not case.get("expect_degenerate")


CHAIN_T = 64  # traces up to this length: the Baum-Welch iterations are ALSO observed one by one through the public constructor


def shown(h):
    """the parameters a model object reports (public properties) as bit patterns: pi, A rows, means, variances"""
    pi, A, mu, var = reported(h)
    return fl(pi), [fl(r) for r in A], fl(mu), fl(var)


def em_step_report(h):
    """what the normalisation clause looks at after one Baum-Welch iteration, from the PUBLIC properties of the model object"""
    pi, A, mu, var = reported(h)
    with np.errstate(all="ignore"):
        return float(np.sum(pi)), float(np.max(np.abs(np.sum(A, axis=1) - 1.0))), float(np.max(1.0 / var))


def public_dwell_counts(labels, exclude):
    """the counts of the `dwell` op through the PUBLIC extract_dwell_times (labels 0..K-1 as the unique decoding of a trace of
    a well separated model): used when the anchored private function is not reachable; "?" where that route does not exist
    (negative / NaN labels, empty path)"""
    if not labels or any(s is None or int(s) != s or not 0 <= s <= 8 for s in labels):
        return "?"
    labels = [int(s) for s in labels]
    K = max(labels) + 1
    try:
        if not decodes_trivially("hmm", K, labels):
            return "?"
        times = seq_model("hmm", K).extract_dwell_times(seq_trace(labels, 0, 1000), exclude_ambiguous_dwells=exclude)
    except TieLost:
        raise
    except Exception as e:
        return errname(e)
    return counts_of_times(times, 1000)


def _impl(case):
    Slice, Continuous, HMM, GMM = _lk()
    k = case["op"]
    if k == "vit":
        h = stub_hmm(classic(case), case["K"])
        path = h.state_path(obs_trace(case)).data
        return [json.dumps({"path": [int(s) for s in path]})]
    if k == "fb":
        K = case["K"]
        model = classic(case)
        data = obs_array(case)
        out = {f: "?" for f in ("c", "gamma", "xi", "ll", "pi2", "A2", "mu2", "var2")}
        # the anchored functions, while they are reachable under their names
        try:
            alpha, beta, c, B = anchored(algo(ANCHOR_ALGOS[0]), data, model, returns=4)
            out["c"] = fl(c)
            gamma, xi, ll = anchored(algo(ANCHOR_ALGOS[1]), model, alpha, beta, c, B, returns=3)
            out.update(gamma=[fl(r) for r in gamma], xi=[fl(np.asarray(x).ravel()) for x in xi], ll=enc_float(ll))
            # the updated parameters are read through the public properties of a model object holding them
            new = anchored(getattr(model, ANCHOR_UPDATE, None), data, gamma, xi)
            out["pi2"], out["A2"], out["mu2"], out["var2"] = shown(stub_hmm(new, K))
        except Unreachable:
            pass
        # the same E-step + M-step through the PUBLIC constructor: one Baum-Welch iteration started from the model
        hm = HMM(obs_array(case), K, tol=0.0, max_iter=1, initial_guess=stub_hmm(classic(case), K))
        out["pub1"] = public_params(hm)
        out["pub1"]["var"] = shown(hm)[3]
        if n_ops(case) == 1:
            return [json.dumps(out)]
        # the model with the re-estimated pi, A and the OLD emissions, through the anchored forward pass
        emt = "?"
        try:
            if out["pi2"] != "?":
                hyb = hmm_params(K, case["mu"], case["tau"], unfl(out["pi2"]), [unfl(r) for r in out["A2"]])
                with np.errstate(all="ignore"):
                    c1 = np.asarray(anchored(algo(ANCHOR_ALGOS[0]), data, hyb, returns=4)[2], dtype=float)
                    emt = json.dumps({"ll0": out["ll"], "s0": enc_float(float(np.sum(np.abs(np.log(unfl(out["c"])))))),
                                      "ll1": enc_float(float(np.sum(np.log(c1)))), "s1": enc_float(float(np.sum(np.abs(np.log(c1)))))})
        except Unreachable:
            pass
        return [json.dumps(out), emt]
    if k == "em":
        K = case["K"]
        model = classic(case)
        data = obs_array(case)
        n = case["iters"]
        lls, pisum, rowdev, occ, taumax = [], [], [], [], []
        try:
            fwd, tmp = algo(ANCHOR_ALGOS[0]), algo(ANCHOR_ALGOS[1])
            gamma, xi, ll = anchored(tmp, model, *anchored(fwd, data, model, returns=4), returns=3)
            lls.append(ll)
            for _ in range(n):
                model = anchored(getattr(model, ANCHOR_UPDATE, None), data, gamma, xi)
                gamma, xi, ll = anchored(tmp, model, *anchored(fwd, data, model, returns=4), returns=3)
                lls.append(ll)
                ps, rd, tm = em_step_report(stub_hmm(model, K))
                pisum.append(ps)
                rowdev.append(rd)
                occ.append(float(np.min(np.sum(gamma[:-1], axis=0))))
                taumax.append(tm)
            manual = True
        except Unreachable:  # an anchored E/M function is not reachable: the iterations are observed through the public chain only
            manual, lls, pisum, rowdev, occ, taumax = False, [], [], [], [], []
        # the same through the public constructor
        # (the constructor takes the observations as an array or as a Slice)
        given = obs_trace(case) if case.get("container") == "slice" else obs_array(case)
        hm = HMM(given, K, tol=case.get("tol", 0.0), max_iter=n, initial_guess=stub_hmm(classic(case), K))
        ret = public_params(hm)  # the trained model as the constructor hands it over
        path = hm.state_path(obs_trace(case)).data
        # ... and the trained model OBJECT as the starting point of one more Baum-Welch iteration (warm start)
        warm = HMM(given, K, tol=0.0, max_iter=1, initial_guess=hm)
        wp = public_params(warm)
        end = public_params(hm)  # the same object once more, after it has been used
        # ... and the iterations one by one through the public constructor (each started from the previous model OBJECT):
        # the public twin of the manual E/M steps; for every trace length when those are not reachable
        chain = "?"
        if not manual or len(case["data"]) <= CHAIN_T:
            chain, cur = [], stub_hmm(classic(case), K)
            for _ in range(n):
                cur = HMM(given, K, tol=0.0, max_iter=1, initial_guess=cur)
                ps, rd, tm = em_step_report(cur)
                chain.append(dict(public_params(cur), pisum=enc_float(ps), rowdev=enc_float(rd), taumax=enc_float(tm)))
        out = json.dumps({
            "path": [int(s) for s in path], "ll": fl(lls) if manual else "?", "pisum": fl(pisum), "rowdev": fl(rowdev), "occ": fl(occ),
            "taumax": fl(taumax), "chain": chain,
            "pub_ll": end["ll"], "pub_iter": int(hm.fit_info.n_iter), "pub_conv": bool(hm.fit_info.converged),
            "pub_pi": end["pi"], "pub_A": end["A"], "pub_mu": end["mu"], "pub_tau": end["tau"],
            "ret": ret, "warm": wp, "warm_iter": int(warm.fit_info.n_iter),
        })
        return [out] * n_ops(case)
    if k == "dwell":
        path = [float("nan") if s is None else s for s in case["path"]]
        try:
            counts, ranges = anchored(learned_layout()["dwell"], np.array(path), exclude_ambiguous_dwells=case["exclude"], returns=2)
        except Unreachable:
            # the anchored private function is not reachable under its name: its ranges cannot be observed ("?"); the counts
            # stay tied through the public extract_dwell_times where the labels can be produced by a model
            pc = public_dwell_counts(case["path"], case["exclude"])
            return ["?", pc, str(sum(sum(v) for v in parse_dwells(pc, pair=False).values())) if pc.startswith("[") else "?"]
        ranges = {s: [tuple(r) for r in np.asarray(v).reshape(-1, 2)] for s, v in ranges.items()}
        counts = {s: list(np.atleast_1d(v)) for s, v in counts.items()}
        # ... and the number of samples all returned dwells cover together (theorem dwell_counts_conserve)
        return [show_dwells(ranges), show_counts(counts), str(int(sum(int(x) for v in counts.values() for x in v)))]
    if k == "dwell_api":
        labels = case["path"]
        K = case["K"]
        mu = [10.0 * j for j in range(K)]
        A = [[1.0 / K] * K for _ in range(K)]
        h = stub_hmm(hmm_params(K, mu, np.full(K, 100.0), np.full(K, 1.0 / K), A), K)
        tr = trace_of([mu[s] for s in labels], case["dt"])
        if [int(s) for s in h.state_path(tr).data] != list(labels):
            return ["setup-failure: decoded path differs from the labels"]
        times = h.extract_dwell_times(tr, exclude_ambiguous_dwells=case["exclude"])
        return [counts_of_times(times, case["dt"])]
    if k == "dwell_seq":
        return impl_seq(case)
    if k == "init":
        K = case["n_states"]
        g = case["guess"]
        data = np.array([0.0, 0.1, 10.0, 10.1, 20.0, 19.9, 0.05, 10.05, 20.05, 0.0, 20.0, 10.0, 0.0] * 2)
        if g == "none":
            guess = None
            np.random.seed(12345)  # scikit-learn's k-means initialisation draws from NumPy's global generator
        elif g == "other":
            guess = case.get("value", "not a model")
        else:
            m = case["guess_n"]
            mu = np.array([10.0 * j for j in range(m)])
            if g == "hmm":
                guess = stub_hmm(hmm_params(m, mu, np.full(m, 4.0), np.full(m, 1.0 / m), np.full((m, m), 1.0 / m)), m)
            else:
                guess = stub_gmm(m, mu, np.full(m, 4.0), np.full(m, 1.0 / m))
        HMM(data, K, max_iter=1, initial_guess=guess)
        return ["ok"]
    raise ValueError(k)


# ------------------------------------------------------------------ ops


def vit_op(K, pi, A, mu, tau, data, path):
    lp, la, lb = log_tables(K, pi, A, mu, tau, data)
    return (f"c16.vit {K} {enc_list(lp, enc_score)} {enc_listlist(la, enc_score)} "
            f"{enc_listlist(lb, enc_score)} {enc_list(path)}")


def square(case):
    K = case["K"]
    A = case["A"]
    return [list(A[i * K:(i + 1) * K]) for i in range(K)] if A and not isinstance(A[0], list) else A


def params_usable(pi, A, mu, tau):
    """trained parameters that still describe a Gaussian-emission HMM (no NaN/inf, no collapsed variance)"""
    return (all(math.isfinite(v) and v >= 0 for v in pi + sum(A, []) + tau) and all(math.isfinite(v) for v in mu)
            and min(tau) > 0)


def ops(case):
    k = case["op"]
    if k == "vit":
        ia = _impl_of(case)[0]
        path = [] if is_err(ia) else json.loads(ia)["path"]
        return [vit_op(case["K"], case["pi"], square(case), case["mu"], case["tau"], case["data"], path)]
    if k == "fb":
        K = case["K"]
        B = [[math.exp(gauss_logpdf(x, case["mu"][j], case["tau"][j])) for j in range(K)] for x in case["data"]]
        out = [f"c16.fb {K} {enc_list(case['pi'], enc_rat)} {enc_listlist(square(case), enc_rat)} "
               f"{enc_listlist(B, enc_rat)} {enc_list(case['data'], enc_rat)}"]
        if n_ops(case) == 2:
            out.append(f"c16.emtab {K} {enc_list(case['pi'], enc_rat)} {enc_listlist(square(case), enc_rat)} {enc_listlist(B, enc_rat)}")
        return out
    if k == "em":
        ia = _impl_of(case)[0]
        if is_err(ia):
            return [f"c16.init {case['K']} none"] * n_ops(case)
        d = json.loads(ia)
        K = case["K"]
        pi, A, mu, tau = unfl(d["pub_pi"]), [unfl(r) for r in d["pub_A"]], unfl(d["pub_mu"]), unfl(d["pub_tau"])
        if not params_usable(pi, A, mu, tau):
            return [f"c16.init {K} none"] * n_ops(case)  # degenerate training result (dropped, counted)
        out = [vit_op(K, pi, A, mu, tau, case["data"], d["path"])]
        if n_ops(case) == 2:
            # the trained model's parameters through the exact forward-backward model: prod c_t is the sum over all paths
            # (theorem likelihood_exact), fit_info.log_likelihood has to be its logarithm
            lb = [[gauss_logpdf(x, mu[j], tau[j]) for j in range(K)] for x in case["data"]]
            if all(max(r) > -600.0 for r in lb):
                B = [[math.exp(v) for v in r] for r in lb]
                out.append(f"c16.fb {K} {enc_list(pi, enc_rat)} {enc_listlist(A, enc_rat)} {enc_listlist(B, enc_rat)} "
                           f"{enc_list(case['data'], enc_rat)}")
            else:
                out.append(f"c16.init {K} none")
        return out
    if k == "dwell":
        p = enc_list(case["path"], lambda s: "nan" if s is None else str(int(s)))
        return [f"c16.dwell {p} {enc_bool(case['exclude'])}", f"c16.dwellc {p} {enc_bool(case['exclude'])}",
                f"c16.dwelltot {p} {enc_bool(case['exclude'])}"]
    if k == "dwell_api":
        return [f"c16.dwellc {enc_list(case['path'])} {enc_bool(case['exclude'])}"]
    if k == "dwell_seq":
        return [f"c16.dwellc {enc_list(st['path'])} {enc_bool(st['exclude'])}" for st in case["steps"]]
    if k == "init":
        g = case["guess"]
        return [f"c16.init {case['n_states']} {g}" + (f" {case['guess_n']}" if g in ("gmm", "hmm") else "")]
    raise ValueError(k)


# ------------------------------------------------------------------ agree


def vit_agree(ia, ma):
    if is_err(ia) or is_err(ma):
        return ia == ma
    toks = ma.split(" ")
    if len(toks) != 4:
        return False
    mpath, opt, got, scale = toks
    if got == "bad" or opt == "bad":
        return False
    if opt == got:
        return True
    if opt == "N" or got == "N":
        return False
    o, g, sc = (Fraction(*map(int, t.split("/"))) for t in (opt, got, scale))
    return abs(o - g) <= Fraction(TOL) * max(sc, 1)


def fclose(x, q, scale=1.0):
    return math.isfinite(x) and abs(x - q) <= TOL * scale


def got(d, f):
    """an observation of the implementation, or None where the harness could not make it ("?": a private tie that is not
    reachable; such an entry is never compared)"""
    v = d.get(f, "?")
    return None if isinstance(v, str) and v == "?" else v


def fb_pos_agree(case, d, toks):
    """The hypothesis of scaling_positive / posteriors_nonneg / occupancy_positive (posModel, decided by the Lean model on the
    exact inputs) and their conclusions, on the model's own run and on what forward_backward /
    calculate_temporary_variables returned: every c_t > 0, every gamma, xi >= 0, and (T >= 2) positive occupancy
    before the last time point of every state with pi_i > 0."""
    hyp, cpos, nonneg, occ = toks[7:11]
    K, T = case["K"], len(case["data"])
    if hyp != "T":
        return True
    if cpos != "T" or nonneg != "T" or (T >= 2 and occ != "T"):
        return False  # the executed model contradicts a theorem: the driver does not run the definitions the theorems are about
    if got(d, "c") is not None and not all(v > 0 for v in unfl(d["c"])):
        return False
    if got(d, "gamma") is not None:
        g = [unfl(r) for r in d["gamma"]]
        if not all(v >= 0 for r in g for v in r):
            return False
        if T >= 2:
            for i in range(K):
                if case["pi"][i] > 0:
                    # positive in exact arithmetic; in doubles a posterior can underflow to zero only far below the tolerance
                    if not sum(r[i] for r in g[:-1]) >= 0:
                        return False
    if got(d, "xi") is not None and not all(v >= 0 for r in d["xi"] for v in unfl(r)):
        return False
    return True


def fb_agree(case, ia, ma):
    if is_err(ia) or is_err(ma):
        return ia == ma
    d = json.loads(ia)
    pub = got(d, "pub1")
    c = unfl(got(d, "c")) if got(d, "c") is not None else None
    if ma == "degenerate":
        if c is not None:
            return not all(math.isfinite(v) and v > 0 for v in c)
        return pub is None or not math.isfinite(dec_float(pub["ll"]))
    toks = ma.split(" ")
    if len(toks) != 11:
        return False
    K, T = case["K"], len(case["data"])
    if not fb_pos_agree(case, d, toks):
        return False
    mc, mg, mx, mpi, mA, mmu, mvar = (dec_ratlist(toks[0]), dec_ratll(toks[1]), dec_ratll(toks[2]), dec_ratlist(toks[3]),
                                       dec_ratll(toks[4]), dec_ratlist(toks[5]), dec_ratlist(toks[6]))
    if len(mc) != T:
        return False
    if c is not None:
        if len(c) != T or not all(fclose(a, b, abs(b)) for a, b in zip(c, mc)):
            return False
    if got(d, "gamma") is not None:
        g = [unfl(r) for r in d["gamma"]]
        if len(g) != len(mg) or not all(len(a) == len(b) and all(fclose(u, v) for u, v in zip(a, b)) for a, b in zip(g, mg)):
            return False
    if got(d, "xi") is not None:
        x = [unfl(r) for r in d["xi"]]
        if len(x) != len(mx) or not all(len(a) == len(b) and all(fclose(u, v) for u, v in zip(a, b)) for a, b in zip(x, mx)):
            return False
    if got(d, "ll") is not None:
        logs = [math.log(v) for v in mc]
        if not fclose(dec_float(d["ll"]), math.fsum(logs), 1.0 + sum(abs(v) for v in logs)):
            return False
    xmax = max(1.0, max(abs(v) for v in case["data"]))
    occ_all = [sum(r[i] for r in mg) for i in range(K)]
    occ_head = [sum(r[i] for r in mg[:-1]) for i in range(K)]
    # the updated parameters: from the anchored update (while reachable) and from one Baum-Welch iteration through the
    # public constructor; the same comparison for both
    updates = []
    if got(d, "pi2") is not None:
        updates.append((unfl(d["pi2"]), [unfl(r) for r in d["A2"]], unfl(d["mu2"]), unfl(d["var2"])))
    if pub is not None:
        updates.append((unfl(pub["pi"]), [unfl(r) for r in pub["A"]], unfl(pub["mu"]), unfl(pub["var"])))
    for pi2, A2, mu2, var2 in updates:
        if len(pi2) != len(mpi) or not all(fclose(u, v) for u, v in zip(pi2, mpi)):
            return False
        if len(A2) != K or len(mu2) != K or len(var2) != K:
            return False
        for i in range(K):
            if T >= 2 and occ_head[i] > 1e-6:
                if len(A2[i]) != len(mA[i]) or not all(fclose(u, v) for u, v in zip(A2[i], mA[i])):
                    return False
            if occ_all[i] > 1e-6:
                if not fclose(mu2[i], mmu[i], xmax):
                    return False
                if not fclose(var2[i], mvar[i], xmax * xmax):
                    return False
    return True


def emtab_agree(case, ia, ma):
    """c16.emtab: `L L' (L<=L') hyp` of the Lean model (both likelihoods as sums over ALL paths; hyp = the hypotheses of
    em_monotone_tables hold for the exact inputs) against the code: log-likelihood of the model and of the model holding the
    pi, A that ClassicHmm.update returned with the old emissions."""
    if ia == "?":
        return True
    if is_err(ia) or is_err(ma):
        return ia == ma
    toks = ma.split(" ")
    if len(toks) != 4:
        return False
    def frac(t):
        p, q = t.split("/")
        return Fraction(int(p), int(q))

    def flog(v):  # logarithm of a positive Fraction without going through a double that could underflow
        return math.log(v.numerator) - math.log(v.denominator)

    L0, L1, mono, hyp = frac(toks[0]), frac(toks[1]), toks[2], toks[3]
    if hyp == "T" and mono != "T":
        return False  # the executed model contradicts emTables_mono
    d = json.loads(ia)
    ll0, ll1, s0, s1 = (dec_float(d[f]) for f in ("ll0", "ll1", "s0", "s1"))
    if L0 <= 0 or not math.isfinite(ll0):
        return True  # observations impossible under the model: nothing the clause speaks about
    if not fclose(ll0, flog(L0), 1.0 + s0):
        return False
    if not math.isfinite(ll1) or L1 <= 0:
        return True  # a state without occupancy before the last sample: its row of A' is 0/0 in the code (excluded, see ASSUMPTIONS)
    if not fclose(ll1, flog(L1), 1.0 + s1):
        return False
    return hyp != "T" or ll1 >= ll0 - TOL * (1.0 + s0 + s1)


def em_ll_agree(ia, ma):
    """fit_info.log_likelihood of the trained model against log prod c_t of the exact model run on the trained parameters"""
    if is_err(ia) or is_err(ma):
        return ia == ma
    ll = dec_float(json.loads(ia)["pub_ll"])
    if ma == "degenerate":
        return not math.isfinite(ll)
    toks = ma.split(" ")
    if len(toks) != 11:
        return False
    if toks[7] == "T" and toks[8:11] != ["T", "T", "T"]:  # a conclusion of scaling_positive / posteriors_nonneg / occupancy_positive fails on the executed model
        return False
    mc = dec_ratlist(toks[0])
    if not all(v > 0 for v in mc):
        return False
    logs = [math.log(v) for v in mc]
    return fclose(ll, math.fsum(logs), 1.0 + sum(abs(v) for v in logs))


def agree(case, i, ia, ma):
    k = case["op"]
    if k == "vit":
        return vit_agree(ia, ma)
    if k == "em":
        if ma == "ok":  # degenerate training result: nothing to compare
            return True
        return vit_agree(ia, ma) if i == 0 else em_ll_agree(ia, ma)
    if k == "fb":
        return fb_agree(case, ia, ma) if i == 0 else emtab_agree(case, ia, ma)
    if ia == "?":  # an observation the harness could not make (private tie not reachable): nothing to compare
        return True
    return ia == ma


# ------------------------------------------------------------------ oracle (plain Python from the property text)

BRUTE_LIMIT = 2200
TAU_COLLAPSED = 1e12  # a state with precision above this (sd < 1e-6) no longer is a Gaussian emission the property speaks about


def oracle_vit(K, pi, A, mu, tau, data, path):
    T = len(data)
    if len(path) != T or any(not (0 <= s < K) for s in path):
        return f"decoded path {path} is not a sequence of {T} states below {K}"
    lp, la, lb = log_tables(K, pi, A, mu, tau, data)
    got, scale = path_score(lp, la, lb, path)
    if K ** T <= BRUTE_LIMIT:
        best, bestp = NEG_INF, None
        for p in brute_paths(K, T):
            s, _ = path_score(lp, la, lb, p)
            if s > best:
                best, bestp = s, p
        how = f"path {list(bestp) if bestp else None} (brute force over all {K ** T} paths)"
    else:
        best = best_score_dp(K, lp, la, lb)
        how = "the exact dynamic-programming optimum"
    if best == NEG_INF:
        return None  # no path is possible: every path is optimal
    if got == NEG_INF or best - got > Fraction(TOL) * max(Fraction(scale), 1):
        return (f"viterbi-optimal: decoded path {path[:40]} has joint log-probability "
                f"{'-inf' if got == NEG_INF else float(got)!r} but {how} reaches {float(best)!r}")
    return None


def oracle_fb(case, d):
    K, T = case["K"], len(case["data"])
    A = square(case)
    # what could be observed: the anchored functions' c / gamma / xi / log-likelihood / update (each None when that private
    # tie is not reachable) and one Baum-Welch iteration through the public constructor (pub)
    c = unfl(d["c"]) if got(d, "c") is not None else None
    g = [unfl(r) for r in d["gamma"]] if got(d, "gamma") is not None else None
    x = [[r[i * K:(i + 1) * K] for i in range(K)] for r in (unfl(r) for r in d["xi"])] if got(d, "xi") is not None else None
    ll = dec_float(d["ll"]) if got(d, "ll") is not None else None
    pub = got(d, "pub1")
    if (g is not None and len(g) != T) or (x is not None and len(x) != max(T - 1, 0)):
        return f"shapes: gamma has {len(g) if g is not None else '?'} rows, xi {len(x) if x is not None else '?'} for T={T}"
    flat = ((c or []) + [v for r in (g or []) for v in r] + [v for m in (x or []) for r in m for v in r] + ([ll] if ll is not None else [])
            + (unfl(pub["pi"]) if pub is not None else []))
    if not all(math.isfinite(v) for v in flat):
        return "posteriors: non-finite value in c/gamma/xi/log-likelihood for a model under which the data are possible"
    for t in range(T if g is not None else 0):
        if abs(sum(g[t]) - 1.0) > TOL:
            return f"gamma-normalised: sum_i gamma[{t}][i] = {sum(g[t])!r}"
    for t in range(T - 1 if g is not None and x is not None else 0):
        for i in range(K):
            if abs(sum(x[t][i]) - g[t][i]) > TOL:
                return f"xi-marginal: sum_j xi[{t}][{i}][j] = {sum(x[t][i])!r} but gamma[{t}][{i}] = {g[t][i]!r}"
            if abs(sum(x[t][j][i] for j in range(K)) - g[t + 1][i]) > TOL:
                return f"xi-marginal: sum_i xi[{t}][i][{i}] differs from gamma[{t + 1}][{i}] = {g[t + 1][i]!r}"
    if c is not None:
        lscale = 1.0 + sum(abs(math.log(v)) for v in c)
    else:
        lscale = loglik_and_scale(K, case["pi"], A, case["mu"], case["tau"], case["data"])[1]
    G0 = occ_ref = None  # exact gamma[0] and state occupancies before the last time point, where all paths are summed
    if K ** T <= BRUTE_LIMIT:
        B = [[math.exp(gauss_logpdf(xv, case["mu"][j], case["tau"][j])) for j in range(K)] for xv in case["data"]]
        L, G, X = brute_posteriors(K, case["pi"], A, B)
        if L <= 0:
            return None
        G0 = [float(v / L) for v in G[0]]
        occ_ref = [float(sum(G[t][i] for t in range(T - 1)) / L) for i in range(K)]
        if ll is not None and abs(ll - math.log(L)) > TOL * lscale:
            return f"likelihood-exact: reported log-likelihood {ll!r}, log of the sum over all {K ** T} paths {math.log(L)!r}"
        for t in range(T if g is not None else 0):
            for i in range(K):
                if abs(g[t][i] - float(G[t][i] / L)) > TOL:
                    return f"gamma-exact: gamma[{t}][{i}] = {g[t][i]!r}, sum over paths gives {float(G[t][i] / L)!r}"
        for t in range(T - 1 if x is not None else 0):
            for i in range(K):
                for j in range(K):
                    if abs(x[t][i][j] - float(X[t][i][j] / L)) > TOL:
                        return f"xi-exact: xi[{t}][{i}][{j}] = {x[t][i][j]!r}, sum over paths gives {float(X[t][i][j] / L)!r}"
    elif ll is not None:
        ref = loglik_logspace(K, case["pi"], A, case["mu"], case["tau"], case["data"])
        if abs(ll - ref) > TOL * lscale:
            return f"likelihood-exact: reported log-likelihood {ll!r}, log-space forward recursion {ref!r}"
    # the update step: the new initial distribution is the posterior of the first sample, it and every row of the new
    # transition matrix are normalised -- from the anchored update and from the public constructor alike
    updates = []
    if got(d, "pi2") is not None:
        updates.append(("", unfl(d["pi2"]), [unfl(r) for r in d["A2"]]))
    if pub is not None:
        updates.append((f" of HiddenMarkovModel(data, {K}, tol=0, max_iter=1, initial_guess=<the model>)", unfl(pub["pi"]),
                        [unfl(r) for r in pub["A"]]))
    first = g[0] if g is not None else G0
    occ = [sum(r[i] for r in g[:-1]) for i in range(K)] if g is not None else occ_ref
    for what, pi2, A2 in updates:
        if not abs(sum(pi2) - 1.0) <= TOL or (first is not None and not all(abs(a - b) <= TOL for a, b in zip(pi2, first))):
            return (f"update-normalised: new initial distribution{what} {pi2} (sum {sum(pi2)!r}) is not "
                    f"{'gamma[0]' if g is not None else f'the exact posterior of the first sample {first}'}")
        if T >= 2 and occ is not None:
            for i in range(K):
                if occ[i] > 1e-6 and not abs(sum(A2[i]) - 1.0) <= TOL:
                    return f"update-normalised: row {i} of the new transition matrix{what} sums to {sum(A2[i])!r}"
    if pub is not None and T >= 2:
        # ... and the log-likelihood that object reports is the exact one of the parameters it reports
        return oracle_reported_ll(K, pub, case["data"], f"HiddenMarkovModel(data, {K}, tol=0, max_iter=1, initial_guess=<the model>)")
    return None


def oracle_em_steps(ll, pisum, rowdev, taumax, occ, what):
    """the per-iteration clauses on one observed sequence of Baum-Welch iterations (ll[0]: the starting model, ll[k]: after
    iteration k).  Returns (clause | None, degenerate)"""
    n = len(ll) - 1
    for k in range(n):
        if not (math.isfinite(ll[k]) and math.isfinite(ll[k + 1])) or (occ is not None and not occ[k] > 1e-6) or (
                occ is None and not (math.isfinite(pisum[k]) and math.isfinite(rowdev[k]) and math.isfinite(taumax[k]))):
            # degenerate run (variance collapse / empty state; where the state occupancies cannot be observed: a model
            # with non-finite parameters): not covered, counted as dropped
            return None, True
        # A state that has taken over a stretch of identical observations (common in integer traces) gets a variance that is
        # rounding noise of its mean (1e-28 for counts of 12): the Gaussian is singular, the likelihood unbounded and its computed
        # value noise.  The ascent is not compared across a step that starts or ends in such a model (counted)
        collapsed = not taumax[k] <= TAU_COLLAPSED or (k > 0 and not taumax[k - 1] <= TAU_COLLAPSED)
        if not collapsed and ll[k + 1] < ll[k] - TOL * max(1.0, abs(ll[k])):
            return f"em-monotone: log-likelihood fell from {ll[k]!r} to {ll[k + 1]!r} in Baum-Welch iteration {k + 1}{what}", False
        if abs(pisum[k] - 1.0) > TOL:
            return f"update-normalised: initial distribution sums to {pisum[k]!r} after iteration {k + 1}{what}", False
        if not rowdev[k] <= TOL:
            return f"update-normalised: a transition-matrix row is off 1 by {rowdev[k]!r} after iteration {k + 1}{what}", False
    return None, False


def oracle_em(case, d):
    K = case["K"]
    n = case["iters"]
    tol = case.get("tol", 0.0)
    # the iterations as observed (i) on the anchored E/M functions (None when they are not reachable) and (ii) one by one
    # through the public constructor, each started from the previous model object (ll[0], which no public name reports, is
    # then the oracle's own log-likelihood of the starting model)
    ll = None
    if got(d, "ll") is not None:
        ll = unfl(d["ll"])
        if len(ll) != n + 1:
            return f"em: {len(ll)} log-likelihoods for {n} iterations"
        bad, degenerate = oracle_em_steps(ll, unfl(d["pisum"]), unfl(d["rowdev"]), unfl(d["taumax"]), unfl(d["occ"]), "")
        if bad or degenerate:
            return bad
    chain = got(d, "chain")
    if chain is not None:
        if len(chain) != n:
            return f"em: {len(chain)} models for {n} single iterations"
        ll0 = ll[0] if ll is not None else loglik_and_scale(K, case["pi"], square(case), case["mu"], case["tau"], case["data"])[0]
        cll = [ll0] + [dec_float(c["ll"]) for c in chain]
        bad, degenerate = oracle_em_steps(cll, [dec_float(c["pisum"]) for c in chain], [dec_float(c["rowdev"]) for c in chain],
                                          [dec_float(c["taumax"]) for c in chain], None,
                                          " (iterations made one by one by HiddenMarkovModel(..., tol=0, max_iter=1, initial_guess=<previous model>))")
        if bad or degenerate:
            return bad
        if ll is None:
            ll = cll
    pub_ll = dec_float(d["pub_ll"])
    if ll is not None:
        # the public constructor stops at the first iteration whose log-likelihood step is below `tol`
        steps = [abs(ll[k] - ll[k - 1]) for k in range(1, n + 1)]
        stop = next((k for k in range(1, n + 1) if steps[k - 1] < tol), None)
        n_pub = stop if stop is not None else n
        # the stopping rule is a decision on floats: no verdict when a step up to the stopping one is within last-bit distance
        # of tol (the constructor need not add up the same doubles in the same order as the anchored functions; ll[0] of the
        # oracle's own recursion, used when those are not reachable, is only good to TOL * scale)
        tie = tol > 0 and any(abs(steps[k - 1] - tol) <= (TOL if k == 1 and got(d, "ll") is None else 1e-11) * max(1.0, abs(ll[k - 1]))
                              for k in range(1, n_pub + 1))
        if not tie:
            if d["pub_iter"] != n_pub or d["pub_conv"] != (stop is not None):
                return (f"fit-info: HiddenMarkovModel(..., tol={tol}, max_iter={n}) reports n_iter={d['pub_iter']}, converged={d['pub_conv']}; "
                        f"the log-likelihood steps {[ll[k] - ll[k - 1] for k in range(1, n + 1)]} give n_iter={n_pub}, converged={stop is not None}")
            if abs(pub_ll - ll[n_pub]) > TOL * max(1.0, abs(ll[n_pub])):
                return (f"fit-info: HiddenMarkovModel(...).fit_info reports log-likelihood {pub_ll!r} after {d['pub_iter']} iterations, "
                        f"the returned model's exact log-likelihood (E/M steps) is {ll[n_pub]!r}")
    pi, A = unfl(d["pub_pi"]), [unfl(r) for r in d["pub_A"]]
    if abs(sum(pi) - 1.0) > TOL or any(abs(sum(r) - 1.0) > TOL for r in A):
        return f"update-normalised: trained model has pi sum {sum(pi)!r}, row sums {[sum(r) for r in A]}"
    mu, tau = unfl(d["pub_mu"]), unfl(d["pub_tau"])
    if not all(math.isfinite(v) for v in mu + tau) or min(tau) <= 0 or max(tau) > TAU_COLLAPSED:
        return None
    lb_best = max(max(gauss_logpdf(xv, mu[j], tau[j]) for j in range(K)) for xv in case["data"])
    if not math.isfinite(lb_best):
        return None
    # the log-likelihood a trained model reports is the exact one of the parameters it reports: right after the constructor
    # returned, and again after the object has been used (state_path, initial guess of another training)
    ctor = f"HiddenMarkovModel(data, {K}, tol={tol}, max_iter={n}, initial_guess=...)"
    end = {"ll": d["pub_ll"], "pi": d["pub_pi"], "A": d["pub_A"], "mu": d["pub_mu"], "tau": d["pub_tau"]}
    views = [(f"{ctor} as returned", d["ret"])]
    if end != d["ret"]:
        views.append((f"{ctor}, read again after state_path() and after serving as initial_guess of another model", end))
    for what, pr in views:
        bad = oracle_reported_ll(K, pr, case["data"], what)
        if bad:
            return bad
    # one more Baum-Welch iteration started from the trained model object: again exact, normalised, and not below
    w = d["warm"]
    wpi, wA, wmu, wtau, wll = unfl(w["pi"]), [unfl(r) for r in w["A"]], unfl(w["mu"]), unfl(w["tau"]), dec_float(w["ll"])
    if d["warm_iter"] == 1 and math.isfinite(wll) and params_usable(wpi, wA, wmu, wtau) and max(wtau) <= TAU_COLLAPSED:
        if abs(sum(wpi) - 1.0) > TOL or any(abs(sum(r) - 1.0) > TOL for r in wA):
            return f"update-normalised: one more iteration from the trained model gives pi sum {sum(wpi)!r}, row sums {[sum(r) for r in wA]}"
        bad = oracle_reported_ll(K, w, case["data"], f"HiddenMarkovModel(data, {K}, tol=0, max_iter=1, initial_guess=<the trained model>)")
        if bad:
            return bad
        if wll < pub_ll - TOL * max(1.0, abs(pub_ll)):
            return (f"em-monotone: the trained model reports log-likelihood {pub_ll!r}; one more Baum-Welch iteration started "
                    f"from that model object reports {wll!r}")
    return oracle_vit(K, pi, A, mu, tau, case["data"], d["path"])


def oracle_reported_ll(K, pr, data, what):
    """`pr` = what a model object reports about itself (log-likelihood, pi, A, means, 1/variances): the reported
    log-likelihood has to be the logarithm of the sum over all state paths of P(path, data) under the reported parameters"""
    T = len(data)
    pi, A, mu, tau, ll = unfl(pr["pi"]), [unfl(r) for r in pr["A"]], unfl(pr["mu"]), unfl(pr["tau"]), dec_float(pr["ll"])
    if not params_usable(pi, A, mu, tau) or max(tau) > TAU_COLLAPSED:
        return None
    lb = [[gauss_logpdf(x, mu[j], tau[j]) for j in range(K)] for x in data]
    if not all(max(r) > -600.0 for r in lb):
        return None  # underflow territory (outside, see TRUSTED)
    ref, scale = loglik_and_scale(K, pi, A, mu, tau, data)
    how = "an independent log-space forward recursion"
    if K ** T <= BRUTE_LIMIT:
        ref = brute_loglik(K, pi, A, [[math.exp(v) for v in r] for r in lb])
        how = f"the sum over all {K ** T} paths"
    if ref == NEG_INF:
        return None
    if not math.isfinite(ll) or abs(ll - ref) > TOL * scale:
        return (f"likelihood-exact: {what} reports log-likelihood {ll!r}, but under the parameters it reports "
                f"(initial_state_probability {pi}, transition_matrix {A}, means {mu}, variances {[1.0 / v for v in tau]}) "
                f"{how} gives log-likelihood {ref!r}")
    return None


def oracle_dwell(path, exclude, ranges, counts):
    T = len(path)
    runs = runs_of(path)
    got = sorted((a, b, s) for s, rs in ranges.items() for a, b in rs)
    if sorted(ranges) != sorted(set(path)):
        return f"dwell-keys: states {sorted(ranges)} returned for a path with states {sorted(set(path))}"
    for a, b, s in got:
        if not (0 <= a < b <= T) or any(path[i] != s for i in range(a, b)):
            return f"dwell-constant: [{a},{b}) is not a stretch of state {s}"
        if (a > 0 and path[a - 1] == s) or (b < T and path[b] == s):
            return f"dwell-maximal: the run [{a},{b}) of state {s} can be extended"
    if not exclude:
        pos = 0
        for a, b, s in got:
            if a != pos:
                return f"dwell-tiling: runs {got} do not tile [0,{T}) exactly once (at {pos})"
            pos = b
        if pos != T:
            return f"dwell-tiling: runs {got} stop at {pos}, the trace has {T} samples"
    want = runs[1:-1] if exclude else runs
    if got != sorted((a, b, s) for s, a, b in want):
        return (f"dwell-exclude: with exclude_ambiguous_dwells={exclude} the runs are {got}, expected "
                f"{'all runs but the first and last' if exclude else 'all runs'} {want}")
    if counts is not None:
        for s in ranges:
            if [b - a for a, b in ranges[s]] != list(counts.get(s, [])):
                return f"dwell-counts: state {s} has ranges {ranges[s]} but counts {counts.get(s)}"
    return None


def expected_counts(labels, exclude):
    """per state the lengths of the maximal constant runs of the path in time order; without the first and the last run
    of the trace when ambiguous dwells are excluded (property text)"""
    want = runs_of(labels)
    want = want[1:-1] if exclude else want
    exp = {s: [] for s in set(labels)}
    for s, x, y in want:
        exp[s].append(y - x)
    return exp


def oracle_seq(case, ia):
    """every call of the sequence has to return the dwells of the state path of the trace IT was given, whatever the same
    model object was asked before"""
    steps = case["steps"]
    n = len(steps)
    for i, (st, a) in enumerate(zip(steps, ia)):
        what = (f"call {i + 1} of {n} on one {case['kind']} model object, extract_dwell_times(trace, "
                f"exclude_ambiguous_dwells={st['exclude']}) with trace start={st['start']} dt={st['dt']} n={len(st['path'])}")
        if is_err(a) or not a.startswith("["):
            return f"dwell-times: {what}: {a[:160]}"
        exp = expected_counts(st["path"], st["exclude"])
        got = parse_dwells(a, pair=False)
        if got != exp:
            stale = [j + 1 for j in range(i) for e in (False, True) if expected_counts(steps[j]["path"], e) == got]
            hint = f" (these are the dwells of the trace of call {stale[-1]})" if stale else ""
            return (f"dwell-times: {what} gives counts {got}{hint}; the runs of the state path {st['path'][:60]} of this "
                    f"trace give {exp}")
        if not st["exclude"] and sum(sum(v) for v in got.values()) != len(st["path"]):
            return f"dwell-tiling: {what}: the dwells cover {sum(sum(v) for v in got.values())} samples"
    return None


def oracle(case, ia):
    k = case["op"]
    a = ia[0]
    if k == "vit":
        if len(case["data"]) == 0:
            return None if a == "IndexError" else f"empty trace: expected IndexError, got {a[:80]}"
        if is_err(a):
            return f"viterbi raised {a}"
        return oracle_vit(case["K"], case["pi"], square(case), case["mu"], case["tau"], case["data"], json.loads(a)["path"])
    if k == "fb":
        if len(case["data"]) == 0:
            return None if a == "IndexError" else f"empty trace: expected IndexError, got {a[:80]}"
        if is_err(a):
            return f"forward-backward raised {a}"
        if case.get("expect_degenerate"):
            return None
        return oracle_fb(case, json.loads(a))
    if k == "em":
        if is_err(a):
            return f"Baum-Welch raised {a}"
        return oracle_em(case, json.loads(a))
    if k == "dwell":
        if any(s is None for s in case["path"]):
            return None if a in ("Error:AssertionError", "?") else f"NaN label: expected the assertion to fail, got {a[:80]}"
        if is_err(a) or is_err(ia[1]):
            return f"dwell extraction raised {a if is_err(a) else ia[1]}"
        if a == "?":
            # the anchored private function was not reachable: ia[1] are the counts through the public extract_dwell_times
            # ("?" where that route does not exist)
            if ia[1] == "?":
                return None
            if not ia[1].startswith("["):
                return f"extract_dwell_times: {ia[1][:120]}"
            exp, cnt = expected_counts(case["path"], case["exclude"]), parse_dwells(ia[1], pair=False)
            if cnt != exp:
                return f"dwell-times: extract_dwell_times gives counts {cnt}, the runs of the path give {exp}"
            return None
        r = oracle_dwell(case["path"], case["exclude"], parse_dwells(a), parse_dwells(ia[1], pair=False))
        if r is None and len(ia) > 2 and ia[2] != "?":
            runs, T = runs_of(case["path"]), len(case["path"])
            if not case["exclude"]:
                want = T
            elif len(runs) >= 2:
                want = T - (runs[0][2] - runs[0][1]) - (runs[-1][2] - runs[-1][1])
            else:
                want = 0
            if int(ia[2]) != want:
                return (f"dwell-tiling: all dwell counts together cover {ia[2]} samples, expected {want} of the {len(case['path'])} "
                        f"samples of the trace (exclude_ambiguous_dwells={case['exclude']})")
        return r
    if k == "dwell_api":
        if is_err(a) or not a.startswith("["):
            return f"extract_dwell_times: {a[:120]}"
        want = runs_of(case["path"])
        want = want[1:-1] if case["exclude"] else want
        exp = {s: [] for s in set(case["path"])}
        for s, x, y in want:
            exp[s].append(y - x)
        got = parse_dwells(a, pair=False)
        if got != exp:
            return f"dwell-times: extract_dwell_times gives counts {got}, the runs of the path give {exp}"
        return None
    if k == "dwell_seq":
        return oracle_seq(case, ia)
    if k == "init":
        g = case["guess"]
        exp = "TypeError" if g == "other" else ("ValueError" if g in ("gmm", "hmm") and case["guess_n"] != case["n_states"] else "ok")
        return None if a == exp else f"constructor-arguments: expected {exp}, got {a[:80]}"
    return None


def nontrivial(case, ia):
    k = case["op"]
    a = ia[0]
    if k in ("vit", "em"):
        if is_err(a):
            return k == "vit" and len(case["data"]) == 0
        ok = len(set(json.loads(a)["path"])) >= 2
        return ok and (k == "vit" or (case["K"] >= 2 and case["iters"] >= 2))
    if k == "fb":
        return case["K"] >= 2 and len(case["data"]) >= 2
    if k in ("dwell", "dwell_api"):
        if all(x == "?" for x in ia):  # nothing could be observed
            return False
        return any(s is None for s in case["path"]) or len(runs_of(case["path"])) >= 2
    if k == "dwell_seq":
        return len(case["steps"]) >= 2 and any(len(runs_of(st["path"])) >= 2 for st in case["steps"])
    if k == "init":
        return a != "ok"
    return False


def tags(case, r):
    return {"op": case["op"], "dtype": case.get("dtype", "float64")}


def shrink(case):
    k = case["op"]
    if k in ("vit", "fb", "em"):
        d = case["data"]
        if len(d) > 1:
            for cut in (d[: len(d) // 2], d[len(d) // 2:], d[:-1], d[1:]):
                if cut and cut != d:
                    c = dict(case)
                    c["data"] = cut
                    yield c
        if k == "em" and case["iters"] > 1:
            c = dict(case)
            c["iters"] = case["iters"] - 1
            yield c
    elif k in ("dwell", "dwell_api"):
        p = case["path"]
        for i in range(len(p)):
            c = dict(case)
            c["path"] = p[:i] + p[i + 1:]
            yield c
    elif k == "dwell_seq":
        st = case["steps"]
        for i in range(len(st)):  # one call less
            if len(st) > 1:
                yield dict(case, steps=st[:i] + st[i + 1:])
        for i in range(max(len(x["path"]) for x in st)):  # one sample less in every trace that has it (equal lengths stay equal)
            if i > 0 or all(len(x["path"]) >= 2 for x in st):  # no trace becomes empty
                yield dict(case, steps=[dict(x, path=x["path"][:i] + x["path"][i + 1:]) for x in st])
        for i in range(len(st)):
            if st[i].get("peek", "none") != "none":
                yield dict(case, steps=st[:i] + [dict(st[i], peek="none")] + st[i + 1:])


# ------------------------------------------------------------------ generators


def rnd_simplex(rng, K, zeros):
    """a probability vector; with `zeros` some entries are exactly 0 (at least one stays positive)"""
    w = [rng.uniform(0.05, 1.0) for _ in range(K)]
    if zeros and K > 1:
        keep = rng.randint(0, K - 1)
        for j in range(K):
            if j != keep and rng.chance(0.4):
                w[j] = 0.0
    s = sum(w)
    return [x / s for x in w]


def rnd_model(rng, K, zeros=False, sticky=False):
    sep = rng.choice([0.5, 1.0, 3.0, 10.0])
    mu = sorted(rng.uniform(-1.0, 1.0) + sep * j for j in range(K))
    tau = [rng.loguniform(0.2, 20.0) for _ in range(K)]
    pi = rnd_simplex(rng, K, zeros)
    A = []
    for i in range(K):
        row = rnd_simplex(rng, K, zeros)
        if sticky:
            row = [0.9 * (1.0 if j == i else 0.0) + 0.1 * row[j] for j in range(K)]
            s = sum(row)
            row = [x / s for x in row]
        A.append(row)
    return {"K": K, "mu": mu, "tau": tau, "pi": pi, "A": A}


def simulate(rng, m, T, noise=1.0):
    """a trace drawn from the model (states follow A where possible), noise scaled"""
    K = m["K"]

    def draw(p):
        u, acc = rng.random(), 0.0
        for j, x in enumerate(p):
            acc += x
            if u < acc:
                return j
        return max(range(K), key=lambda j: p[j])

    s = draw(m["pi"])
    out = []
    for _ in range(T):
        out.append(m["mu"][s] + noise * rng.normal() / math.sqrt(m["tau"][s]))
        s = draw(m["A"][s])
    return out


def ambiguous_start(rng, m, data):
    """boundary bias for the initial-state posterior (the new initial distribution is the posterior of the FIRST sample): in
    about a third of the traces the first observation sits between two neighbouring state means, so that posterior stays
    mixed instead of collapsing onto one state"""
    if m["K"] >= 2 and rng.chance(0.35):
        j = rng.randint(0, m["K"] - 2)
        w = rng.choice([0.5, 0.5, rng.uniform(0.3, 0.7)])
        data[0] = (1.0 - w) * m["mu"][j] + w * m["mu"][j + 1]


def rescaled(m, s, shift):
    """the same model in other units: observations x -> s*x + shift"""
    return dict(m, mu=[v * s + shift for v in m["mu"]], tau=[t / (s * s) for t in m["tau"]])


def typed_units(rng, m, dtype):
    """integer observations are counts: put the model on a count scale (spacing of the states 0.5 ... 200 counts; unsigned
    types: means well above 0, signed ones: also around and below 0), so that the rounded trace still has noise in it.
    Boundary: scale 1 keeps the sub-integer spreads of rnd_model, where whole stretches of the trace are one number.
    Returns (s, shift) of the change of units x -> s*x + shift"""
    dt = np.dtype(dtype)
    if dt.kind not in "iu":
        return 1.0, 0.0
    s = rng.choice([1.0, 2.0, 5.0, 5.0, 20.0, 20.0])
    if dt.itemsize == 1:
        s = min(s, 5.0)
    lo = min(m["mu"]) * s
    shift = (rng.choice([3.0, 10.0]) * s - lo) if dt.kind == "u" else rng.choice([0.0, 0.0, -lo, -3.0 * s - lo, 10.0 * s - lo])
    return s, float(round(shift))


def typed_model(rng, m, dtype):
    return rescaled(m, *typed_units(rng, m, dtype))


def typed_form(rng, i):
    """element type (cycled, so that every type occurs), memory layout of the observation array"""
    return OBS_DTYPES[i % len(OBS_DTYPES)], rng.choice(["own", "own", "strided", "readonly"])


def emission_ok(m, data):
    """margin from underflow: some state explains every observation with log-density > -600"""
    return all(max(gauss_logpdf(x, m["mu"][j], m["tau"][j]) for j in range(m["K"])) > -600.0 for x in data)


def label_seq(rng, n, labels):
    out, cur = [], rng.choice(labels)
    for _ in range(n):
        if rng.chance(0.3):
            cur = rng.choice(labels)
        out.append(cur)
    return out


def seq_case(kind, K, steps, **kw):
    return dict({"op": "dwell_seq", "kind": kind, "K": K, "steps": steps}, **kw)


def step(path, exclude, start=0, dt=1000, peek="none"):
    return {"path": list(path), "exclude": bool(exclude), "start": int(start), "dt": int(dt), "peek": peek}


def rnd_sequence(rng, K):
    """2-6 calls on one model object.  Boundary-biased towards what a remembered result could be keyed on: the next trace
    shares the whole time window (start, dt, length) with the previous one but carries other data (another channel of the
    same recording), is the very same trace again (other or same mode), or differs in exactly one of start / dt / length"""
    labels = list(range(K))
    n = rng.choice([1, 2, 3, 5, 8, rng.randint(2, 40), rng.randint(40, 120)])
    start = rng.choice([0, 1000, 20 * 10**9, rng.randint(0, 10**12)])
    dt = rng.choice([1000, 12800, 10**6, rng.randint(1, 10**7)])
    steps = []
    for i in range(rng.choice([2, 2, 3, 4, 6])):
        mode = rng.choice(["same-window", "same-window", "same-window", "again", "one-off", "new"]) if steps else "new"
        if mode == "again":
            prev = rng.choice(steps)
            path, st, d = prev["path"], prev["start"], prev["dt"]
        else:
            if mode == "one-off":
                which = rng.choice(["start", "dt", "n"])
                if which == "start":
                    start = start + rng.choice([1, dt, rng.randint(1, 10**9)])
                elif which == "dt":
                    dt = dt + rng.choice([1, rng.randint(1, 10**6)])
                else:
                    n = max(1, n + rng.choice([-1, 1, rng.randint(1, 20)]))
            elif mode == "new":
                n = rng.choice([1, 2, 3, 5, 8, rng.randint(2, 40), rng.randint(40, 120)])
                start = rng.choice([0, 1000, 20 * 10**9, rng.randint(0, 10**12)])
                dt = rng.choice([1000, 12800, 10**6, rng.randint(1, 10**7)])
            if steps and mode == "one-off" and rng.chance(0.5) and len(steps[-1]["path"]) == n:
                path = steps[-1]["path"]  # the same data over another time window
            elif steps and mode == "same-window" and rng.chance(0.3) and len(steps[-1]["path"]) == n:
                # the previous trace with a few samples relabelled (a filtered / corrected copy of the same channel)
                path = [rng.choice(labels) if rng.chance(0.2) else s for s in steps[-1]["path"]]
            else:
                path = label_seq(rng, n, labels)
            st, d = start, dt
        steps.append(step(path, rng.chance(0.5), st, d, rng.choice(["none", "none", "before", "after"])))
    return steps


CORPUS = [
    # pi = (1,0) and the transition 0->1 impossible: the decoder has to stay in state 0 against the emissions
    {"op": "vit", "K": 2, "mu": [0.0, 10.0], "tau": [1.0, 1.0], "pi": [1.0, 0.0], "A": [[1.0, 0.0], [0.5, 0.5]], "data": [9.0, 10.0, 11.0]},
    # absorbing second state
    {"op": "vit", "K": 2, "mu": [0.0, 10.0], "tau": [1.0, 1.0], "pi": [1.0, 0.0], "A": [[0.9, 0.1], [0.0, 1.0]], "data": [0.1, 9.0, 10.2, 0.3]},
    # no path is possible at all (pi = 0): every path is optimal
    {"op": "vit", "K": 2, "mu": [0.0, 1.0], "tau": [1.0, 1.0], "pi": [0.0, 0.0], "A": [[0.5, 0.5], [0.5, 0.5]], "data": [0.0, 1.0]},
    # forbidden self transitions: the path must alternate
    {"op": "vit", "K": 2, "mu": [0.0, 1.0], "tau": [1.0, 1.0], "pi": [0.5, 0.5], "A": [[0.0, 1.0], [1.0, 0.0]], "data": [0.0, 0.1, 0.0, 0.2, 0.1]},
    {"op": "vit", "K": 3, "mu": [0.0, 1.0, 2.0], "tau": [4.0, 4.0, 4.0], "pi": [0.0, 1.0, 0.0], "A": [[0.5, 0.5, 0.0], [0.0, 0.5, 0.5], [0.5, 0.0, 0.5]], "data": [0.0, 0.0, 2.0, 2.0, 1.0, 0.0]},
    {"op": "vit", "K": 1, "mu": [0.0], "tau": [1.0], "pi": [1.0], "A": [[1.0]], "data": [0.3]},
    {"op": "fb", "K": 2, "mu": [0.0, 10.0], "tau": [1.0, 1.0], "pi": [1.0, 0.0], "A": [[0.9, 0.1], [0.0, 1.0]], "data": [0.1, 9.0, 10.2, 9.3]},
    {"op": "fb", "K": 3, "mu": [0.0, 1.0, 2.0], "tau": [4.0, 4.0, 4.0], "pi": [0.0, 1.0, 0.0], "A": [[0.5, 0.5, 0.0], [0.0, 0.5, 0.5], [0.5, 0.0, 0.5]], "data": [0.0, 0.0, 2.0, 2.0, 1.0, 0.0]},
    {"op": "fb", "K": 1, "mu": [0.0], "tau": [1.0], "pi": [1.0], "A": [[1.0]], "data": [0.3]},
    {"op": "fb", "K": 2, "mu": [0.0, 1.0], "tau": [1.0, 2.0], "pi": [0.25, 0.75], "A": [[0.5, 0.5], [0.25, 0.75]], "data": [0.5]},
    # observation impossible under the model in double precision: every c_t underflows to 0
    {"op": "fb", "K": 2, "mu": [0.0, 1.0], "tau": [1.0, 1.0], "pi": [0.5, 0.5], "A": [[0.5, 0.5], [0.5, 0.5]], "data": [100.0, 0.0], "expect_degenerate": True},
    # the observation sequence as integers (photon counts), as signed integers around zero, in single precision, as a
    # strided view: the same numbers as float64 give the same posteriors
    {"op": "fb", "K": 2, "mu": [12.0, 45.0], "tau": [1.0 / 16.0, 1.0 / 49.0], "pi": [0.5, 0.5], "A": [[0.8, 0.2], [0.3, 0.7]],
     "data": [9.0, 14.0, 40.0, 52.0, 47.0, 11.0], "dtype": "uint32"},
    {"op": "fb", "K": 2, "mu": [-2.0, 2.0], "tau": [0.5, 0.25], "pi": [0.25, 0.75], "A": [[0.5, 0.5], [0.1, 0.9]],
     "data": [-3.0, 0.0, 2.0, 5.0, -1.0], "dtype": "int64", "layout": "strided"},
    {"op": "fb", "K": 3, "mu": [0.0, 1.0, 2.0], "tau": [4.0, 4.0, 4.0], "pi": [0.2, 0.3, 0.5], "A": [[0.5, 0.5, 0.0], [0.0, 0.5, 0.5], [0.5, 0.0, 0.5]],
     "data": [0.25, 0.5, 2.125, 1.75, 1.0], "dtype": "float32", "layout": "readonly"},
    {"op": "em", "K": 2, "mu": [10.0, 30.0], "tau": [0.04, 0.02], "pi": [0.5, 0.5], "A": [[0.7, 0.3], [0.4, 0.6]],
     "data": [8.0, 13.0, 27.0, 35.0, 31.0, 12.0, 6.0, 29.0], "iters": 2, "tol": 0.0, "dtype": "uint16", "container": "slice"},
    {"op": "vit", "K": 2, "mu": [3.0, 9.0], "tau": [0.5, 0.5], "pi": [0.5, 0.5], "A": [[0.9, 0.1], [0.1, 0.9]],
     "data": [2.0, 4.0, 8.0, 10.0, 3.0], "dtype": "uint8"},
    {"op": "dwell", "path": [0, 0, 1, 1, 1, 0, 2], "exclude": True},
    {"op": "dwell", "path": [0, 0, 1, 1, 1, 0, 2], "exclude": False},
    {"op": "dwell", "path": [3, 3, 3], "exclude": True},
    {"op": "dwell", "path": [3, 3, 3], "exclude": False},
    {"op": "dwell", "path": [], "exclude": True},
    {"op": "dwell", "path": [], "exclude": False},
    {"op": "dwell", "path": [1], "exclude": True},
    {"op": "dwell", "path": [1, 2], "exclude": True},
    {"op": "dwell", "path": [-1, 5, -1], "exclude": True},
    {"op": "dwell_api", "K": 3, "path": [0, 0, 1, 1, 1, 0, 2], "exclude": True, "dt": 1000},
    {"op": "dwell_api", "K": 2, "path": [1, 1, 1], "exclude": True, "dt": 12800},
    # one fitted model applied to two channels of one recording (same start, dt and length, other data), both modes each
    seq_case("hmm", 2, [step([0, 0, 1, 1, 1, 0], e, 20 * 10**9, 12800) for e in (False, True)]
             + [step([1, 0, 0, 0, 1, 1], e, 20 * 10**9, 12800) for e in (False, True)] + [step([0, 0, 1, 1, 1, 0], True, 20 * 10**9, 12800)]),
    seq_case("gmm", 3, [step([2, 2, 0, 1, 1, 0, 0], True), step([0, 1, 1, 1, 2, 2, 0], True), step([0, 1, 1, 1, 2, 2, 0], False),
                        step([2, 2, 0, 1, 1, 0, 0], False)]),
    # same data, other time window; same window, other length
    seq_case("hmm", 2, [step([0, 1, 1, 0], False, 0, 1000), step([0, 1, 1, 0], True, 4000, 1000), step([0, 1, 1, 0, 0], True, 0, 1000),
                        step([1, 1, 0, 1], False, 0, 1250, "before")]),
]


def cases(tier, rng):
    quick = tier == "quick"
    for c in CORPUS:
        yield dict(c, stream="corpus")
    import os

    d = os.path.join(os.path.dirname(os.path.dirname(os.path.abspath(__file__))), "corpus", "C16")
    if os.path.isdir(d):
        for f in sorted(os.listdir(d)):
            if f.endswith(".json"):
                c = json.load(open(os.path.join(d, f)))
                yield dict(c.get("case", c), stream="corpus")

    # ---- malformed stream
    yield {"stream": "malformed", "op": "vit", "K": 2, "mu": [0.0, 1.0], "tau": [1.0, 1.0], "pi": [0.5, 0.5], "A": [[0.5, 0.5], [0.5, 0.5]], "data": []}
    yield {"stream": "malformed", "op": "fb", "K": 2, "mu": [0.0, 1.0], "tau": [1.0, 1.0], "pi": [0.5, 0.5], "A": [[0.5, 0.5], [0.5, 0.5]], "data": []}
    for p in ([None], [0, None, 1], [None, None], [2, 2, None]):
        for ex in (False, True):
            yield {"stream": "malformed", "op": "dwell", "path": p, "exclude": ex}
    for n in (1, 2, 3):
        for g in ("none", "other", "gmm", "hmm"):
            if g in ("gmm", "hmm"):
                for m in (1, 2, 3):
                    yield {"stream": "malformed" if m != n else "small-scope", "op": "init", "n_states": n, "guess": g, "guess_n": m}
            elif g == "other":
                for v in ("not a model", 3, [0.5, 0.5]):
                    yield {"stream": "malformed", "op": "init", "n_states": n, "guess": g, "value": v}

    # ---- exhaustive small scope: every T up to Tmax for every random small model; the oracle sums/maximises over
    #      ALL K^T paths, the Lean theorems cover all paths for all sizes
    n_models = 20 if quick else 200
    Tmax = 5 if quick else 7
    r = rng.fork("c16-small")
    for mi in range(n_models):
        sub = r.fork(mi)
        for K in (1, 2, 3):
            m = rnd_model(sub, K, zeros=(mi % 2 == 1), sticky=sub.chance(0.3))
            full = simulate(sub, m, Tmax, noise=sub.choice([0.5, 1.0, 2.0]))
            if sub.chance(0.3):  # off-model observations
                full = [x + sub.uniform(-2.0, 2.0) for x in full]
            if not emission_ok(m, full):
                continue
            for T in range(1, Tmax + 1):
                yield dict(m, stream="small-scope", op="vit", data=full[:T], subseed=mi)
                yield dict(m, stream="small-scope", op="fb", data=full[:T], subseed=mi)
                if T >= 2:
                    # training stopped after 1..3 iterations (nothing has converged, the posteriors are still mixed): what the
                    # trained model reports goes through the sum over ALL K^T paths and the exact model
                    yield dict(m, stream="small-scope", op="em", data=full[:T], iters=1 + (mi + K + T) % 3, tol=0.0, subseed=mi)

    # every label sequence over 3 labels
    Lmax = 7 if quick else 9
    for n in range(0, Lmax + 1):
        for p in itertools.product((0, 1, 2), repeat=n):
            for ex in (False, True):
                yield {"stream": "small-scope", "op": "dwell", "path": list(p), "exclude": ex}
    # ... and those of length <= 5 (quick) / 6 through the public extract_dwell_times
    for n in range(1, (5 if quick else 6) + 1):
        for p in itertools.product((0, 1, 2), repeat=n):
            yield {"stream": "small-scope", "op": "dwell_api", "K": 3, "path": list(p), "exclude": (sum(p) + n) % 2 == 0, "dt": 1000}

    # ... and every ordered pair (a, b) of label sequences of equal length <= 3 (quick) / 4 over 3 labels as the calls a, b, a
    #     on ONE model object, all three traces over the same time window, every combination of modes for the first two calls
    for n in range(1, (3 if quick else 4) + 1):
        seqs = list(itertools.product((0, 1, 2), repeat=n))
        for ia_, a in enumerate(seqs):
            for ib_, b in enumerate(seqs):
                for e in range(4):
                    kind = "gmm" if (ia_ + ib_ + e) % 8 == 0 else "hmm"  # scipy.stats makes GaussianMixtureModel.state_path ~20x slower
                    yield dict(seq_case(kind, 3, [step(a, e & 1), step(b, e & 2), step(a, not e & 1)]), stream="small-scope")

    # ---- seeded random: sequences of calls on one model object
    N = 150 if quick else 3000
    r = rng.fork("c16-sequences")
    for i in range(N):
        sub = r.fork(i)
        K = sub.choice([2, 2, 3, 5])
        yield dict(seq_case(sub.choice(["hmm", "hmm", "hmm", "gmm"]), K, rnd_sequence(sub, K)), stream="random", subseed=i)

    # ---- seeded random: medium traces through the exact forward-backward model
    N = 40 if quick else 300
    Tm = 40 if quick else 64
    r = rng.fork("c16-medium")
    for i in range(N):
        sub = r.fork(i)
        K = sub.choice([2, 2, 3, 3, 4])
        m = rnd_model(sub, K, zeros=sub.chance(0.4), sticky=sub.chance(0.6))
        T = sub.choice([2, 3, 8, sub.randint(8, Tm), Tm])
        data = simulate(sub, m, T, noise=sub.choice([0.5, 1.0, 1.5]))
        if not emission_ok(m, data):
            continue
        yield dict(m, stream="random", op="fb", data=data, subseed=i)
        yield dict(m, stream="random", op="vit", data=data, subseed=i)

    # ---- seeded random: short and medium traces, Baum-Welch stopped early or by a loose tolerance, states that overlap
    N = 40 if quick else 400
    r = rng.fork("c16-em-medium")
    for i in range(N):
        sub = r.fork(i)
        K = sub.choice([2, 2, 3, 3, 4])
        truth = rnd_model(sub, K, zeros=False, sticky=sub.chance(0.6))
        T = sub.choice([3, 5, 7, 12, sub.randint(8, Tm), Tm])
        data = simulate(sub, truth, T, noise=sub.choice([0.5, 1.0, 1.5]))
        guess = rnd_model(sub, K, zeros=sub.chance(0.2), sticky=sub.chance(0.5))
        guess["mu"] = sorted(truth["mu"][j] + sub.uniform(-0.5, 0.5) for j in range(K))
        guess["tau"] = [truth["tau"][j] * sub.loguniform(0.3, 2.0) for j in range(K)]
        ambiguous_start(sub, guess, data)
        if not emission_ok(guess, data):
            continue
        yield dict(guess, stream="random", op="em", data=data, iters=sub.choice([1, 1, 2, 3, 5]), tol=sub.choice([0.0, 0.0, 1e-3, 0.5]), subseed=i)

    # ---- seeded random: long traces, Baum-Welch
    N = 20 if quick else 200
    r = rng.fork("c16-long")
    for i in range(N):
        sub = r.fork(i)
        K = sub.choice([1, 2, 2, 3, 3])
        truth = rnd_model(sub, K, zeros=False, sticky=True)
        truth["mu"] = [3.0 * j + sub.uniform(-0.5, 0.5) for j in range(K)]
        T = sub.choice([60, 200, 1000, sub.randint(60, 5000)]) if not quick else sub.choice([60, 200, 500, sub.randint(60, 5000 if i < 4 else 800)])
        data = simulate(sub, truth, T)
        guess = rnd_model(sub, K, zeros=False, sticky=sub.chance(0.5))
        guess["mu"] = [truth["mu"][j] + sub.uniform(-1.0, 1.0) for j in range(K)]
        guess["tau"] = [sub.loguniform(0.3, 3.0) for _ in range(K)]
        ambiguous_start(sub.fork("start"), guess, data)
        if not emission_ok(guess, data):
            continue
        yield dict(guess, stream="random-long", op="em", data=data, iters=sub.choice([1, 2, 3, 5, 8]), tol=sub.choice([0.0, 0.0, 1e-3, 0.5, 5.0]), subseed=i)
        if i % 4 == 0:
            yield dict(truth, stream="random-long", op="vit", data=data, subseed=i)

    # ---- seeded random label sequences (more labels, negative labels, long)
    N = 300 if quick else 5000
    r = rng.fork("c16-labels")
    for i in range(N):
        sub = r.fork(i)
        labels = sub.choice([[0, 1], [0, 1, 2], [0, 1, 2, 3, 4], [-2, 0, 7], [5]])
        n = sub.choice([1, 2, 3, 10, sub.randint(1, 60), sub.randint(60, 2000 if i % 10 == 0 else 200)])
        p = label_seq(sub, n, labels)
        yield {"stream": "random", "op": "dwell", "path": p, "exclude": sub.chance(0.5), "subseed": i}
        if i % 10 == 0 and min(labels) == 0 and len(p) <= 300:
            K = max(labels) + 1
            yield {"stream": "random", "op": "dwell_api", "K": K, "path": p, "exclude": sub.chance(0.5), "dt": sub.choice([1000, 12800, 10**6]), "subseed": i}

    # ---- the observation sequence as the array types callers hold (see OBS_DTYPES): integer counts, single precision,
    #      strided views, read-only buffers.  The numbers in the array are exactly case["data"], so everything above applies
    #      unchanged: exact model, sums over ALL K^T paths, the trained object's reported log-likelihood.
    #      small scope: per element type random small models (count scale for the integer types), every T
    n_models = 16 if quick else 64
    r = rng.fork("c16-typed-small")
    for mi in range(n_models):
        sub = r.fork(mi)
        dtype, layout = typed_form(sub, mi)
        for K in (1, 2, 3):
            m = typed_model(sub, rnd_model(sub, K, zeros=((mi // len(OBS_DTYPES)) % 2 == 1), sticky=sub.chance(0.3)), dtype)
            full = simulate(sub, m, Tmax, noise=sub.choice([0.5, 1.0, 2.0]))
            if sub.chance(0.3):  # off-model observations
                w = 2.0 / math.sqrt(max(m["tau"]))
                full = [x + sub.uniform(-w, w) for x in full]
            full = retype(full, dtype)
            if not emission_ok(m, full):
                continue
            form = {"dtype": dtype, "layout": layout, "subseed": mi}
            for T in range(1, Tmax + 1):
                yield dict(m, stream="small-scope", op="vit", data=full[:T], **form)
                yield dict(m, stream="small-scope", op="fb", data=full[:T], **form)
                if T >= 2:
                    yield dict(m, stream="small-scope", op="em", data=full[:T], iters=1 + (mi + K + T) % 3, tol=0.0,
                               container=("slice" if (mi + T) % 2 else "array"), **form)

    #      medium traces through the exact forward-backward model
    N = 32 if quick else 160
    r = rng.fork("c16-typed-medium")
    for i in range(N):
        sub = r.fork(i)
        dtype, layout = typed_form(sub, i)
        K = sub.choice([2, 2, 3, 3, 4])
        m = typed_model(sub, rnd_model(sub, K, zeros=sub.chance(0.4), sticky=sub.chance(0.6)), dtype)
        T = sub.choice([2, 3, 8, sub.randint(8, Tm), Tm])
        data = retype(simulate(sub, m, T, noise=sub.choice([0.5, 1.0, 1.5])), dtype)
        if not emission_ok(m, data):
            continue
        yield dict(m, stream="random", op="fb", data=data, dtype=dtype, layout=layout, subseed=i)
        yield dict(m, stream="random", op="vit", data=data, dtype=dtype, layout=layout, subseed=i)

    #      Baum-Welch on short, medium and long traces, through the manual E/M steps and the public constructor
    N = 32 if quick else 200
    r = rng.fork("c16-typed-em")
    for i in range(N):
        sub = r.fork(i)
        dtype, layout = typed_form(sub, i)
        K = sub.choice([2, 2, 3, 3, 4])
        long = i % 4 == 3
        truth = rnd_model(sub, K, zeros=False, sticky=long or sub.chance(0.6))
        if long:
            truth["mu"] = [3.0 * j + sub.uniform(-0.5, 0.5) for j in range(K)]
        guess = rnd_model(sub, K, zeros=sub.chance(0.2) and not long, sticky=sub.chance(0.5))
        guess["mu"] = sorted(truth["mu"][j] + sub.uniform(-0.5, 0.5) for j in range(K))
        guess["tau"] = [truth["tau"][j] * sub.loguniform(0.3, 2.0) for j in range(K)]
        # truth and guess in the same (count) units
        sc, shift = typed_units(sub, truth, dtype)
        truth, guess = rescaled(truth, sc, shift), rescaled(guess, sc, shift)
        T = sub.choice([60, 200, sub.randint(60, 800 if quick else 5000)]) if long else sub.choice([3, 5, 7, 12, sub.randint(8, Tm), Tm])
        data = retype(simulate(sub, truth, T, noise=sub.choice([0.5, 1.0, 1.5])), dtype)
        if not long:
            ambiguous_start(sub, guess, data)
            data = retype(data, dtype)
        if not emission_ok(guess, data):
            continue
        yield dict(guess, stream="random-long" if long else "random", op="em", data=data, iters=sub.choice([1, 1, 2, 3, 5]),
                   tol=sub.choice([0.0, 0.0, 1e-3, 0.5]), dtype=dtype, layout=layout, container=sub.choice(["array", "slice"]), subseed=i)


def em_lls(d):
    """the log-likelihoods of the observed Baum-Welch iterations (anchored E/M steps, else the public chain)"""
    if got(d, "ll") is not None:
        return unfl(d["ll"])
    return [dec_float(c["ll"]) for c in (got(d, "chain") or [])]


def positivity_coverage(results):
    """branches of scaling_positive / posteriors_nonneg / occupancy_positive hit by the c16.fb runs of this check"""
    out = {"posModel_true": 0, "posModel_false": 0, "posModel_true_with_zero_in_pi": 0, "posModel_true_with_zero_in_A": 0,
           "posModel_true_T1_no_occupancy_claim": 0, "rows_with_positive_pi_and_T>=2": 0, "degenerate_runs": 0}
    for r in results:
        c = r["case"]
        for m in r["model"]:
            toks = m.split(" ")
            if m == "degenerate":
                out["degenerate_runs"] += 1
            if len(toks) != 11:
                continue
            if toks[7] != "T":
                out["posModel_false"] += 1
                continue
            out["posModel_true"] += 1
            if c["op"] == "fb":
                out["posModel_true_with_zero_in_pi"] += any(v == 0 for v in c["pi"])
                out["posModel_true_with_zero_in_A"] += any(v == 0 for row in square(c) for v in row)
                T = len(c["data"])
                out["posModel_true_T1_no_occupancy_claim"] += T == 1
                out["rows_with_positive_pi_and_T>=2"] += sum(1 for v in c["pi"] if v > 0) if T >= 2 else 0
    return out


def emtab_coverage(results):
    """branches of em_monotone_tables / emTables_mono hit by the c16.emtab runs (both sides as sums over ALL paths)"""
    out = {"runs": 0, "hypotheses_hold": 0, "hypotheses_fail_rounding_or_impossible_data": 0, "likelihood_strictly_up": 0,
           "likelihood_equal": 0, "likelihood_down_without_hypotheses": 0, "code_side_observed": 0,
           "code_side_new_row_0/0_not_compared": 0, "models_with_zero_probabilities": 0}
    for r in results:
        c = r["case"]
        if c["op"] != "fb" or len(r["model"]) != 2:
            continue
        toks = r["model"][1].split(" ")
        if len(toks) != 4:
            continue
        out["runs"] += 1
        out["hypotheses_hold" if toks[3] == "T" else "hypotheses_fail_rounding_or_impossible_data"] += 1
        out["models_with_zero_probabilities"] += any(v == 0 for v in c["pi"]) or any(v == 0 for row in square(c) for v in row)
        if toks[0] == toks[1]:
            out["likelihood_equal"] += 1
        elif toks[2] == "T":
            out["likelihood_strictly_up"] += 1
        else:
            out["likelihood_down_without_hypotheses"] += 1
        a = r["impl"][1]
        if a != "?" and not is_err(a):
            out["code_side_observed"] += 1
            out["code_side_new_row_0/0_not_compared"] += not math.isfinite(dec_float(json.loads(a)["ll1"]))
    return out


def extra_coverage(results):
    unobserved = {}  # observations the harness could not make because a private tie was not reachable ("?")
    for r in results:
        k = r["case"]["op"]
        for a in r["impl"][:1 if k in ("fb", "em") else None]:
            if a == "?":
                unobserved[k] = unobserved.get(k, 0) + 1
            elif k in ("fb", "em") and not is_err(a):
                for f, v in json.loads(a).items():
                    if v == "?" and f != "chain":  # (the chain is a public twin, left out by design for long traces)
                        unobserved[f"{k}.{f}"] = unobserved.get(f"{k}.{f}", 0) + 1
    public_twin = {
        "fb_cases_also_through_one_public_Baum_Welch_iteration": sum(
            1 for r in results if r["case"]["op"] == "fb" and not is_err(r["impl"][0]) and got(json.loads(r["impl"][0]), "pub1") is not None),
        "em_cases_also_iterated_one_by_one_through_the_public_constructor": sum(
            1 for r in results if r["case"]["op"] == "em" and not is_err(r["impl"][0]) and got(json.loads(r["impl"][0]), "chain") is not None),
    }
    out = _extra_coverage(results)
    out["positivity_theorems_on_executed_runs"] = positivity_coverage(results)
    out["em_monotone_tables_on_executed_runs"] = emtab_coverage(results)
    out.update({"private_ties": private_ties(), "observations_not_made_private_tie_unreachable": dict(sorted(unobserved.items())),
                "public_twins": public_twin})
    return out


def _extra_coverage(results):
    kinds, errs, Ks, Ts = {}, {}, {}, {"1": 0, "2-7": 0, "8-64": 0, "65-5000": 0}
    zero_models = ties = degenerate = em_dropped = brute = 0
    trained_checked = trained_mixed = trained_brute = trained_lean = 0
    seq_calls = seq_same_window_other_data = seq_same_trace_again = 0
    obs_types, obs_layouts, ctor_slice, typed_nontrivial, typed_em_dropped, em_collapsed = {}, {}, 0, 0, 0, 0
    for r in results:
        c = r["case"]
        k = c["op"]
        if k in ("vit", "fb", "em"):
            dt = c.get("dtype", "float64")
            obs_types[f"{k}:{dt}"] = obs_types.get(f"{k}:{dt}", 0) + 1
            obs_layouts[c.get("layout", "own")] = obs_layouts.get(c.get("layout", "own"), 0) + 1
            ctor_slice += k == "em" and c.get("container") == "slice"
            # an integer / single precision trace that is not one repeated number
            typed_nontrivial += dt != "float64" and len(set(c["data"])) >= 2
        if k == "dwell_seq":
            st = c["steps"]
            seq_calls += len(st)
            for i in range(1, len(st)):
                win = lambda x: (x["start"], x["dt"], len(x["path"]))
                seq_same_window_other_data += any(win(p) == win(st[i]) and p["path"] != st[i]["path"] for p in st[:i])
                seq_same_trace_again += any(win(p) == win(st[i]) and p["path"] == st[i]["path"] for p in st[:i])
        kinds[k] = kinds.get(k, 0) + 1
        a = r["impl"][0]
        if is_err(a):
            errs[a] = errs.get(a, 0) + 1
        if k in ("vit", "fb", "em"):
            Ks[str(c["K"])] = Ks.get(str(c["K"]), 0) + 1
            T = len(c["data"])
            Ts["1" if T <= 1 else "2-7" if T <= 7 else "8-64" if T <= 64 else "65-5000"] += 1
            if any(v == 0 for v in c["pi"]) or any(v == 0 for row in square(c) for v in row):
                zero_models += 1
            if k != "em" and T and c["K"] ** T <= BRUTE_LIMIT:
                brute += 1
        if k == "vit" and not is_err(a) and not is_err(r["model"][0]):
            if r["model"][0].split(" ")[0] != "[" + ",".join(str(s) for s in json.loads(a)["path"]) + "]":
                ties += 1
        if k == "fb" and r["model"][0] == "degenerate":
            degenerate += 1
        if k == "em" and not is_err(a):
            pr = json.loads(a)["ret"]
            pi, tau = unfl(pr["pi"]), unfl(pr["tau"])
            if params_usable(pi, [unfl(x) for x in pr["A"]], unfl(pr["mu"]), tau) and max(tau) <= TAU_COLLAPSED and r["clause"] is None:
                trained_checked += 1
                trained_mixed += max(pi) < 0.999
                trained_brute += c["K"] ** len(c["data"]) <= BRUTE_LIMIT
                trained_lean += len(r["model"]) == 2 and r["model"][1] not in ("ok", "degenerate")
        if k == "em" and not is_err(a) and not all(v <= TAU_COLLAPSED for v in (unfl(json.loads(a)["taumax"]) or [dec_float(c["taumax"]) for c in (got(json.loads(a), "chain") or [])])):
            em_collapsed += 1
        if k == "em" and (r["model"][0] == "ok" or (not is_err(a) and not all(math.isfinite(v) for v in em_lls(json.loads(a))))):
            em_dropped += 1
            typed_em_dropped += c.get("dtype", "float64") != "float64"
    return {
        "case_kinds": kinds, "error_kinds": errs, "states_K": Ks, "trace_lengths_T": Ts,
        "models_with_zero_probabilities": zero_models, "cases_checked_against_all_paths_brute_force": brute,
        "decoded_path_differs_from_model_path_but_scores_agree": ties, "forward_backward_degenerate": degenerate,
        "em_runs_dropped_as_degenerate": em_dropped, "em_runs_dropped_as_degenerate_not_float64": typed_em_dropped,
        "em_runs_with_a_collapsed_variance_whose_ascent_is_not_compared_there": em_collapsed,
        "trained_models_with_usable_parameters": trained_checked,
        "trained_models_whose_initial_distribution_is_still_mixed": trained_mixed,
        "trained_models_checked_against_all_paths_brute_force": trained_brute,
        "trained_models_checked_against_the_exact_lean_model": trained_lean,
        "calls_in_sequences_on_one_model_object": seq_calls,
        "sequence_calls_with_the_time_window_of_an_earlier_call_but_other_data": seq_same_window_other_data,
        "sequence_calls_repeating_an_earlier_trace": seq_same_trace_again,
        "observation_array_element_types": dict(sorted(obs_types.items())), "observation_array_layouts": obs_layouts,
        "non_float64_traces_with_at_least_two_different_values": typed_nontrivial,
        "constructor_given_a_Slice": ctor_slice, "exhaustive": False,
        "exhaustive_note": "the small-scope stream enumerates all label sequences and, per model, all trace lengths; "
                           "the oracle enumerates all K^T paths there; model parameters themselves are sampled",
    }
