"""C07 — image-stack frame and ROI indexing: correspondence + oracle (see DESIGN.md 6/C07).

Every case runs on a REAL multi-page TIFF stack written by harness/builders_tiff.py (pixel values encode
page/row/column/channel injectively) and opened with lumicks.pylake.ImageStack from the tree under test.  Where the
pixel values are interpolated (rotated tethers, colour alignment) the stacks of harness/c07_beads.py show two Gaussian
spots instead, whose positions are measured in every frame and colour channel (op "beads")."""
import atexit
import itertools
import json
import math
import os
import shutil
import tempfile
import warnings

import numpy as np

import builders_tiff as bt
import c07_beads as cb
from common import VERIF, dec_float, enc_float, enc_list, enc_opt, errname

PROP = "C07"
THEOREMS = [
    "Verif.C07.num_frames_eq_length",
    "Verif.C07.mem_frames_iff",
    "Verif.C07.frames_strictly_increasing",
    "Verif.C07.slice_refines",
    "Verif.C07.slice_zero_step",
    "Verif.C07.slice_negative_step",
    "Verif.C07.index_refines",
    "Verif.C07.crop_preserves_frames",
    "Verif.C07.frames_preserve_roi",
    "Verif.C07.frameItem_roi_indep",
    "Verif.C07.crop_frames_commute",
    "Verif.C07.getitem_tuple_decomposes",
    "Verif.C07.step_positive_preserved",
    "Verif.C07.F2_witness",
    "Verif.C07.roi_crop_refines",
    "Verif.C07.roi_apply_shape",
    "Verif.C07.legacy_frame_ranges",
    "Verif.C07.get_frame_refines",
    "Verif.C07.time_window_refines",
    "Verif.C07.tether_horizontal",
    "Verif.C07.tether_length",
    "Verif.C07.tether_midpoint",
    "Verif.C07.tether_crop_consistent",
    "Verif.C07.F9_witness",
    "Verif.C07.tether_maps_chosen_points",
    "Verif.C07.align_then_rotate_order_matters",
    # deepening round D
    "Verif.C07.kymo_pixels_refine_reduce",
    "Verif.C07.kymo_pixels_refine",
    "Verif.C07.reduce_max_min_spec",
    "Verif.C07.kymo_stack_ok_iff",
    "Verif.C07.kymoWindow_eq_pinned",
    "Verif.C07.F20b_witness",
    "Verif.C07.kymo_times_spec",
    "Verif.C07.kymo_times_errors",
    "Verif.C07.getitem_image_refines",
    "Verif.C07.image_shape",
    "Verif.C07.index_image_refines",
    "Verif.C07.fresh_paged",
    "Verif.C07.ranges_slice_refines",
    "Verif.C07.ranges_index_refines",
    "Verif.C07.crop_preserves_ranges",
    "Verif.C07.start_stop_refine",
    "Verif.C07.ranges_sorted",
    "Verif.C07.slice_time_refines",
    "Verif.C07.time_bound_cases",
    "Verif.C07.crop_none_id",
    "Verif.C07.getitem_tuple_cases",
    "Verif.C07.interpret_crop_cases",
    "Verif.C07.retether_horizontal_length",
    "Verif.C07.retether_maps_content",
    "Verif.C07.good_init",
    "Verif.C07.good_frameItem",
    "Verif.C07.good_crop",
    "Verif.C07.good_preserved",
    "Verif.C07.kymo_times_refine",
    "Verif.C07.flat_tether_is_identity",
    "Verif.C07.visible_frames_resolve",
    "Verif.C07.define_tether_calibrated",
    "Verif.C07.ranges_legacy_eq",
    "Verif.C07.good_runOps",
    "Verif.C07.program_image_refines",
]
RULE = (
    "corpus (F2 inputs) + exhaustive small scope on real TIFF stacks of n<=6 frames of 4x5 pixels: every slice with "
    "bounds in [-n-1,n+1] or None and step in {None,1,2,3}, negative/zero steps, every integer index, and for every "
    "distinct (start,stop,step) state reachable on n=6 every second-level slice/integer (quick: second-level steps "
    "{None,2}); every ROI (bounds in [-dim-1,dim+1] or None) of the 4x5 image through Roi.crop, a sub-grid of them "
    "(thorough: all) through crop_by_pixels+get_image, re-crops of a cropped image, tuple indices incl. integers; "
    "slice.indices self-test; file/page lookup for all 1-3 files of 1-3 pages; legacy frame ranges + seeded random programs of 1-4 "
    "operations (frame slice, integer, crop_by_pixels, tuple index, time-string/timestamp slice, define_tether) on "
    "grey/RGB/two-colour, 1-3 file, constant/variable-exposure, legacy-export stacks of up to 60 frames; commuted "
    "crop/slice pairs; time-like bounds exhaustively at the frame boundaries (start / exposure stop of every visible frame, "
    "0/+1 ns, thorough: also -1 ns; absolute timestamps and time strings from the start and from the stop; plain and stepped "
    "stacks); get_image() of every untethered program on a small stack compared pixel for pixel with the model's own pixel "
    "values (op c07.image) and with the same NumPy indexing of the full array; to_kymo exhaustively on 3 frames of 4x5 pixels "
    "(every integer tether row and pair of end columns, half windows -1..2, 0-4 columns cut off the left after the tether, "
    "reduce = sum/max/min, stacks whose frame rate / exposure is not constant, single frames, RGB / two-colour / legacy) with "
    "pixel values, line time, exposure and start compared exactly (op c07.kymo); pixel-calibrated stacks (define_tether in um); "
    "to_kymo after cropping rows/columns away around a tether given inside pixels (stream kymo-rows: exhaustive on 3 frames of 4x5 - "
    "tether row in half/quarter pixels, every row crop [top:bottom] and left cut after the tether, half windows 0/1 - and random "
    "larger stacks with crop bounds at the edges of the reduced window: a tether row or end at a coordinate in (-1, 0)); a stack "
    "starting exactly at the first instant pylake reads as a timestamp (bounds FIRST_TS-1 / FIRST_TS / FIRST_TS+1); "
    "random horizontal-tether to_kymo (incl. the F20 class: left tether end cropped away, and F20b: both ends); bead stacks (two "
    "Gaussian spots; grey, RGB without alignment metadata, RGB with non-identity Bluelake alignment matrices - shifts of "
    "up to 7 px, small rotations/scalings, alignment-ROI offsets - opened with align=True and align=False) with a tether "
    "defined through the two beads at a grid of angles (0, 30, 90, -135, 180 degrees) and at random angles, crops/frame "
    "selections before and after it and re-tethering: the spots are located in every frame and colour channel of "
    "get_image() and must lie on the tether ends; a malformed stream (zero step, 4-tuples, spatial steps, reversed "
    "ROIs). Non-trivial: the program selects a proper non-empty subset of frames or pixels, or raises, or defines a "
    "tether."
)
TRUSTED = [
    "tifffile (writing the test stacks, reading pages/tags) and numpy indexing as the reference semantics of the oracle",
    "pixel identity: the synthetic stacks encode (page,row,column,channel) injectively, so an image decodes to the "
    "exact index lists it was taken from (builders_tiff.decode re-checks the whole array)",
    "tether: executed at Float in the model (sqrt, normalised direction (dx/r, dy/r) instead of arctan2/cos/sin and "
    "matrix products), compared with 1e-9*(1+|coordinates|); the tether_* theorems are about the same definitions "
    "at R (rounding is not modelled)",
    "matplotlib (Line2D.get_data(orig=True) returns the doubles it was given): the tether ends are read from the line "
    "that the public ImageStack.plot_tether(axes) draws; internal members of pylake (TiffStack.get_frame behind the stack, "
    "detail.widefield.Roi / the legacy frame-range helper, TiffFrame.raw_data) are asked only while they are reachable - "
    "every observation they give is also made through the public API (stack[i].get_image(), crop_by_pixels + get_image, "
    "frame_timestamp_ranges(include_dead_time=True) of a legacy export), except pages/ROI behind a ROTATED tether "
    "(raw_data; without it: timestamps + shape + bead positions) and the legacy helper on an empty list",
    "bead stacks: skimage.transform.warp (bilinear) moves the intensity-weighted centroid of a Gaussian spot of sigma >= 1.2 px "
    "like the affine map it is given (measured: < 0.02 px over 80000 spots on /repo; compared with 0.25 px); the spots are "
    "located without using the expected positions (two brightest maxima, centroid in a window of 3 sigma + 1)",
]
ASSUMPTIONS = [
    "stacks built by the code have a positive step (hypothesis 0 < st of slice_refines/index_refines; established by "
    "ImageStack.__init__ with 1 and preserved by every operation, proved)",
    "page timestamps are >= 2014-01-01 in ns (smaller integers are frame indices for pylake) and strictly increasing",
    "exposure metadata is an integer number of ns below 2^40 (round(1e6*ms) recovers it exactly)",
    "to_kymo is exercised for horizontal left-to-right tethers; stacks of < 2 frames raise an undocumented IndexError "
    "(modelled, not judged by the oracle), a 1-pixel kymograph an AxisError from numpy's squeeze (not generated); "
    "reduce = np.sum / np.max / np.min (np.mean and user callables are outside); rotated tethers go through skimage.warp: "
    "geometry of the end points checked, and on bead stacks that every colour channel shows the chosen points on them; other "
    "interpolated pixel values are not compared",
    "the to_kymo theorems are about the integer floors of the processed tether ends; model and code take that floor on the "
    "same doubles",
    "bead stacks: the beads are followed only if, when the points are chosen, every colour channel of the image shows them "
    "at the chosen points within 0.25 px (holds for all generated cases on /repo; counted in coverage.bead_cases_followed)",
]

FIRST_TS = bt.FIRST_TIMESTAMP

_STACKS = None


def stacks():
    global _STACKS
    if _STACKS is None:
        _STACKS = bt.TiffStacks()
        atexit.register(_STACKS.close)
    return _STACKS


_BEADS = None


def bead_stacks():
    global _BEADS
    if _BEADS is None:
        _BEADS = cb.BeadStacks()
        atexit.register(_BEADS.close)
    return _BEADS


# ------------------------------------------------------------------ helpers


def nie_kind(e):
    m = str(e).lower()
    if "empty" in m:
        return "NotImplementedError/empty"
    if "reverse" in m:
        return "NotImplementedError/reverse"
    return "NotImplementedError/other"


def err_token(e):
    n = errname(e)
    if n == "NotImplementedError":
        return nie_kind(e)
    if n not in ("IndexError", "ValueError"):
        return n + ":" + str(e)[:60].replace(" ", "_")
    return n


def dec_bound(b):
    """case encoding of a time-like bound: None | int (index or timestamp) | {"s": str, "ns": int}"""
    if isinstance(b, dict):
        return b["s"]
    return b


def enc_bound_model(b):
    if b is None:
        return "N"
    if isinstance(b, dict):
        return "r" + str(int(b["ns"]))
    return str(int(b))


def mk_item(it):
    if isinstance(it, list):
        return slice(*it) if len(it) == 3 else slice(it[0], it[1])
    return it


def enc_item(it):
    if isinstance(it, list):
        return ":".join(enc_opt(x) for x in it)
    return str(int(it))


def show_ranges(r):
    return "[" + ",".join(f"{int(a)}:{int(b)}" for a, b in r) + "]"


def contiguous(idx):
    return len(idx) > 0 and list(idx) == list(range(idx[0], idx[0] + len(idx)))


# ------------------------------------------------------------------ implementation side


def run_prog(stack, prog):
    """apply the program to a real ImageStack; returns (stack, kymo | None)"""
    for st in prog:
        k = st[0]
        if k == "s":
            stack = stack[slice(st[1], st[2], st[3])]
        elif k == "i":
            stack = stack[st[1]]
        elif k == "c":
            stack = stack.crop_by_pixels(st[1], st[2], st[3], st[4])
        elif k == "g":
            stack = stack[tuple(mk_item(it) for it in st[1:])]
        elif k == "t":
            stack = stack[slice(dec_bound(st[1]), dec_bound(st[2]), st[3])]
        elif k == "T":
            stack = stack.define_tether((st[1], st[2]), (st[3], st[4]))
        elif k == "k":
            if len(st) > 2:  # the rarely used `reduce` option
                return stack, stack.to_kymo(half_window=st[1], reduce={"sum": np.sum, "max": np.max, "min": np.min}[st[2]])
            return stack, stack.to_kymo(half_window=st[1])
        else:
            raise ValueError(k)
    return stack, None


UNSEEN = "?"  # an observation that needs a private member of pylake which is not there (any more): never compared

_AXES = None


def tether_ends(stack):
    """The tether of a stack through the PUBLIC API: `ImageStack.plot_tether(axes)` draws the line between the two tether
    ends (in image units, the units of `define_tether`) into a matplotlib Axes and raises ValueError for a stack without
    tether.  Returns None | [x1, y1, x2, y2] (the doubles handed to matplotlib, bit for bit)."""
    global _AXES
    if _AXES is None:
        os.environ.setdefault("MPLBACKEND", "Agg")
        from matplotlib.figure import Figure

        _AXES = Figure().add_subplot()
    ax = _AXES
    before = list(ax.lines)
    try:
        stack.plot_tether(axes=ax)
    except ValueError:
        return None  # "A tether is not defined yet for this image stack."
    new = [ln for ln in ax.lines if not any(ln is b for b in before)]
    try:
        if len(new) != 1:
            raise RuntimeError(f"plot_tether drew {len(new)} lines")
        x, y = (np.asarray(v, dtype=float) for v in new[0].get_data(orig=True))
    finally:
        for ln in new:
            ln.remove()
    if x.shape != (2,) or y.shape != (2,):
        raise RuntimeError(f"plot_tether drew a line of {x.shape} points")
    # calibrated stacks (stream "calibrated"): image units, as define_tether takes them; the model reports them likewise
    return [float(x[0]), float(y[0]), float(x[1]), float(y[1])]


def raw_frames(stack):
    """The un-rotated pixel data of the frames of a (tethered) stack, or None.  Iterating over an ImageStack is public;
    `raw_data` is an attribute of pylake's internal frame class: it is read only while it is there."""
    frames = list(stack)
    out = []
    for f in frames:
        try:
            out.append(np.asarray(f.raw_data))
        except AttributeError as e:
            if missing_here(e):
                return None
            raise
    return np.stack(out, axis=0)


def observe(spec, stack):
    """canonical observables of a stack: the string the model prints + num_frames/shape/source"""
    nf = int(stack.num_frames)
    shape = tuple(int(x) for x in stack.shape)
    img = np.asarray(stack.get_image())
    src = "image"
    dec = None
    ends = tether_ends(stack)
    seen = True
    if ends is not None:
        # a rotated tether interpolates pixel values with skimage.warp (outside the model): frames and ROI are
        # identified from the un-rotated raw data of the same frames; `src` records whether get_image() equals it
        raw = raw_frames(stack)
        if raw is not None:
            dec = bt.decode(spec, raw)
            if tuple(raw.shape) != shape or img.size != raw.size:
                src = "raw-shape-mismatch"
            elif not np.array_equal(img.reshape(shape), raw):
                src = "raw"
        else:
            # the raw data cannot be reached: pages and ROI stay unobserved (the frames are still tied by their
            # timestamps and the shape below, the position of the ROI by the bead stacks).  What the image itself decodes
            # to is kept in `src`: the oracle needs it where the tether was horizontal already (pixel values untouched);
            # for an interpolated image it means nothing and is not looked at
            seen = False
            d = bt.decode(spec, img.reshape(shape)) if img.size == int(np.prod(shape)) else None
            if d is not None and contiguous(d[1]) and contiguous(d[2]):
                src = f"{UNSEEN}{enc_list(d[0])}/{d[2][0]},{d[2][-1] + 1},{d[1][0]},{d[1][-1] + 1}"
            else:
                src = UNSEEN + "undecodable"
    elif img.size == int(np.prod(shape)):
        dec = bt.decode(spec, img.reshape(shape))
    if not seen:
        pages_s, roi = UNSEEN, UNSEEN
    else:
        if dec is None:
            return f"undecodable shape={shape} squeezed={tuple(img.shape)}"
        pages, rows, cols = dec
        if not (contiguous(rows) and contiguous(cols)):
            return f"non-contiguous rows={rows} cols={cols}"
        pages_s = enc_list(pages)
        roi = f"{cols[0]},{cols[-1] + 1},{rows[0]},{rows[-1] + 1}"
    expo = stack.frame_timestamp_ranges()
    dead = stack.frame_timestamp_ranges(include_dead_time=True)
    tt = "none" if ends is None else ",".join(enc_float(v) for v in ends)
    return (
        f"ok {pages_s} {roi} {show_ranges(expo)} {show_ranges(dead)} {int(stack.start)} {int(stack.stop)} {tt} "
        f"nf={nf} shape={'x'.join(map(str, shape))} src={src}"
    )


def observe_kymo(spec, stack, kymo):
    chans = []
    for ch in ("red", "green", "blue"):
        a = np.asarray(kymo.get_image(ch))
        chans.append(a)
    shp = chans[0].shape
    vals = ";".join(",".join(str(float(v)) for v in a.ravel()) for a in chans)
    lt = kymo.line_time_seconds
    # exposure and line period as the kymograph reports them: stop - start of its first line without / with dead time
    ex = dead = UNSEEN
    try:
        r0 = kymo.line_timestamp_ranges(include_dead_time=False)[0]
        r1 = kymo.line_timestamp_ranges(include_dead_time=True)[0]
        ex, dead = str(int(r0[1]) - int(r0[0])), str(int(r1[1]) - int(r1[0]))
    except (AttributeError, TypeError) as e:
        if not missing_here(e):
            raise
    return f"kymo {shp[0]}x{shp[1] if len(shp) > 1 else 1} [{vals}] lt={enc_float(lt)} start={int(kymo.start)} ex={ex} line={dead}"


def impl_prog(spec, prog):
    with warnings.catch_warnings():
        warnings.simplefilter("ignore")
        try:
            stack, _, _ = stacks().get(spec)
            out, kymo = run_prog(stack, prog)
            if kymo is not None:
                return observe_kymo(spec, out, kymo)
            return observe(spec, out)
        except Exception as e:
            return err_token(e)


IMAGE_STREAMS = ("small-scope", "small-scope-flavours", "roi-stack", "time-exhaustive", "random-programs", "commute", "corpus")


def wants_image(case):
    """cases whose get_image() is also compared pixel for pixel with the model's own pixel values (op c07.image): untethered
    programs on small stacks"""
    if case["op"] != "prog" or case["stream"] not in IMAGE_STREAMS:
        return False
    spec = case["spec"]
    if sum(spec["files"]) * spec["h"] * spec["w"] * bt.n_samples(spec) > 720:
        return False
    return not any(st[0] in ("T", "k") for st in case["prog"])


def show_image(spec, arr):
    """[frame, row, col(, colour)] -> `image <frame/frame/…>|<sample 1>|…`, one block per STORED sample"""
    arr = np.asarray(arr)
    if spec["colour"] == "grey":
        planes = [arr]
    else:
        keep = [c for c, k in enumerate(sample_channels(spec)) if k is not None]
        planes = [arr[..., c] for c in keep]
        for c, k in enumerate(sample_channels(spec)):
            if k is None and np.any(arr[..., c] != 0):
                return "image channel-not-empty"
    def frame(f):
        return "[" + ";".join(",".join(str(int(v)) for v in row) for row in f) + "]"
    return "image " + "|".join("/".join(frame(f) for f in pl) for pl in planes)


def impl_image(spec, prog):
    with warnings.catch_warnings():
        warnings.simplefilter("ignore")
        try:
            stack, _, _ = stacks().get(spec)
            out, _ = run_prog(stack, prog)
            shape = tuple(int(x) for x in out.shape)
            img = np.asarray(out.get_image())
            if img.size != int(np.prod(shape)):
                return f"image size {img.size} for shape {shape}"
            return show_image(spec, img.reshape(shape))
        except Exception as e:
            return err_token(e)


def image_line(spec, prog):
    return f"c07.image {bt.n_samples(spec)} " + run_line(spec, prog)[len("c07.run "):]


def first_frame(stack):
    img = np.asarray(stack.get_image())
    return img.reshape(tuple(int(x) for x in stack.shape))[0]


def observe_beads(spec, stack, pre):
    """bead stacks (content = two spots): timestamps/shape/tether as in `observe`, plus where every frame and colour
    channel of get_image() shows the two spots (brightest first)"""
    nf = int(stack.num_frames)
    shape = tuple(int(x) for x in stack.shape)
    img = np.asarray(stack.get_image())
    if img.size != int(np.prod(shape)):
        return f"undecodable shape={shape} squeezed={tuple(img.shape)}"
    img = img.reshape(shape)
    ends = tether_ends(stack)
    return "B" + json.dumps({
        "expo": show_ranges(stack.frame_timestamp_ranges()), "dead": show_ranges(stack.frame_timestamp_ranges(include_dead_time=True)),
        "start": int(stack.start), "stop": int(stack.stop), "tether": ends, "nf": nf, "shape": list(shape),
        "pre": pre, "post": [cb.locate(spec, img[i]) for i in range(shape[0])],
    }, sort_keys=True)


def impl_beads(spec, prog):
    with warnings.catch_warnings():
        warnings.simplefilter("ignore")
        try:
            stack = bead_stacks().get(spec)
            pre = None
            for st in prog:
                if st[0] == "T" and pre is None:
                    pre = cb.locate(spec, first_frame(stack))  # what the image shows at the moment the points are chosen
                stack, _ = run_prog(stack, [st])
            return observe_beads(spec, stack, pre)
        except Exception as e:
            return err_token(e)


# ---- anchored internals (TiffStack.get_frame, Roi.crop) and the legacy frame-range helper: each observation is made
# through the public API; the internal function itself is ALSO asked while it can be reached (the two answers must be the
# same), and silently left out when a refactoring renamed or moved it


def missing_here(e):
    """an AttributeError raised by an attribute access written in THIS file (not somewhere inside pylake): the harness
    reached for an internal member that is not there (any more)"""
    tb, last = e.__traceback__, None
    while tb is not None:
        tb, last = tb.tb_next, tb
    return isinstance(e, AttributeError) and last is not None and os.path.abspath(last.tb_frame.f_code.co_filename) == os.path.abspath(__file__)


def both(public, direct):
    """one answer from the public route and the direct call of the internal function (UNSEEN = not reachable)"""
    if direct == UNSEEN or direct == public:
        return public
    if public == UNSEEN:
        return direct
    return f"public={public} direct={direct}"


def file_and_page(spec, image):
    """which page of which file an image (with frame axis) shows"""
    dec = bt.decode(spec, image)
    if dec is None:
        return "undecodable"
    g = dec[0][0]
    for fi, n in enumerate(spec["files"]):
        if g < n:
            return f"{fi} {g}"
        g -= n
    return "beyond"


def impl_page(spec, frame):
    """which page of which file does frame `frame` of a multi-file stack show?  Public: stack[frame].get_image();
    direct: the anchored TiffStack.get_frame(frame) behind the stack (private attribute: only while it is there)"""
    with warnings.catch_warnings():
        warnings.simplefilter("ignore")
        try:
            stack, _, _ = stacks().get(spec)
            one = stack[frame]
            public = file_and_page(spec, first_frame(one)[np.newaxis])
            try:
                direct = file_and_page(spec, np.asarray(stack._src.get_frame(frame).data)[np.newaxis])
            except AttributeError as e:
                if not missing_here(e):
                    raise
                direct = UNSEEN
            return both(public, direct)
        except Exception as e:
            return err_token(e)


_PRIVATE = {}


def private(name):
    """an internal helper of pylake, or None when it is not where it used to be (then the public route alone is used)"""
    if name not in _PRIVATE:
        try:
            import importlib

            _PRIVATE[name] = getattr(importlib.import_module("lumicks.pylake.detail.widefield"), name)
        except (ImportError, AttributeError):
            _PRIVATE[name] = None
    return _PRIVATE[name]


def legacy_public(ts):
    """frame ranges of a legacy export (Software 'Pylake v1.3.0', no exposure metadata) whose pages carry the DateTime
    tags `ts` (shifted to a realistic epoch): ImageStack.frame_timestamp_ranges(include_dead_time=True)"""
    import tifffile

    spec = bt.make_spec(files=(len(ts),), h=2, w=2, exposure=None, software="Pylake v1.3.0")
    raw = bt.raw_pages(spec)
    d = tempfile.mkdtemp(prefix="verif_legacy_")
    try:
        path = os.path.join(d, "legacy.tiff")
        with tifffile.TiffWriter(path) as tif:
            for p, (a, b) in enumerate(ts):
                dt = f"{bt.T0 + a}:{bt.T0 + b}"
                tif.write(raw[p], description=json.dumps(bt.description(spec, p), indent=4), software=spec["software"],
                          metadata=None, contiguous=False, photometric="minisblack",
                          extratags=((274, "H", 1, 1, False), (306, "s", len(dt), dt, False)))
        stack = bt.open_stack([path])
        try:
            return [(int(a) - bt.T0, int(b) - bt.T0) for a, b in stack.frame_timestamp_ranges(include_dead_time=True)]
        finally:
            stack.close()
    finally:
        shutil.rmtree(d, ignore_errors=True)


def impl_legacy(ts):
    with warnings.catch_warnings():
        warnings.simplefilter("ignore")
        f = private("_frame_timestamps_from_exposure_timestamps")
        direct = UNSEEN
        if f is not None:
            try:
                direct = show_ranges(f(list(ts)))
            except Exception as e:
                direct = err_token(e)
        public = UNSEEN  # a stack has at least one frame: the empty list exists for the helper only
        if ts:
            try:
                public = show_ranges(legacy_public(ts))
            except Exception as e:
                public = err_token(e)
        return both(public, direct)


def roi_public(roi, crop):
    """Roi(*roi).crop(crop) through the public API: the 4x5 stack cropped to `roi`, then crop_by_pixels(*crop); the
    window is read off the pixel values of get_image()"""
    spec = small_spec(2)
    if not (0 <= roi[0] < roi[1] <= spec["w"] and 0 <= roi[2] < roi[3] <= spec["h"]):
        return UNSEEN
    stack, _, _ = stacks().get(spec)
    if list(roi) != [0, spec["w"], 0, spec["h"]]:
        stack = stack.crop_by_pixels(*roi)
    out = stack.crop_by_pixels(*crop)
    img = np.asarray(out.get_image())
    shape = tuple(int(x) for x in out.shape)
    dec = bt.decode(spec, img.reshape(shape)) if img.size == int(np.prod(shape)) else None
    if dec is None:
        return f"undecodable shape={shape}"
    _, rows, cols = dec
    if not (contiguous(rows) and contiguous(cols)):
        return f"non-contiguous rows={rows} cols={cols}"
    return f"{cols[0]},{cols[-1] + 1},{rows[0]},{rows[-1] + 1}"


def impl_roi(roi, crop):
    """direct call of the anchored Roi.crop while the class can be imported (the stream 'roi-stack' ties the same
    windows through crop_by_pixels + get_image); the public route for every case once it cannot"""
    with warnings.catch_warnings():
        warnings.simplefilter("ignore")
        Roi = private("Roi")
        try:
            if Roi is not None:
                try:
                    r = Roi(*roi).crop(np.array(crop, dtype=object) if None in crop else np.array(crop))
                    return f"{int(r.x_min)},{int(r.x_max)},{int(r.y_min)},{int(r.y_max)}"
                except AttributeError as e:
                    if not missing_here(e):
                        raise
                    _PRIVATE["Roi"] = None  # the class is there, its interface is not: public route from now on
            return roi_public(roi, crop)
        except Exception as e:
            return err_token(e)


def impl(case):
    k = case["op"]
    if k == "beads":
        return [impl_beads(case["spec"], case["prog"])]
    if k == "prog":
        if wants_image(case):
            first = impl_prog(case["spec"], case["prog"])
            # third op (c07.ops: the program through the typed Stack.runOps): frames and ROI of the same observation
            return [first, impl_image(case["spec"], case["prog"]), " ".join(first.split(" ")[:3]) if first.startswith("ok ") else first]
        return [impl_prog(case["spec"], case["prog"])]
    if k == "commute":
        return [impl_prog(case["spec"], case["prog"]), impl_prog(case["spec"], case["prog2"])]
    if k == "indices":
        try:
            s, e, _ = slice(case["a"], case["b"], case["c"]).indices(case["n"])
            return [f"{s} {e}"]
        except Exception as ex:
            return [errname(ex)]
    if k == "page":
        return [impl_page(case["spec"], case["frame"])]
    if k == "legacy":
        return [impl_legacy([tuple(int(v) for v in x) for x in case["ts"]])]
    if k == "roi":
        return [impl_roi(case["roi"], case["crop"])]
    raise ValueError(k)


# ------------------------------------------------------------------ model side


def prog_tokens(prog, spec=None):
    nm = spec.get("pixelsize_nm") if spec else None
    toks = []
    for st in prog:
        k = st[0]
        if k == "s":
            toks.append("s," + ",".join(enc_opt(x) for x in st[1:4]))
        elif k == "i":
            toks.append(f"i,{int(st[1])}")
        elif k == "c":
            toks.append("c," + ",".join(enc_opt(x) for x in st[1:5]))
        elif k == "g":
            toks.append("g" + "".join("," + enc_item(it) for it in st[1:]))
        elif k == "t":
            toks.append(f"t,{enc_bound_model(st[1])},{enc_bound_model(st[2])},{enc_opt(st[3])}")
        elif k == "T":
            if nm is not None:  # pixel-calibrated stack: the points are in um, the model divides by nm / 1000
                toks.append("U," + enc_float(float(nm)) + "," + ",".join(enc_float(x) for x in st[1:5]))
            else:
                toks.append("T," + ",".join(enc_float(x) for x in st[1:5]))
        elif k == "k":
            toks.append(f"k,{int(st[1])}" + (f",{st[2]}" if len(st) > 2 else ""))
        else:
            raise ValueError(k)
    return " ".join(toks)


def run_line(spec, prog):
    table = bt.page_table(spec)
    legacy = "Pylake" in spec["software"] and spec["exposure"] is None
    return (
        f"c07.run {spec['h']} {spec['w']} {enc_list([t[0] for t in table])} {enc_list([t[1] for t in table])} "
        f"{enc_list([t[2] for t in table])} {'T' if legacy else 'F'} {prog_tokens(prog, spec)}"
    ).rstrip()


def land_line(spec, prog):
    """c07.land: the program as for c07.run, plus per colour channel the alignment metadata and the raw bead positions"""
    if cb.aligned(spec):
        mats = "|".join(",".join(enc_float(v) for v in list(m) + list(spec["aoff"])) for m in spec["mats"])
    else:
        mats = "|".join("-" for _ in range(cb.channels(spec)))
    pts = "|".join(";".join(f"{enc_float(x)},{enc_float(y)}" for x, y in ch) for ch in cb.raw_points(spec))
    return "c07.land " + mats + " " + pts + " " + run_line(spec, prog)[len("c07.run "):]


def ops(case):
    k = case["op"]
    if k == "beads":
        return [land_line(case["spec"], case["prog"])]
    if k == "prog":
        if is_kymo(case["prog"]):
            return [kymo_line(case["spec"], case["prog"])]
        if wants_image(case):
            rl = run_line(case["spec"], case["prog"]).split(" ")
            return [" ".join(rl), image_line(case["spec"], case["prog"]), " ".join(["c07.ops"] + rl[1:6] + rl[7:])]
        return [run_line(case["spec"], case["prog"])]
    if k == "commute":
        return [run_line(case["spec"], case["prog"]), run_line(case["spec"], case["prog2"])]
    if k == "indices":
        return [f"c07.indices {enc_opt(case['a'])} {enc_opt(case['b'])} {int(case['c'])} {int(case['n'])}"]
    if k == "page":
        return [f"c07.page {enc_list(case['spec']['files'])} {int(case['frame'])}"]
    if k == "legacy":
        return [f"c07.legacy {enc_list([x[0] for x in case['ts']])} {enc_list([x[1] for x in case['ts']])}"]
    if k == "roi":
        return [f"c07.roi {','.join(str(int(x)) for x in case['roi'])} " + " ".join(enc_opt(x) for x in case["crop"])]
    raise ValueError(k)


def is_kymo(prog):
    return bool(prog) and prog[-1][0] == "k"


def tether_close(a, b):
    if a == "none" or b == "none":
        return a == b
    xa = [dec_float(t) for t in a.split(",")]
    xb = [dec_float(t) for t in b.split(",")]
    return len(xa) == len(xb) and all(abs(p - q) <= 1e-9 * (1 + abs(p) + abs(q)) for p, q in zip(xa, xb))


def parse_kymo(ans):
    toks = ans.split(" ")
    shp = tuple(int(x) for x in toks[1].split("x"))
    chans = [np.array([float(v) for v in part.split(",")]).reshape(shp) for part in toks[2][1:-1].split(";")]
    lt = dec_float(toks[3][3:])
    start = int(toks[4][6:])
    return chans, lt, start


def parse_kymo_times(ans):
    """(exposure ns | None, line period ns | None) as the kymograph's own line ranges report them"""
    toks = ans.split(" ")
    out = []
    for t, key in zip(toks[5:7], ("ex=", "line=")):
        v = t[len(key):]
        out.append(None if v == UNSEEN else int(v))
    return out if len(out) == 2 else [None, None]


def kymo_line(spec, prog):
    """c07.kymo: the program as for c07.run; the model computes the kymograph's pixel values itself from the harness'
    pixel encoding (builders_tiff.pixel_value), one image per stored sample"""
    return f"c07.kymo {bt.n_samples(spec)} " + run_line(spec, prog)[len("c07.run "):]


def sample_channels(spec):
    """which of the kymograph's (red, green, blue) each stored sample shows up in; None = the channel must be empty"""
    if spec["colour"] == "grey":
        return [0, 0, 0]
    if spec["colour"] == "rgb":
        return [0, 1, 2]
    order = [i for i, c in enumerate(("Red", "Green", "Blue")) if c in spec["two_channels"]]
    return [order.index(i) if i in order else None for i in range(3)]


BEAD_TOL = 0.25  # pixels: centroid of an interpolated spot vs. computed position (measured on /repo: < 0.02 over 80000 spots)


def bead_track(spec, prog):
    """From the property text: where the two beads are expected in the image the program ends with.  Crops move them
    by the change of origin (array slicing), frame selections leave them alone, and a tether defined THROUGH the two
    beads puts them on a horizontal line of unchanged length and midpoint.  Returns (positions when the first tether
    is defined, final positions); final positions are None when a tether is defined through other points (then the
    property says nothing about the beads)."""
    pos = [np.array(b, dtype=float) for b in spec["beads"]]
    origin = np.array([0.0, 0.0])
    pre = None
    for k, st in enumerate(prog):
        if st[0] == "T":
            if pre is None:
                pre = [p.copy() for p in pos]
            if pos is None:
                continue
            p, q = np.array(st[1:3], dtype=float), np.array(st[3:5], dtype=float)
            same = all(min(np.abs(b - p).max(), np.abs(b - q).max()) < 1e-6 for b in pos) and np.abs(p - q).max() > 1e-6
            if not same:
                pos = None
                continue
            mid, half = (p + q) / 2, np.array([math.hypot(*(q - p)) / 2, 0.0])
            pos = [mid - half, mid + half]
        else:
            _, rows, cols, _ = simulate(spec, prog[: k + 1])
            new = np.array([float(cols[0]), float(rows[0])])
            if pos is not None:
                pos = [b - (new - origin) for b in pos]
            origin = new
    return pre, pos


def beads_match(found, expected, ordered):
    """found: [[x, y] | None, [x, y] | None] (brightest first), expected: two points (first = the brighter bead)"""
    if found is None or any(f is None for f in found):
        return False
    orders = [expected] if ordered else [expected, expected[::-1]]
    return any(all(max(abs(f[0] - e[0]), abs(f[1] - e[1])) <= BEAD_TOL for f, e in zip(found, o)) for o in orders)


def beads_pre_ok(spec, prog, obs):
    """precondition of the bead observation: when the points were chosen, every colour of the image showed the
    beads at the chosen points"""
    try:
        pre, _ = bead_track(spec, prog)
    except Expect:
        return False
    if pre is None or obs.get("pre") is None:
        return False
    return all(beads_match(ch, pre, True) for ch in obs["pre"])


def agree_beads(case, ia, ma):
    if not ma.startswith("ok "):
        return ia == ma
    if not ia.startswith("B"):
        return False
    o = json.loads(ia[1:])
    mt = ma.split(" ")
    x0, x1, y0, y1 = [int(v) for v in mt[2].split(",")]
    if [o["expo"], o["dead"], str(o["start"]), str(o["stop"])] != mt[3:7]:
        return False
    if o["nf"] != len(json.loads(mt[1])) or o["shape"][:3] != [o["nf"], y1 - y0, x1 - x0]:
        return False
    it = "none" if o["tether"] is None else ",".join(enc_float(v) for v in o["tether"])
    if not tether_close(it, mt[7]):
        return False
    if not beads_pre_ok(case["spec"], case["prog"], o):
        return True  # the spots cannot be followed on this stack: nothing to compare
    if [f"nf={o['nf']}"] + [str(v) for v in o["shape"][:3]] != [mt[8]] + mt[9][len("shape="):].split("x"):
        return False
    land = [[[dec_float(v) for v in pt.split(",")] for pt in ch.split(";")] for ch in mt[-1].split("|")]
    for frame in o["post"]:
        if len(frame) != len(land):
            return False
        for found, exp in zip(frame, land):
            if not beads_match(found, exp, True):
                return False
    return True


def agree_kymo(case, ia, ma):
    """model: `kymo <line time ns> <exposure ns> <start> <image[x][t] per stored sample>`; the pixel values are the model's
    own (window, reduction over the half window, swapped axes), compared exactly"""
    if not ma.startswith("kymo "):
        return ia == ma
    if not ia.startswith("kymo "):
        return False
    chans, lt, start = parse_kymo(ia)
    ex, line = parse_kymo_times(ia)
    mt = ma.split(" ")
    m_lt, m_ex, m_start = int(mt[1]), int(mt[2]), int(mt[3])
    imgs = []
    for part in mt[4].split("|"):
        if not (part.startswith("[") and part.endswith("]")):
            return False
        rows = [[int(v) for v in r.split(",")] if r else [] for r in part[1:-1].split(";")]
        imgs.append(np.array(rows, dtype=float))
    for c, k in enumerate(sample_channels(case["spec"])):
        exp = np.zeros_like(imgs[0]) if k is None else imgs[k]
        if exp.shape != chans[c].shape or not np.array_equal(exp, chans[c]):
            return False
    if start != m_start or abs(lt - m_lt * 1e-9) > 1e-12 * abs(lt):
        return False
    return (ex is None or ex == m_ex) and (line is None or line == m_lt)


def agree(case, i, ia, ma):
    if case["op"] == "beads":
        return agree_beads(case, ia, ma)
    if case["op"] in ("prog", "commute"):
        if case["op"] == "prog" and is_kymo(case["prog"]):
            return agree_kymo(case, ia, ma)
        if case["op"] == "prog" and i >= 1:
            return ia == ma  # c07.image: pixel values (or the error) literally; c07.ops: frames and ROI (or the error)
        if not ma.startswith("ok "):
            return ia == ma
        mt = ma.split(" ")
        if not ia.startswith("ok "):
            return False
        it = ia.split(" ")
        # num_frames and shape (without the colour axis) as the model's Stack.shape
        if it[8] != mt[8] or it[9].split("x")[:3] != mt[9].split("x"):
            return False
        return all(a == UNSEEN or a == b for a, b in zip(it[1:3], mt[1:3])) and it[3:7] == mt[3:7] and tether_close(it[7], mt[7])
    if ia == UNSEEN:
        return True  # an internal helper with no public counterpart for this input could not be reached: nothing to compare
    return ia == ma


# ------------------------------------------------------------------ oracle (plain Python / NumPy from the property text)


class Expect(Exception):
    def __init__(self, token):
        self.token = token


def time_bound_to_index(b, is_start, starts, stops):
    """documented meaning of a time-like bound on the current stack: a frame is selected by `t_a:t_b` when it starts
    at or after t_a and its exposure ends before t_b; strings count from the stack's start (>= 0) or stop (< 0)"""
    if b is None:
        return None
    if isinstance(b, dict):
        t = starts[0] + b["ns"] if b["ns"] >= 0 else stops[-1] + b["ns"]
    else:
        t = b
    if t < FIRST_TS:
        return t
    if is_start:
        return sum(1 for s in starts if s < t)
    return sum(1 for s in stops if s < t)


def simulate(spec, prog):
    """NumPy reference: index arrays of the pages/rows/columns the program should select, or the documented error"""
    table = bt.page_table(spec)
    pages = np.arange(sum(spec["files"]))
    rows = np.arange(spec["h"])
    cols = np.arange(spec["w"])
    geo = {"defined": 0, "len": None, "mid": None, "mid_ok": True}

    def crop(x0, x1, y0, y1):
        nonlocal rows, cols
        r2, c2 = rows[slice(y0, y1)], cols[slice(x0, x1)]
        if len(r2) == 0 or len(c2) == 0:
            raise Expect("ValueError")
        if geo["mid"] is not None:
            cal = float(spec["pixelsize_nm"]) / 1000 if spec.get("pixelsize_nm") else 1.0  # image units per pixel
            geo["mid"] = (geo["mid"][0] - (c2[0] - cols[0]) * cal, geo["mid"][1] - (r2[0] - rows[0]) * cal)
        rows, cols = r2, c2

    def frames(item):
        nonlocal pages
        if isinstance(item, slice):
            if item.step == 0:
                raise Expect("ValueError")
            sel = pages[item]
            if len(sel) == 0:
                raise Expect("NotImplementedError/empty")
            if item.step is not None and item.step < 0:
                raise Expect("NotImplementedError/reverse")
            pages = sel
        else:
            if not -len(pages) <= item < len(pages):
                raise Expect("IndexError")
            pages = pages[[item]]

    for st in prog:
        k = st[0]
        if k == "s":
            frames(slice(st[1], st[2], st[3]))
        elif k == "i":
            frames(st[1])
        elif k == "c":
            crop(st[1], st[2], st[3], st[4])
        elif k == "g":
            items = [mk_item(it) for it in st[1:]]
            if len(items) == 0 or len(items) > 3:
                raise Expect("IndexError")
            sp = []
            for it in items[1:]:
                if isinstance(it, slice):
                    if it.step is not None:
                        raise Expect("IndexError")
                    sp.append((it.start, it.stop))
                else:
                    sp.append((it, it + 1))  # one row/column, kept as an axis of length 1
            while len(sp) < 2:
                sp.append((None, None))
            crop(sp[1][0], sp[1][1], sp[0][0], sp[0][1])
            frames(items[0])
        elif k == "t":
            starts = [table[p][0] for p in pages]
            stops = [table[p][2] for p in pages]
            a = time_bound_to_index(st[1], True, starts, stops)
            b = time_bound_to_index(st[2], False, starts, stops)
            frames(slice(a, b, st[3]))
        elif k == "T":
            p, q = (st[1], st[2]), (st[3], st[4])
            geo["len"] = math.hypot(q[0] - p[0], q[1] - p[1])
            geo["mid_ok"] = geo["defined"] == 0 or geo.get("flat", False)
            geo["mid"] = ((p[0] + q[0]) / 2, (p[1] + q[1]) / 2)
            geo["flat"] = geo["mid_ok"] and p[1] == q[1] and p[0] < q[0]
            geo["defined"] += 1
        elif k == "k":
            raise ValueError("kymo handled by the caller")
    return pages, rows, cols, geo


def legacy_dead_ranges(table, pages):
    """docstring of _frame_timestamps_from_exposure_timestamps: frame i runs to the start of frame i+1, the last one
    is as long as the distance of the last two starts (alone: keeps its DateTime stop)"""
    out = []
    for j, p in enumerate(pages):
        if j + 1 < len(pages):
            out.append((table[p][0], table[pages[j + 1]][0]))
        elif len(pages) >= 2:
            out.append((table[p][0], 2 * table[p][0] - table[pages[j - 1]][0]))
        else:
            out.append((table[p][0], table[p][1]))
    return out


def oracle_prog(spec, prog, ans):
    table = bt.page_table(spec)
    legacy = "Pylake" in spec["software"] and spec["exposure"] is None
    kymo = prog and prog[-1][0] == "k"
    body = prog[:-1] if kymo else prog
    try:
        pages, rows, cols, geo = simulate(spec, body)
    except Expect as e:
        if ans != e.token:
            return f"error-clause: numpy/array semantics give {e.token} for {json.dumps(prog)}, implementation says {ans[:200]}"
        return None
    pages = [int(p) for p in pages]
    if kymo:
        return oracle_kymo(spec, prog, pages, rows, cols, geo, ans)
    if not ans.startswith("ok "):
        return f"selection: array semantics select frames {pages}, implementation says {ans[:200]}"
    t = ans.split(" ")
    exp_roi = f"{cols[0]},{cols[-1] + 1},{rows[0]},{rows[-1] + 1}"
    if t[1] != UNSEEN and t[1] != enc_list(pages):
        return f"frames: implementation shows pages {t[1]}, the same numpy indexing selects {pages}"
    if t[2] != UNSEEN and t[2] != exp_roi:
        return f"roi: implementation shows x0,x1,y0,y1={t[2]}, the same numpy indexing selects {exp_roi}"
    expo = show_ranges([(table[p][0], table[p][2]) for p in pages])
    dead = show_ranges(legacy_dead_ranges(table, pages) if legacy else [(table[p][0], table[p][1]) for p in pages])
    if t[3] != expo:
        return f"timestamps: frame_timestamp_ranges() = {t[3][:200]}, pages {pages} have {expo[:200]}"
    if t[4] != dead:
        return f"timestamps(dead time): {t[4][:200]} vs {dead[:200]}"
    if int(t[5]) != table[pages[0]][0] or int(t[6]) != table[pages[-1]][2]:
        return f"start/stop: {t[5]} {t[6]} vs {table[pages[0]][0]} {table[pages[-1]][2]}"
    nf = int(t[8][3:])
    shape = [int(x) for x in t[9][6:].split("x")]
    exp_shape = [len(pages), len(rows), len(cols)] + ([3] if spec["colour"] != "grey" else [])
    if nf != len(pages) or shape != exp_shape:
        return f"shape: num_frames={nf} shape={shape}, expected {exp_shape}"
    if t[10] not in ("src=image", "src=raw") and not t[10].startswith("src=" + UNSEEN):
        return f"shape: raw data shape differs from stack.shape ({t[10]})"
    if geo["defined"]:
        if geo.get("flat") and t[10] not in ("src=image", f"src={UNSEEN}{enc_list(pages)}/{exp_roi}"):
            return "tether-identity: a horizontal left-to-right tether must leave the pixel values untouched"
        if t[7] == "none":
            return "tether: define_tether was called but the stack has no tether"
        x1, y1, x2, y2 = [dec_float(v) for v in t[7].split(",")]
        scale = 1 + max(abs(v) for v in (x1, y1, x2, y2))
        if abs(y1 - y2) > 1e-9 * scale:
            return f"tether-horizontal: ends {(x1, y1)}, {(x2, y2)} are not on a horizontal line"
        if abs((x2 - x1) - geo["len"]) > 1e-9 * scale:
            return f"tether-length: {x2 - x1} vs chosen distance {geo['len']}"
        if geo["mid_ok"] and (abs((x1 + x2) / 2 - geo["mid"][0]) > 1e-9 * scale or abs((y1 + y2) / 2 - geo["mid"][1]) > 1e-9 * scale):
            return f"tether-midpoint: {((x1 + x2) / 2, (y1 + y2) / 2)} vs chosen midpoint (after cropping) {geo['mid']}"
    elif t[7] != "none":
        return "tether: a tether appeared without define_tether"
    return None


def oracle_image(spec, prog, ans):
    """get_image() of the result is the same NumPy indexing of the full [frame, row, column(, colour)] array"""
    try:
        pages, rows, cols, _ = simulate(spec, prog)
    except Expect as e:
        return None if ans == e.token else f"error-clause: numpy/array semantics give {e.token}, get_image() path says {ans[:100]}"
    full = np.asarray(bt.full_array(spec))
    exp = show_image(spec, full[np.asarray(pages)][:, rows[0] : rows[-1] + 1, cols[0] : cols[-1] + 1])
    return None if ans == exp else f"pixels: get_image() differs from the same numpy indexing of the full array: {ans[:120]} vs {exp[:120]}"


def oracle_kymo(spec, prog, pages, rows, cols, geo, ans):
    """pixel values along the tether row reduced (sum) over the half window, per frame; line time and start from
    the frame timestamps.  Only for horizontal left-to-right tethers (identity warp)."""
    w = prog[-1][1]
    table = bt.page_table(spec)
    if len(pages) < 2:
        return None  # a single frame: outside (undocumented IndexError before anything else is looked at)
    if not geo["defined"]:
        return None if ans == "ValueError" else f"kymo: no tether defined, expected ValueError, got {ans[:100]}"
    if not geo.get("flat"):
        return None  # rotated tether: outside
    if len(pages) >= 2:
        starts = [table[p][0] for p in pages]
        expos = [table[p][2] - table[p][0] for p in pages]
        if len({b - a for a, b in zip(starts, starts[1:])}) > 1 or len(set(expos)) > 1:
            return None if ans == "ValueError" else f"kymo-timing: frame rate or exposure not constant, expected ValueError, got {ans[:100]}"
    mx, my = geo["mid"]
    xa, xb = mx - geo["len"] / 2, mx + geo["len"] / 2
    row = math.floor(my)
    if w < 0 or row - w < 0 or row + w + 1 > len(rows):
        return None if ans == "ValueError" else f"kymo-window: half window {w} leaves the image, expected ValueError, got {ans[:100]}"
    lo, hi = math.floor(xa), math.floor(xb) + 1
    if hi <= 0:
        # no pixel of the tether row lies inside the (cropped) image: nothing "along the tether" can be returned
        return None if ans == "ValueError" else (
            f"kymo-outside: the tether ({xa}..{xb}) lies entirely left of the cropped image, expected ValueError, got {ans[:100]}")
    outside_left = lo < 0
    if lo < 0:
        lo = 0  # the part of the tether row that lies inside the (cropped) image
    if hi > len(cols):
        hi = len(cols)
    if hi - lo < 2 or len(pages) < 2:
        return None
    if outside_left and ans == "ValueError":
        return None  # refusing a tether that leaves the image is acceptable
    if not ans.startswith("kymo "):
        return f"kymo: expected a kymograph of {hi - lo} pixels x {len(pages)} lines, got {ans[:100]}"
    chans, lt, start = parse_kymo(ans)
    full = np.asarray(bt.full_array(spec), dtype=float)
    sub = full[pages][:, rows[row - w] : rows[row + w] + 1, cols[lo] : cols[hi - 1] + 1]
    sub = {"sum": sub.sum, "max": sub.max, "min": sub.min}[prog[-1][2] if len(prog[-1]) > 2 else "sum"](axis=1)
    sub = np.swapaxes(sub, 0, 1)
    if sub.ndim == 2:
        sub = np.repeat(sub[:, :, np.newaxis], 3, axis=2)
    for c in range(3):
        if chans[c].shape != sub[:, :, c].shape or not np.array_equal(chans[c], sub[:, :, c]):
            return f"kymo-pixels: channel {c} differs from the tether-row pixels reduced over +-{w} rows"
    if start != table[pages[0]][0]:
        return f"kymo-start: {start} vs first frame start {table[pages[0]][0]}"
    lt_exp = (table[pages[1]][0] - table[pages[0]][0]) * 1e-9
    if abs(lt - lt_exp) > 1e-12 * lt_exp:
        return f"kymo-line-time: {lt} vs {lt_exp}"
    ex, line = parse_kymo_times(ans)
    ex_exp = table[pages[0]][2] - table[pages[0]][0]
    if ex is not None and ex != ex_exp:
        return f"kymo-exposure: lines are exposed for {ex} ns, the frames for {ex_exp} ns"
    if line is not None and line != table[pages[1]][0] - table[pages[0]][0]:
        return f"kymo-line-time: line ranges with dead time are {line} ns long, the frames start {table[pages[1]][0] - table[pages[0]][0]} ns apart"
    return None


def oracle_beads(spec, prog, ans):
    table = bt.page_table(spec)
    try:
        pages, rows, cols, geo = simulate(spec, prog)
        pre, pos = bead_track(spec, prog)
    except Expect as e:
        if ans != e.token:
            return f"error-clause: numpy/array semantics give {e.token} for {json.dumps(prog)}, implementation says {ans[:200]}"
        return None
    pages = [int(p) for p in pages]
    if not ans.startswith("B"):
        return f"selection: array semantics select frames {pages}, implementation says {ans[:200]}"
    o = json.loads(ans[1:])
    expo = show_ranges([(table[p][0], table[p][2]) for p in pages])
    dead = show_ranges([(table[p][0], table[p][1]) for p in pages])
    if o["expo"] != expo or o["dead"] != dead:
        return f"timestamps: frame_timestamp_ranges() = {o['expo'][:200]} / {o['dead'][:200]}, pages {pages} have {expo[:200]} / {dead[:200]}"
    if o["start"] != table[pages[0]][0] or o["stop"] != table[pages[-1]][2]:
        return f"start/stop: {o['start']} {o['stop']} vs {table[pages[0]][0]} {table[pages[-1]][2]}"
    exp_shape = [len(pages), len(rows), len(cols)] + ([3] if spec["colour"] != "grey" else [])
    if o["nf"] != len(pages) or o["shape"] != exp_shape:
        return f"shape: num_frames={o['nf']} shape={o['shape']}, expected {exp_shape}"
    scale = 1 + max([abs(v) for v in o["tether"] or []] + [0.0])
    if geo["defined"]:
        if o["tether"] is None:
            return "tether: define_tether was called but the stack has no tether"
        x1, y1, x2, y2 = o["tether"]
        if abs(y1 - y2) > 1e-9 * scale:
            return f"tether-horizontal: ends {(x1, y1)}, {(x2, y2)} are not on a horizontal line"
        if abs((x2 - x1) - geo["len"]) > 1e-9 * scale:
            return f"tether-length: {x2 - x1} vs chosen distance {geo['len']}"
    elif o["tether"] is not None:
        return "tether: a tether appeared without define_tether"
    if pos is None or not beads_pre_ok(spec, prog, o):
        return None
    exp = [[float(v) for v in b] for b in pos]
    if o["tether"] is not None:
        # the ends the stack reports are the two chosen points on their horizontal line
        x1, y1, x2, y2 = o["tether"]
        if max(abs(x1 - exp[0][0]), abs(y1 - exp[0][1]), abs(x2 - exp[1][0]), abs(y2 - exp[1][1])) > 1e-6 * scale:
            return f"tether-midpoint: ends {o['tether']} vs the horizontal line of unchanged length and midpoint {exp}"
    for i, frame in enumerate(o["post"]):
        for c, found in enumerate(frame):
            if not beads_match(found, exp, False):
                return (f"tether-pixels: the image content of the two chosen points (beads) is shown at {found} in frame {i}, "
                        f"colour channel {c}, instead of on the horizontal line of unchanged length and midpoint {exp}")
    return None


def oracle(case, ia):
    k = case["op"]
    if k == "beads":
        return oracle_beads(case["spec"], case["prog"], ia[0])
    if k == "prog":
        r = oracle_prog(case["spec"], case["prog"], ia[0])
        if r is None and len(ia) >= 2:
            r = oracle_image(case["spec"], case["prog"], ia[1])
        return r
    if k == "commute":
        for prog, a in ((case["prog"], ia[0]), (case["prog2"], ia[1])):
            r = oracle_prog(case["spec"], prog, a)
            if r:
                return r
        a, b = ia
        if a.startswith("ok ") != b.startswith("ok "):
            return f"commute: one order succeeds, the other raises: {a[:80]} / {b[:80]}"
        if a.startswith("ok ") and a != b:
            return f"commute: crop-then-select and select-then-crop differ: {a[:120]} / {b[:120]}"
        return None
    if k == "indices":
        return None  # CPython is the implementation here (self-test of the model's description of slice.indices)
    if k == "page":
        f = case["frame"]
        for fi, n in enumerate(case["spec"]["files"]):
            if f < n:
                exp = f"{fi} {f}"
                break
            f -= n
        else:
            return None
        return None if ia[0] == exp else f"page-lookup: frame {case['frame']} of files {case['spec']['files']} is {exp}, got {ia[0]}"
    if k == "legacy":
        ts = case["ts"]
        if ia[0] == UNSEEN:
            return None
        if not ts:
            return None if ia[0] == "IndexError" else f"legacy: empty input should raise, got {ia[0]}"
        table = [(a, b, b) for a, b in ts]
        exp = show_ranges(legacy_dead_ranges(table, list(range(len(ts)))))
        return None if ia[0] == exp else f"legacy-ranges: {ia[0]} vs {exp}"
    if k == "roi":
        x0, x1, y0, y1 = case["roi"]
        cols = np.arange(x0, x1)[slice(case["crop"][0], case["crop"][1])]
        rows = np.arange(y0, y1)[slice(case["crop"][2], case["crop"][3])]
        exp = "ValueError" if len(cols) == 0 or len(rows) == 0 else f"{cols[0]},{cols[-1] + 1},{rows[0]},{rows[-1] + 1}"
        return None if ia[0] == exp else f"roi-crop: Roi{tuple(case['roi'])}.crop({case['crop']}) = {ia[0]}, numpy slicing of the window gives {exp}"
    return None


# ------------------------------------------------------------------ bookkeeping


def nontrivial(case, ia):
    k = case["op"]
    if k == "beads":
        if not ia[0].startswith("B"):
            return True
        o = json.loads(ia[0][1:])
        return o["tether"] is not None and beads_pre_ok(case["spec"], case["prog"], o)
    if k in ("prog", "commute"):
        a = ia[0]
        if not a.startswith("ok "):
            return True
        t = a.split(" ")
        spec = case["spec"]
        n = sum(spec["files"])
        return t[7] != "none" or t[1] == UNSEEN or len(json.loads(t[1])) < n or t[2] != f"0,{spec['w']},0,{spec['h']}"
    if k == "roi":
        return ia[0] != ",".join(str(x) for x in case["roi"])
    if k == "page":
        return len(case["spec"]["files"]) > 1
    if k == "legacy":
        return len(case["ts"]) >= 2
    if k == "indices":
        return case["a"] is not None or case["b"] is not None
    return False


def tags(case, r):
    t = {"op": case["op"]}
    if case["op"] == "beads":
        t["kinds"] = "".join(s[0] for s in case["prog"])
        t["aligned"] = cb.aligned(case["spec"])
    if case["op"] == "prog":
        kinds = [s[0] for s in case["prog"]]
        stepped = False
        crop_after_step = False
        for s in case["prog"]:
            if s[0] in ("s", "t") and s[3] not in (None, 1):
                stepped = True
            if s[0] in ("c", "T") and stepped:
                crop_after_step = True
        t["crop_or_tether_after_stepped_slice"] = crop_after_step
        t["kinds"] = "".join(kinds)
        t["kymo_tether_left_end_outside_image"] = kymo_left_outside(case)
        t["kymo_tether_entirely_left_of_image"] = kymo_left_outside(case, whole=True)
    return t


def kymo_left_outside(case, whole=False):
    """to_kymo on a horizontal tether whose left end (whole=True: whose right end, too) has a negative x in the current
    (cropped) image"""
    prog = case["prog"]
    if not prog or prog[-1][0] != "k":
        return False
    try:
        _, _, _, geo = simulate(case["spec"], prog[:-1])
    except Expect:
        return False
    if not (geo["defined"] and geo.get("flat")):
        return False
    if whole:
        return math.floor(geo["mid"][0] + geo["len"] / 2) + 1 <= 0
    return math.floor(geo["mid"][0] - geo["len"] / 2) < 0


def shrink(case):
    k = case["op"]
    if k == "beads":
        prog, spec = case["prog"], case["spec"]
        last_t = max((i for i, st in enumerate(prog) if st[0] == "T"), default=-1)
        for i in range(len(prog) - 1, last_t, -1):  # steps after the last tether can go without touching coordinates
            c = dict(case)
            c["prog"] = prog[:i] + prog[i + 1 :]
            yield c
        for i, st in enumerate(prog[: max(last_t, 0)]):
            if st[0] in ("s", "i"):
                c = dict(case)
                c["prog"] = prog[:i] + prog[i + 1 :]
                yield c
        if spec["files"][0] > 1:
            c = dict(case)
            c["spec"] = dict(spec, files=[1])
            yield c
        if spec["aoff"] != [0, 0]:
            c = dict(case)
            c["spec"] = dict(spec, aoff=[0, 0])
            yield c
        return
    if k in ("prog", "commute") and k == "prog":
        prog = case["prog"]
        for i in range(len(prog)):
            if len(prog) > 1:
                c = dict(case)
                c["prog"] = prog[:i] + prog[i + 1 :]
                yield c
        spec = case["spec"]
        if len(spec["files"]) > 1 or spec["colour"] != "grey" or isinstance(spec["exposure"], list):
            c = dict(case)
            try:
                c["spec"] = bt.make_spec(files=(sum(spec["files"]),), h=spec["h"], w=spec["w"], t0=spec["t0"], period=spec["period"],
                                         frame_len=spec["frame_len"], software=spec["software"],
                                         exposure=None if spec["exposure"] is None else 40_000_000)
                yield c
            except ValueError:
                pass
        if sum(spec["files"]) > 6:
            c = dict(case)
            s2 = dict(spec)
            n = max(6, sum(spec["files"]) // 2)
            s2["files"] = [n]
            if isinstance(s2["exposure"], list):
                s2["exposure"] = s2["exposure"][:n]
            c["spec"] = s2
            yield c


# ------------------------------------------------------------------ generators

SMALL = dict(h=4, w=5)


def small_spec(n, **kw):
    d = dict(files=(n,), **SMALL)
    d.update(kw)
    return bt.make_spec(**d)


def prog_case(stream, spec, prog, **extra):
    c = {"stream": stream, "op": "prog", "spec": spec, "prog": prog}
    c.update(extra)
    return c


def ns_string(rng, ns):
    """a time string with exactly `ns` nanoseconds (sign kept), in one of several spellings"""
    sign = "-" if ns < 0 else ""
    v = abs(ns)
    style = rng.randint(0, 3)
    if style == 0 or v == 0:
        body = f"{v}ns"
    elif style == 1:
        s, rem = divmod(v, 10**9)
        ms, rem = divmod(rem, 10**6)
        us, nsr = divmod(rem, 10**3)
        parts = [f"{q}{u}" for q, u in ((s, "s"), (ms, "ms"), (us, "us"), (nsr, "ns")) if q]
        body = " ".join(parts) if parts else "0ns"
    elif style == 2 and v % 10**6 == 0:
        body = f"{v // 10**6}ms"
    else:
        body = f"{v // 1000}us {v % 1000}ns" if v >= 1000 else f"{v}ns"
    return {"s": sign + body, "ns": int(ns)}


def random_spec(rng, big=False):
    nfiles = rng.choice([1, 1, 2, 3])
    nmax = 60 if big else 12
    files = [rng.randint(1, max(1, nmax // nfiles)) for _ in range(nfiles)]
    n = sum(files)
    colour = rng.choice(["grey", "grey", "rgb", "two"])
    h, w = rng.randint(2, 7), rng.randint(2, 8)
    period = rng.choice([100_000_000, 33_333_333, 1_000_000_000, rng.randint(10**6, 10**9)])
    frame_len = period if rng.chance(0.6) else rng.randint(period // 2, period)
    mode = rng.randint(0, 5)
    software = "Bluelake 2.5.1"
    if mode == 0:
        exposure = None
    elif mode == 1:
        exposure = None
        software = "Pylake v1.3.0"  # legacy export: frame ranges are reconstructed from the starts
    elif mode == 2:
        exposure = [rng.randint(frame_len // 4, frame_len) for _ in range(n)]
    else:
        exposure = rng.randint(max(1, frame_len // 4), frame_len)
    kw = {}
    if colour == "two":
        kw["two_channels"] = rng.choice([("Red", "Green"), ("Red", "Blue"), ("Green", "Blue")])
    if colour == "rgb":
        kw["align"] = rng.chance(0.5)
    spec = bt.make_spec(files=files, h=h, w=w, colour=colour, t0=bt.T0 + rng.randint(0, 10**12), period=period,
                        frame_len=frame_len, exposure=exposure, gap=rng.choice([0, 0, rng.randint(1, 5 * period)]),
                        software=software, **kw)
    if len(spec["files"]) > 1 and rng.chance(0.5):
        order = list(range(len(spec["files"])))
        rng.shuffle(order)
        spec["open_order"] = order
    return spec


def rnd_bound(rng, m, none_p=0.25):
    if rng.chance(none_p):
        return None
    return rng.choice([0, 1, -1, m, m - 1, -m, -m - 1, m + 1, rng.randint(-m - 2, m + 2), rng.randint(0, max(m, 1))])


def rnd_range(rng, m, none_p=0.3):
    """bounds (a, b) of a slice of an axis of length m; 80 %: a non-empty selection, spelled with positive, negative,
    None or beyond-the-end values"""
    if m <= 0 or rng.chance(0.2):
        return rnd_bound(rng, m, none_p), rnd_bound(rng, m, none_p)
    i = rng.randint(0, m - 1)
    j = rng.randint(i + 1, m)

    def enc(v, is_lo):
        if ((is_lo and v == 0) or (not is_lo and v == m)) and rng.chance(none_p * 2):
            return None
        if v < m and rng.chance(0.3):
            return v - m - (rng.randint(0, 2) if v == 0 else 0)
        if not is_lo and v == m and rng.chance(0.3):
            return m + rng.randint(0, 2)
        return v

    return enc(i, True), enc(j, False)


def random_step(rng, spec, state, allow_tether=True):
    """one random operation; `state` tracks the expected size (frames, rows, cols) so that most operations are valid"""
    n, h, w = state["n"], state["h"], state["w"]
    kind = rng.choice(["s", "s", "i", "c", "c", "g", "t", "t"] + (["T"] if allow_tether else []))
    table = bt.page_table(spec)
    if kind == "s":
        a, b = rnd_range(rng, n)
        return ["s", a, b, rng.choice([None, None, 1, 2, 2, 3, rng.randint(1, 5)] + ([-1] if rng.chance(0.3) else []))]
    if kind == "i":
        return ["i", rng.choice([0, -1, n - 1, -n, rng.randint(-n, n - 1), rng.randint(-n, n - 1), rng.choice([n, -n - 1])])]
    if kind == "c":
        x0, x1 = rnd_range(rng, w, 0.35)
        y0, y1 = rnd_range(rng, h, 0.35)
        return ["c", x0, x1, y0, y1]
    if kind == "g":
        items = [rng.choice([[None, None], rng.randint(-n, n - 1), list(rnd_range(rng, n)),
                             list(rnd_range(rng, n)) + [rng.choice([None, 2])]])]
        for dim in (h, w)[: rng.randint(0, 2)]:
            items.append(rng.choice([list(rnd_range(rng, dim)), list(rnd_range(rng, dim)), [None, None], rng.randint(-dim, dim - 1)]))
        return ["g"] + items
    if kind == "t":
        pages = state["pages"]
        starts = [table[p][0] for p in pages]
        stops = [table[p][2] for p in pages]

        j1 = rng.randint(0, len(pages) - 1)
        j2 = rng.randint(j1, len(pages) - 1) if rng.chance(0.85) else rng.randint(0, len(pages) - 1)

        def tb(is_start):
            c = rng.randint(0, 9)
            if c == 0:
                return None
            if c == 1:
                return rnd_bound(rng, n, 0.0)
            base = rng.choice([starts[j1]] * 3 + [stops[j1]]) if is_start else rng.choice([stops[j2]] * 3 + [starts[j2]])
            wig = [0, 1, -1, rng.randint(-spec["period"], spec["period"])]
            t = base + rng.choice(wig + ([-1, -1] if is_start else [1, 1]))
            if c <= 5:
                return int(t)  # absolute timestamp
            rel = t - starts[0] if rng.chance(0.6) else t - stops[-1]
            return ns_string(rng, rel)

        return ["t", tb(True), tb(False), rng.choice([None, None, None, 2])]
    # tether: two points inside the current image, mostly not horizontal
    x1, x2 = rng.uniform(0, w), rng.uniform(0, w)
    y1, y2 = rng.uniform(0, h), rng.uniform(0, h)
    if rng.chance(0.3):
        y2 = y1
        x1, x2 = min(x1, x2), max(x1, x2) + 0.5
    if abs(x1 - x2) + abs(y1 - y2) < 0.5:
        x2 = x1 + 1.0
    return ["T", x1, y1, x2, y2]


def advance(spec, state, step):
    """update the expected state with the NumPy reference; returns False when the step raises"""
    try:
        pages, rows, cols, _ = simulate_from(spec, state, [step])
    except Expect:
        return False
    state.update(pages=[int(p) for p in pages], n=len(pages), h=len(rows), w=len(cols), rows=rows, cols=cols)
    return True


def simulate_from(spec, state, prog):
    # re-run the reference from the start (programs are short)
    full = state["prefix"] + prog
    pages, rows, cols, geo = simulate(spec, full)
    state["prefix"] = full
    return pages, rows, cols, geo


def random_prog(rng, spec, length):
    n = sum(spec["files"])
    state = {"pages": list(range(n)), "n": n, "h": spec["h"], "w": spec["w"], "prefix": []}
    prog = []
    for _ in range(length):
        st = random_step(rng, spec, state)
        prog.append(st)
        if not advance(spec, state, st):
            break
    return prog


def rnd_alignment(rng):
    """three Bluelake-style channel alignment matrices: shifts of several pixels, sometimes with a small rotation and
    scaling; green is usually the reference (identity)"""
    mats = []
    for ch in range(3):
        if (ch == 1 and rng.chance(0.7)) or rng.chance(0.1):
            mats.append([1.0, 0.0, 0.0, 0.0, 1.0, 0.0])
            continue
        phi = math.radians(rng.uniform(-2.0, 2.0)) if rng.chance(0.5) else 0.0
        sc = rng.uniform(0.98, 1.02) if rng.chance(0.5) else 1.0
        tx, ty = rng.uniform(-7.0, 7.0), rng.uniform(-7.0, 7.0)
        if rng.chance(0.3):
            tx, ty = float(round(tx)), float(round(ty))
        mats.append([sc * math.cos(phi), -sc * math.sin(phi), tx, sc * math.sin(phi), sc * math.cos(phi), ty])
    return mats


BEAD_FLAVOURS = ["grey", "rgb-plain", "rgb-aligned", "rgb-aligned", "rgb-aligned", "rgb-unaligned"]


def bead_case(rng, stream, flavour=None, theta=None, pre_crop=None, post=None, subseed=None):
    """a bead stack and a program `[crop/slice]* define_tether(bead 1, bead 2) [crop/slice/re-tether]*` whose beads stay
    clear of every image border (raw, aligned, rotated, cropped) so that their centroids can be measured.  Arguments
    left at None are drawn from `rng`."""
    flavour = flavour or rng.choice(BEAD_FLAVOURS)
    for _ in range(200):
        sigma = rng.choice([1.2, 1.5, 1.8])
        m = cb.win_radius(sigma) + 1
        h, w, n = rng.randint(36, 50), rng.randint(46, 66), rng.randint(1, 4)
        prog = []
        ox = oy = 0
        cw, ch = w, h
        do_pre = rng.chance(0.4) if pre_crop is None else pre_crop
        if do_pre:
            ox, oy = rng.randint(0, 6), rng.randint(0, 5)
            ex, ey = rng.randint(0, 6), rng.randint(0, 5)
            cw, ch = w - ox - ex, h - oy - ey
            x1 = rng.choice([w - ex, -ex if ex else None, w - ex])
            y1 = rng.choice([h - ey, -ey if ey else None, h - ey])
            prog.append(["c", ox, x1, oy, y1] if rng.chance(0.7) else ["g", [None, None], [oy, y1], [ox, x1]])
        if n > 1 and rng.chance(0.3):
            a, b = rnd_range(rng, n)
            prog.append(["s", a, b, rng.choice([None, None, 2])])
        # tether through the beads: centre c, half length hl, angle th in the current (cropped) image
        cx, cy = cw / 2 + rng.uniform(-4, 4), ch / 2 + rng.uniform(-3, 3)
        if rng.chance(0.25):
            cx, cy = float(round(cx * 2) / 2), float(round(cy * 2) / 2)
        rmax = min(cx, cw - 1 - cx, cy, ch - 1 - cy) - m
        hl_min = cb.win_radius(sigma) + 2.0
        if rmax < hl_min:
            continue
        hl = rng.uniform(hl_min, rmax)
        th = theta
        if th is None:
            th = rng.choice([rng.uniform(-180, 180)] * 6 + [0.0, 90.0, -90.0, 180.0, rng.uniform(-8, 8), 180 + rng.uniform(-8, 8)])
        if th == 0.0:
            dx, dy = hl, 0.0  # exactly horizontal, left to right: the rotation is the identity
        else:
            dx, dy = hl * math.cos(math.radians(th)), hl * math.sin(math.radians(th))
        p, q = [cx - dx, cy - dy], [cx + dx, cy + dy]
        prog.append(["T", p[0], p[1], q[0], q[1]])
        hl = math.hypot(q[0] - p[0], q[1] - p[1]) / 2
        ea, eb = [(p[0] + q[0]) / 2 - hl, (p[1] + q[1]) / 2], [(p[0] + q[0]) / 2 + hl, (p[1] + q[1]) / 2]
        kind = post if post is not None else rng.choice(["none", "none", "crop", "crop", "frames", "crop+frames", "retether", "retether+crop"])
        if "retether" in kind:
            ends = [ea, eb] if rng.chance(0.5) else [eb, ea]
            prog.append(["T", ends[0][0], ends[0][1], ends[1][0], ends[1][1]])
        if "crop" in kind:
            x0, x1 = rng.randint(0, max(0, int(math.floor(ea[0] - m)))), rng.randint(min(cw, int(math.ceil(eb[0] + m)) + 1), cw)
            y0, y1 = rng.randint(0, max(0, int(math.floor(ea[1] - m)))), rng.randint(min(ch, int(math.ceil(ea[1] + m)) + 1), ch)
            x1 = rng.choice([x1, x1, x1 - cw if x1 < cw else None])
            y1 = rng.choice([y1, y1, y1 - ch if y1 < ch else None])
            prog.append(["c", x0, x1, y0, y1] if rng.chance(0.6) else ["g", [None, None], [y0, y1], [x0, x1]])
        if "frames" in kind:
            prog.append(rng.choice([["i", rng.randint(-1, 0)], ["s", None, None, 2], ["s", 0, 1, None], ["g", -1]]))
        beads = [[p[0] + ox, p[1] + oy], [q[0] + ox, q[1] + oy]]
        mats, aoff, roi_xy, open_align, colour = None, [0, 0], [0, 0], True, "rgb"
        if flavour == "grey":
            colour = "grey"
        elif flavour in ("rgb-aligned", "rgb-unaligned"):
            mats = rnd_alignment(rng)
            open_align = flavour == "rgb-aligned"
            if rng.chance(0.3):
                aoff = [rng.randint(-10, 10), rng.randint(-10, 10)]
                roi_xy = [rng.randint(max(0, -aoff[0]), 40), rng.randint(max(0, -aoff[1]), 40)]
        try:
            spec = cb.make_bead_spec(h, w, n, colour, beads, sigma, mats=mats, aoff=aoff, roi_xy=roi_xy, open_align=open_align,
                                     period=rng.choice([100_000_000, 40_000_000]), exposure=rng.choice([None, 30_000_000]))
        except ValueError:
            continue
        # the raw beads must be inside the raw page too
        if any(not (m <= x <= w - 1 - m and m <= y <= h - 1 - m) for chn in cb.raw_points(spec) for x, y in chn):
            continue
        try:
            simulate(spec, prog)
        except Expect:
            continue
        c = {"stream": stream, "op": "beads", "spec": spec, "prog": prog, "flavour": flavour}
        if subseed is not None:
            c["subseed"] = subseed
        return c
    raise RuntimeError("bead_case: no admissible geometry found")


def kymo_one_pixel(spec, prog):
    """would `to_kymo` at the end of `prog` cut a window of a single pixel column?  (outside: numpy's squeeze raises an
    AxisError the property says nothing about)"""
    try:
        _, _, cols, geo = simulate(spec, prog[:-1])
    except Expect:
        return False
    if not (geo["defined"] and geo.get("flat")):
        return False
    lo = max(math.floor(geo["mid"][0] - geo["len"] / 2), 0)
    hi = min(math.floor(geo["mid"][0] + geo["len"] / 2) + 1, len(cols))
    return hi - lo == 1


def near(rng, values, lo, hi):
    """one of `values` (boundary candidates) or a uniform draw, kept within [lo, hi]"""
    v = rng.choice(list(values) + [rng.randint(lo, hi)])
    return min(max(v, lo), hi)


def kymo_rows_case(rng, subseed):
    """[frames] [crop] define_tether(horizontal, inside pixels) crop(rows and columns at the edges of the window) to_kymo"""
    colour = rng.choice(["grey", "grey", "rgb", "two"])
    h, w, n = rng.randint(3, 8), rng.randint(4, 9), rng.randint(2, 7)
    spec = bt.make_spec(files=(n,), h=h, w=w, colour=colour, t0=bt.T0, period=rng.choice([100_000_000, 40_000_000]),
                        exposure=rng.choice([None, 30_000_000]))
    prog = []
    if rng.chance(0.3):
        prog.append(rng.choice([["s", None, None, 2], ["s", 1, None, None], ["s", None, -1, None]]))
        if len(range(*slice(*prog[0][1:4]).indices(n))) < 2:
            prog = []
    cw, chh = w, h
    if rng.chance(0.3) and w >= 5 and h >= 4:
        ox, oy = rng.randint(0, 1), rng.randint(0, 1)
        prog.append(["c", ox, None, oy, None])
        cw, chh = w - ox, h - oy
    q = rng.choice([1, 2, 2, 4])
    x1 = rng.randint(0, (cw - 2) * q) / q
    x2 = min(x1 + rng.randint(2 * q, max(2 * q, int((cw - x1) * q) - 1)) / q, cw - 1 / q)
    y = rng.randint(0, chh * q - 1) / q
    hw = rng.choice([0, 0, 1, 1, 2])
    prog.append(["T", float(x1), float(y), float(x2), float(y)])
    row = math.floor(y)
    top = near(rng, [0, row - hw, row - hw + 1, row - hw - 1, row, row + 1], 0, chh - 1)
    bot = near(rng, [chh, row + hw + 1, row + hw, row + hw + 2, row + 1, row], top + 1, chh)
    left = near(rng, [0, 0, 0, math.floor(x1), math.floor(x1) + 1, math.floor(x2), math.floor(x2) + 1], 0, cw - 1)
    right = near(rng, [cw, cw, cw, math.floor(x2) + 1, math.floor(x2)], left + 1, cw)

    def spell(v, size, is_lo):
        if v == (0 if is_lo else size) and rng.chance(0.6):
            return None
        return v - size if v < size and rng.chance(0.25) else v

    crop = [spell(left, cw, True), spell(right, cw, False), spell(top, chh, True), spell(bot, chh, False)]
    prog.append(["c"] + crop if rng.chance(0.7) else ["g", [None, None], crop[2:4], crop[0:2]])
    prog.append(["k", hw] + ([rng.choice(["sum", "max", "min"])] if rng.chance(0.25) else []))
    if kymo_one_pixel(spec, prog):
        return None
    return prog_case("kymo-rows", spec, prog, subseed=subseed)


def load_corpus():
    d = os.path.join(VERIF, "corpus", PROP)
    out = []
    if os.path.isdir(d):
        for f in sorted(os.listdir(d)):
            if f.endswith(".json"):
                c = json.load(open(os.path.join(d, f)))
                c = c.get("case", c)
                c["stream"] = "corpus"
                out.append(c)
    return out


def cases(tier, rng):
    quick = tier == "quick"
    # ---- corpus
    yield from load_corpus()

    # ---- exhaustive small scope: first level
    steps = [None, 1, 2, 3]
    for n in range(1, 7):
        spec = small_spec(n)
        bounds = [None] + list(range(-n - 1, n + 2))
        for a, b in itertools.product(bounds, bounds):
            for c in steps:
                yield prog_case("small-scope", spec, [["s", a, b, c]])
        for i in range(-n - 2, n + 2):
            yield prog_case("small-scope", spec, [["i", i]])
        if n <= 4:
            for a, b in itertools.product(bounds, bounds):
                for c in (-1, -2, 0):
                    yield prog_case("small-scope", spec, [["s", a, b, c]])
    # second level: every distinct (start, stop, step) state on n = 6, every slice / integer of it
    n = 6
    spec = small_spec(n)
    bounds = [None] + list(range(-n - 1, n + 2))
    seen = {}
    for a, b in itertools.product(bounds, bounds):
        for c in steps:
            s0, s1, st = slice(a, b, c).indices(n)
            if s1 > s0 and (s0, s1, st) not in seen:
                seen[(s0, s1, st)] = (a, b, c)
    steps2 = [None, 2] if quick else steps
    for (s0, s1, st), (a, b, c) in sorted(seen.items(), key=lambda kv: kv[0]):
        m = len(range(s0, s1, st))
        b2 = [None] + list(range(-m - 1, m + 2))
        for a2, bb2 in itertools.product(b2, b2):
            for c2 in steps2:
                yield prog_case("small-scope-2", spec, [["s", a, b, c], ["s", a2, bb2, c2]])
        for i in range(-m - 1, m + 1):
            yield prog_case("small-scope-2", spec, [["s", a, b, c], ["i", i]])
        # a spatial crop after each state (F2 class), and a tether
        yield prog_case("small-scope-2", spec, [["s", a, b, c], ["c", 1, 3, None, -1]])
        yield prog_case("small-scope-2", spec, [["s", a, b, c], ["T", 1.0, 1.0, 3.0, 1.0]])
        yield prog_case("small-scope-2", spec, [["s", a, b, c], ["g", [None, None], [1, 3], [None, -1]]])
    # other stack flavours at the first level (multi-file, RGB, two-colour, variable exposure, legacy)
    flavours = [
        bt.make_spec(files=(2, 3, 1), **SMALL),
        # files of unequal length handed over out of chronological order (seeded change C07a-m1)
        dict(bt.make_spec(files=(2, 3, 1), **SMALL), open_order=[2, 0, 1]),
        dict(bt.make_spec(files=(4, 2), **SMALL), open_order=[1, 0]),
        bt.make_spec(files=(6,), colour="rgb", **SMALL),
        bt.make_spec(files=(3, 3), colour="rgb", align=True, **SMALL),
        bt.make_spec(files=(6,), colour="two", **SMALL),
        bt.make_spec(files=(6,), exposure=[10_000_000, 20_000_000, 30_000_000, 40_000_000, 50_000_000, 60_000_000], **SMALL),
        bt.make_spec(files=(6,), exposure=None, frame_len=80_000_000, **SMALL),
        bt.make_spec(files=(4, 2), exposure=None, software="Pylake v1.3.0", frame_len=80_000_000, gap=50_000_000, **SMALL),
    ]
    for spec in flavours:
        for a, b in itertools.product(bounds, bounds):
            for c in ([None, 2] if quick else steps):
                yield prog_case("small-scope-flavours", spec, [["s", a, b, c]])
        for i in range(-8, 8):
            yield prog_case("small-scope-flavours", spec, [["i", i]])

    # ---- ROIs of the 4x5 image
    xb = [None] + list(range(-6, 7))
    yb = [None] + list(range(-5, 6))
    for x0, x1 in itertools.product(xb, xb):
        for y0, y1 in itertools.product(yb, yb):
            yield {"stream": "roi-exhaustive", "op": "roi", "roi": [0, 5, 0, 4], "crop": [x0, x1, y0, y1]}
    # re-crop of an already cropped window (offsets matter)
    xb2 = [None] + list(range(-4, 5))
    yb2 = [None] + list(range(-3, 4))
    for x0, x1 in itertools.product(xb2, xb2):
        for y0, y1 in itertools.product(yb2, yb2):
            yield {"stream": "roi-exhaustive", "op": "roi", "roi": [1, 4, 1, 3], "crop": [x0, x1, y0, y1]}
    spec1 = small_spec(2)
    if quick:
        for x0, x1 in itertools.product(xb, xb):
            yield prog_case("roi-stack", spec1, [["c", x0, x1, None, None]])
            yield prog_case("roi-stack", spec1, [["c", 1, 4, 1, 3], ["c", x0, x1, 0, 1]])
        for y0, y1 in itertools.product(yb, yb):
            yield prog_case("roi-stack", spec1, [["c", None, None, y0, y1]])
            yield prog_case("roi-stack", spec1, [["g", [None, None], [y0, y1]]])
            yield prog_case("roi-stack", spec1, [["g", 1, [1, 3], [y0, y1]]])
    else:
        for x0, x1 in itertools.product(xb, xb):
            for y0, y1 in itertools.product(yb, yb):
                yield prog_case("roi-stack", spec1, [["c", x0, x1, y0, y1]])
        for x0, x1 in itertools.product(xb2, xb2):
            for y0, y1 in itertools.product(yb2, yb2):
                yield prog_case("roi-stack", spec1, [["c", 1, 4, 1, 3], ["c", x0, x1, y0, y1]])
                yield prog_case("roi-stack", spec1, [["g", [None, None], [y0, y1], [x0, x1]]])
    # tuple indices with integers in the spatial positions
    for r in list(range(-5, 5)):
        for c in list(range(-6, 6)):
            yield prog_case("roi-stack", spec1, [["g", [None, None], r, c]])
            yield prog_case("roi-stack", spec1, [["g", 0, r, [None, c]]])

    # ---- self-tests / small ops
    for n in range(0, 5):
        vals = [None] + list(range(-n - 2, n + 3))
        for a, b in itertools.product(vals, vals):
            for c in (-3, -2, -1, 0, 1, 2, 3):
                yield {"stream": "py-selftest", "op": "indices", "a": a, "b": b, "c": c, "n": n}
    for files in itertools.chain(itertools.product([1, 2, 3], repeat=1), itertools.product([1, 2, 3], repeat=2), itertools.product([1, 2, 3], repeat=3)):
        spec = bt.make_spec(files=files, h=2, w=2)
        for f in range(sum(files)):
            yield {"stream": "pages", "op": "page", "spec": spec, "frame": f}
    for k in range(0, 5):
        for starts in itertools.combinations([10, 20, 35, 60, 61], k):
            yield {"stream": "legacy", "op": "legacy", "ts": [[s, s + 8] for s in starts]}

    # ---- malformed stream
    spec = small_spec(6)
    mal = [
        [["s", None, None, 0]], [["s", 1, 4, 0]], [["g", [None, None], [None, None], [None, None], [None, None]]],
        [["g", [None, None], [0, 4, 2]]], [["g", [None, None], [None, None], [0, 4, 1]]], [["g"]],
        [["c", 3, 1, None, None]], [["c", None, None, 2, 2]], [["c", 5, None, None, None]], [["c", None, 0, None, None]],
        [["i", 6]], [["i", -7]], [["s", 6, None, None]], [["s", None, 0, None]], [["s", 4, 2, None]], [["s", 2, 4, -1]],
        [["s", 4, 2, -1]], [["s", None, None, -1]], [["g", 7]], [["g", [3, 3]]], [["g", [None, None], -1]],
        [["g", [None, None], [None, None], -1]], [["g", 0, 4]], [["g", 0, 0, 5]], [["c", -9, -8, None, None]],
        [["s", None, None, 2], ["s", 3, None, None]], [["s", None, None, 2], ["i", 3]], [["s", None, None, 2], ["i", -4]],
        [["k", 0]], [["T", 1.0, 1.0, 3.0, 1.0], ["k", 5]], [["T", 1.0, 1.0, 3.0, 1.0], ["k", -1]],
        [["T", 1.0, 0.0, 3.0, 0.0], ["k", 1]], [["T", 1.0, 3.0, 3.0, 3.0], ["k", 1]],
    ]
    for p in mal:
        yield prog_case("malformed", spec, p)

    # ---- seeded random programs
    N = 1200 if quick else 16000
    r = rng.fork("c07-programs")
    for i in range(N):
        sub = r.fork(i)
        spec = random_spec(sub, big=sub.chance(0.2))
        prog = random_prog(sub, spec, sub.randint(1, 4))
        yield prog_case("random-programs", spec, prog, subseed=i)

    # ---- commuted pairs: crop then select  vs  select then crop
    M = 300 if quick else 4000
    r = rng.fork("c07-commute")
    for i in range(M):
        sub = r.fork(i)
        spec = random_spec(sub)
        n, h, w = sum(spec["files"]), spec["h"], spec["w"]
        pre = [["s", None, None, sub.choice([1, 2, 3])]] if sub.chance(0.5) else []
        m = len(range(0, n, pre[0][3])) if pre else n
        sel = sub.choice([["s", *rnd_range(sub, m), sub.choice([None, 1, 2, 3])], ["s", *rnd_range(sub, m), sub.choice([None, 1, 2, 3])],
                          ["i", sub.randint(-m, m - 1) if sub.chance(0.9) else sub.choice([m, -m - 1])]])
        crop = ["c", *rnd_range(sub, w, 0.35), *rnd_range(sub, h, 0.35)]
        yield {"stream": "commute", "op": "commute", "spec": spec, "prog": pre + [crop, sel], "prog2": pre + [sel, crop], "subseed": i}

    # ---- time-like bounds, exhaustive small scope: 4 frames (and the stepped stack [::2] of 6), every pair of bounds among
    # None and start/exposure-stop of every visible frame -1/0/+1 ns, as absolute timestamps and as time strings counted
    # from the start (>= 0) and from the stop (< 0) of the current stack
    # (round H) a stack that starts exactly at the first instant pylake reads as a timestamp (2014-01-01; smaller integers are
    # frame indices): the bounds FIRST_TS - 1 / FIRST_TS / FIRST_TS + 1 are the two sides of that decision
    tvariants = ((small_spec(4), []), (small_spec(6), [["s", None, None, 2]]), (small_spec(2, t0=FIRST_TS), []), (small_spec(6), [["s", 1, 5, None]]))
    for tspec, pre in (tvariants[:3] if quick else tvariants):
        table = bt.page_table(tspec)
        vis = list(range(sum(tspec["files"])))[slice(*pre[0][1:4])] if pre else list(range(sum(tspec["files"])))
        # a frame is selected when a <= start and exposure stop < b: 0 / +1 ns are the two sides of either comparison
        marks = sorted({table[p][k] + d for p in vis for k in (0, 2) for d in ((0, 1) if quick and tspec["t0"] != FIRST_TS else (-1, 0, 1))})
        first, last = table[vis[0]][0], table[vis[-1]][2]
        absb = [None] + marks
        for a, b in itertools.product(absb, absb):
            yield prog_case("time-exhaustive", tspec, pre + [["t", a, b, None]])
        strb = [None] + [{"s": f"{m - first}ns", "ns": m - first} for m in marks if m - first >= 0] + \
               [{"s": f"-{last - m}ns", "ns": m - last} for m in marks if m - last < 0]
        for a, b in itertools.product(strb, strb):
            if isinstance(a, dict) or isinstance(b, dict):
                yield prog_case("time-exhaustive", tspec, pre + [["t", a, b, 2 if (a is None or b is None) else None]])

    # ---- pixel-calibrated stacks: define_tether takes the points in um (divided by nm/1000 by the code), plot_tether
    # reports the ends in um; crops / frame selections before and after, re-tethering
    KC = 120 if quick else 1500
    r = rng.fork("c07-calibrated")
    for i in range(KC):
        sub = r.fork(i)
        nm = sub.choice([100.0, 72.5, 333.3, 1000.0, 64.0])
        h, w, n = sub.randint(3, 7), sub.randint(4, 9), sub.randint(1, 6)
        spec = bt.make_spec(files=(n,), h=h, w=w, colour=sub.choice(["grey", "grey", "rgb"]), pixelsize_nm=nm)
        cal = nm / 1000
        prog = []
        cw, chh = w, h
        if sub.chance(0.4):
            prog.append(["s", sub.choice([None, 0, 1]), None, sub.choice([None, 2])])
            if len(range(*slice(prog[0][1], None, prog[0][3]).indices(n))) < 1:
                prog = []
        if sub.chance(0.4) and w >= 5 and h >= 4:
            ox, oy = sub.randint(0, 1), sub.randint(0, 1)
            prog.append(["c", ox, None, oy, None])
            cw, chh = w - ox, h - oy
        x1, x2 = sub.uniform(0, cw) * cal, sub.uniform(0, cw) * cal
        y1, y2 = sub.uniform(0, chh) * cal, sub.uniform(0, chh) * cal
        if sub.chance(0.3):
            y2 = y1
            x1, x2 = min(x1, x2), max(x1, x2) + 0.5 * cal
        if abs(x1 - x2) + abs(y1 - y2) < 0.5 * cal:
            x2 = x1 + cal
        prog.append(["T", x1, y1, x2, y2])
        if sub.chance(0.4) and cw >= 4 and chh >= 3:
            prog.append(["c", sub.choice([None, 1]), sub.choice([None, cw - 1]), sub.choice([None, 1]), None])
        if sub.chance(0.2):
            prog.append(["T", sub.uniform(0, 2) * cal, sub.uniform(0, 2) * cal, sub.uniform(2.5, 3.5) * cal, sub.uniform(0, 2) * cal])
        yield prog_case("calibrated", spec, prog, subseed=i)

    # ---- to_kymo, exhaustive small scope: 3 frames of 4x5 pixels, every integer tether row / pair of end columns, every
    # half window in -1..2, a crop cutting 0..4 columns off the left AFTER the tether (left end outside: F20; both ends
    # outside: F20b), a stepped frame selection before; stacks whose timing must be refused
    kspec = small_spec(3)
    for x1 in range(0, 5):
        for x2 in range(x1 + 1, 5):
            for y in range(0, 4):
                for hw in (-1, 0, 1, 2):
                    for cut in (None, 1, 2, 3, 4):
                        c = cut or 0
                        if min(x2 - c + 1, 5 - c) - max(x1 - c, 0) == 1:
                            continue  # a 1-pixel kymograph: outside (AxisError of numpy's squeeze)
                        prog = [["T", float(x1), float(y), float(x2), float(y)]]
                        if cut is not None:
                            prog.append(["c", cut, None, None, None])
                        yield prog_case("kymo-exhaustive", kspec, prog + [["k", hw]])
                        if hw > 0 and cut in (None, 2) and y in (1, 2):
                            for red in ("max", "min"):
                                yield prog_case("kymo-exhaustive", kspec, prog + [["k", hw, red]])
    for spec in (
        bt.make_spec(files=(6,), exposure=[10_000_000, 20_000_000, 30_000_000, 40_000_000, 50_000_000, 60_000_000], **SMALL),
        bt.make_spec(files=(6,), exposure=[10_000_000, 10_000_000, 10_000_000, 10_000_000, 30_000_000, 10_000_000], **SMALL),
        bt.make_spec(files=(2, 3, 1), gap=50_000_000, **SMALL),
        bt.make_spec(files=(6,), colour="rgb", **SMALL),
        bt.make_spec(files=(6,), colour="two", **SMALL),
        bt.make_spec(files=(6,), exposure=None, frame_len=80_000_000, **SMALL),
    ):
        for pre in ([], [["s", None, 4, None]], [["s", None, None, 2]], [["s", 1, 3, None]], [["s", 2, None, 3]], [["i", 1]],
                    [["c", 1, None, 1, None]]):
            for hw in (0, 1):
                yield prog_case("kymo-exhaustive", spec, pre + [["T", 1.0, 1.0, 3.0, 1.0], ["k", hw]])
            yield prog_case("kymo-exhaustive", spec, pre + [["k", 0]])

    # ---- to_kymo after cropping ROWS and columns away around a tether given INSIDE pixels (round H; seeded change C07g-m3:
    # `int(x)` for `floor(x)` differs exactly where a later crop leaves the tether at a coordinate in (-1, 0)).  Exhaustive on
    # 3 frames of 4x5: tether row y in steps of half a pixel (and two quarter positions), three pairs of end columns (integer
    # and inside pixels), half windows 0/1, every crop of the rows [top:bottom] after the tether (the tether row kept, first /
    # last row of the window kept or cut, the whole tether row cut away above or below), columns cut off the left so that an
    # end comes to lie in (-1, 0)
    for y4 in (0, 2, 3, 4, 6, 8, 10, 11, 12, 14):
        y = y4 / 4
        for xa, xb in ((1.0, 3.0), (0.5, 3.5), (1.5, 4.5), (0.25, 1.75)):
            for hw in (0, 1):
                crops = [["c", None, None, top, bot] for top in (None, 1, 2, 3) for bot in (None, 1, 2, 3, -1) if (top or 0) < (4 + bot if (bot or 0) < 0 else (bot or 4))]
                crops += [["c", cut, None, None, None] for cut in (1, 2, 3, 4)] + [["c", 1, None, 1, -1], ["g", [None, None], [2, None], [2, None]]]
                for crop in crops:
                    prog = [["T", xa, y, xb, y], crop, ["k", hw]]
                    if not kymo_one_pixel(kspec, prog):
                        yield prog_case("kymo-rows", kspec, prog)
    # the same class at random: larger stacks and colours, crop before the tether, frame selections, crop bounds drawn at the
    # edges of the reduced window (tether row -/+ half window, one more, one less), spelled with None / negative bounds
    KR = 250 if quick else 2500
    r = rng.fork("c07-kymo-rows")
    for i in range(KR):
        sub = r.fork(i)
        for _ in range(20):
            case = kymo_rows_case(sub, i)
            if case is not None:
                yield case
                break

    # ---- horizontal tethers and kymographs
    K = 200 if quick else 2000
    r = rng.fork("c07-kymo")
    for i in range(K):
        sub = r.fork(i)
        colour = sub.choice(["grey", "grey", "rgb", "two"])
        h, w = sub.randint(3, 7), sub.randint(4, 9)
        n = sub.randint(2, 8)
        spec = bt.make_spec(files=(n,), h=h, w=w, colour=colour, t0=bt.T0, period=sub.choice([100_000_000, 40_000_000]),
                            exposure=sub.choice([None, 30_000_000]))
        prog = []
        if sub.chance(0.4):
            prog.append(["s", sub.choice([None, 0, 1]), None, sub.choice([None, 2])])
            if len(range(*slice(prog[0][1], None, prog[0][3]).indices(n))) < 2:
                prog = []
        cw, chh, ox, oy = w, h, 0, 0
        if sub.chance(0.4) and w >= 5 and h >= 4:
            ox, oy = sub.randint(0, 1), sub.randint(0, 1)
            prog.append(["c", ox, None, oy, None])
            cw, chh = w - ox, h - oy
        q = sub.choice([1, 2, 4])
        x1 = sub.randint(0, (cw - 2) * q) / q
        x2 = x1 + sub.randint(2 * q, max(2 * q, int((cw - x1) * q) - 1)) / q
        y = sub.randint(0, chh * q - 1) / q
        prog.append(["T", float(x1), float(y), float(min(x2, cw - 1 / q)), float(y)])
        if sub.chance(0.3) and chh >= 3:
            # crop after the tether (keeps the left end inside)
            prog.append(["c", None, sub.choice([None, cw - 1]) if cw - 1 > x1 + 2 else None, None, None])
        prog.append(["k", sub.choice([0, 0, 1, 1, 2])])
        if sub.chance(0.25):
            prog[-1].append(sub.choice(["sum", "max", "min"]))
        yield prog_case("kymo", spec, prog, subseed=i)
    # ---- where the pixels go: stacks showing two beads, tether through the beads at any angle (interpolated pixel
    # values), every colour channel, non-identity colour alignment, crops and frame selections before and after
    r = rng.fork("c07-beads-grid")
    for flavour in ("grey", "rgb-plain", "rgb-aligned", "rgb-unaligned"):
        for theta in (0.0, 30.0, 90.0, -135.0, 180.0):
            for pre_crop, post in ((False, "none"), (True, "none"), (False, "crop"), (True, "crop+frames")) if quick else \
                    ((False, "none"), (True, "none"), (False, "crop"), (True, "crop+frames"), (False, "retether"), (True, "retether+crop"), (False, "frames")):
                yield bead_case(r.fork(f"{flavour}{theta}{pre_crop}{post}"), "beads-grid", flavour, theta, pre_crop, post)
    KB = 150 if quick else 2500
    r = rng.fork("c07-beads")
    for i in range(KB):
        yield bead_case(r.fork(i), "beads", subseed=i)
    # tether whose left end is cut off by a later crop (finding F20: the negative x wraps around in Roi.crop)
    K2 = 40 if quick else 400
    r = rng.fork("c07-kymo-outside")
    for i in range(K2):
        sub = r.fork(i)
        h, w = sub.randint(3, 6), sub.randint(7, 10)
        spec = bt.make_spec(files=(sub.randint(2, 5),), h=h, w=w, colour=sub.choice(["grey", "rgb"]), t0=bt.T0)
        x1 = sub.randint(0, 1)
        x2 = sub.randint(w - 2, w - 1)
        y = sub.randint(0, h - 1)
        cut = sub.randint(x1 + 1, x2 - 2)
        if sub.chance(0.15):  # both ends cut off (F20b)
            x2 = sub.randint(x1 + 1, w - 4)
            cut = sub.randint(x2 + 1, w - 2)
        prog = [["T", float(x1), float(y), float(x2), float(y)], ["c", cut, None, None, None], ["k", sub.choice([0, 0, 1])]]
        yield prog_case("kymo-outside", spec, prog, subseed=i)


def extra_coverage(results):
    kinds, errs, sizes, colours, files, lens, beads = {}, {}, {}, {}, {}, {}, {}
    for r in results:
        c = r["case"]
        kinds[c["op"]] = kinds.get(c["op"], 0) + 1
        for a in r["impl"]:
            if not a.startswith(("ok ", "kymo ")) and not a[:1].isdigit() and c["op"] in ("prog", "commute", "roi"):
                key = a.split(":")[0]
                errs[key] = errs.get(key, 0) + 1
        if c["op"] == "beads":
            a = r["impl"][0]
            key = c.get("flavour", "?")
            if a.startswith("B"):
                o = json.loads(a[1:])
                key += "" if beads_pre_ok(c["spec"], c["prog"], o) else " (beads not visible at the chosen points: not followed)"
            else:
                key += " (raised)"
            beads[key] = beads.get(key, 0) + 1
        if c["op"] in ("prog", "commute"):
            s = c["spec"]
            n = sum(s["files"])
            b = "n<=6" if n <= 6 else ("n<=20" if n <= 20 else "n<=60")
            sizes[b] = sizes.get(b, 0) + 1
            colours[s["colour"]] = colours.get(s["colour"], 0) + 1
            files[len(s["files"])] = files.get(len(s["files"]), 0) + 1
            for st in c["prog"]:
                lens[st[0]] = lens.get(st[0], 0) + 1
    image_cases, kymo_branches = {}, {}
    for r in results:
        c = r["case"]
        if c["op"] == "prog" and len(r["impl"]) >= 2:
            key = c["stream"] + (" (pixels)" if r["impl"][1].startswith("image ") else " (raises)")
            image_cases[key] = image_cases.get(key, 0) + 1
        if c["op"] == "prog" and is_kymo(c["prog"]):
            a = r["impl"][0]
            if a.startswith("kymo "):
                hw = c["prog"][-1][1]
                red = c["prog"][-1][2] if len(c["prog"][-1]) > 2 else "sum (default)"
                key = "kymograph, half window " + ("0 (single row, no reduction)" if hw == 0 else f"> 0 (rows reduced with {red})")
                if kymo_left_outside(c):
                    key += ", left tether end outside the image (clamped)"
                if kymo_left_outside(c, whole=True):
                    key += " - F20b"
            else:
                key = "refused: " + a.split(":")[0]
            kymo_branches[key] = kymo_branches.get(key, 0) + 1
    time_branches, calibrated = {}, {}
    for r in results:
        c = r["case"]
        if c["op"] == "prog" and c["stream"] == "time-exhaustive":
            a = r["impl"][0]
            st = c["prog"][-1]
            kind = "/".join("None" if b is None else ("string" if isinstance(b, dict) else "timestamp") for b in st[1:3])
            if a.startswith("ok "):
                n_sel = len(json.loads(a.split(" ")[1]))
                n_before = len(range(*slice(*c["prog"][0][1:4]).indices(sum(c["spec"]["files"])))) if len(c["prog"]) > 1 else sum(c["spec"]["files"])
                key = kind + (": all frames" if n_sel == n_before else ": proper subset")
            else:
                key = kind + ": " + a.split(":")[0]
            time_branches[key] = time_branches.get(key, 0) + 1
        if c["op"] == "prog" and c["stream"] == "calibrated":
            kinds = "".join(st[0] for st in c["prog"])
            key = ("re-tethered" if kinds.count("T") > 1 else "tether") + (", cropped afterwards" if "c" in kinds.split("T", 1)[1] else "")
            calibrated[key] = calibrated.get(key, 0) + 1
    unseen = sum(1 for r in results for a in r["impl"] if a == UNSEEN or f" {UNSEEN} " in a or "src=" + UNSEEN in a)
    return {
        "internal_helpers_reached": {k: v is not None for k, v in sorted(_PRIVATE.items())},
        "answers_with_unobserved_internals": unseen,
        "case_kinds": kinds, "error_kinds": errs, "stack_sizes": sizes, "colour_formats": colours, "files_per_stack": files,
        "operations_by_kind": lens, "get_image_pixel_comparisons": image_cases, "to_kymo_branches": kymo_branches,
        "time_bound_branches": time_branches, "calibrated_tether_cases": calibrated, "bead_cases_followed": beads, "exhaustive": False,
        "exhaustive_note": "small-scope, roi-exhaustive, py-selftest, pages, legacy, time-exhaustive, kymo-exhaustive streams "
                           "enumerate their finite spaces completely; random-programs, commute, kymo, calibrated, beads "
                           "streams are seeded samples",
    }
