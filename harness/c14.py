"""C14 — fits honour bounds, fixing and sharing (and, as EXPLORATION, recover generating parameters):
correspondence + oracle (see DESIGN.md 6/C14).

A case is a script of user actions on a real `FdFit`: add a dataset to a model (with renamings / numeric overrides),
set value / bounds / fixed flag of a global parameter, fit, query (parameter table + the local parameter vector
every dataset sees, by the index route `Condition.get_local_params` and by the name route `FitData.get_params`),
and a Jacobian-row probe.  `scipy.optimize.least_squares` is recorded, not modelled: the Lean model receives what the
optimiser answered (it is a parameter of the model, assumed only to answer a point of its box; the harness asserts
that contract on every call)."""
import json
import math
from fractions import Fraction

import numpy as np

from common import enc_bool, enc_rat, errname

PROP = "C14"
THEOREMS = [
]
RULE = ""
TRUSTED = []
ASSUMPTIONS = []

# ------------------------------------------------------------------ encoders


def showstr(s):
    return "s" + ".".join(str(ord(c)) for c in s)


def unshowstr(t):
    body = t[1:]
    return "" if body == "" else "".join(chr(int(p)) for p in body.split("."))


def optrat(v):
    v = float(v) if not isinstance(v, (int, Fraction)) else v
    if isinstance(v, float) and math.isinf(v):
        return "N"
    return enc_rat(v)


def ratlist(xs):
    return "[" + ",".join(enc_rat(x) for x in xs) + "]"


def optratlist(xs):
    return "[" + ",".join(optrat(x) for x in xs) + "]"


def boollist(xs):
    return "[" + ",".join(enc_bool(x) for x in xs) + "]"


# ------------------------------------------------------------------ building implementation objects

BUILTIN = {}


def make_model(spec):
    """toy polynomial models y = sum_k arg_k x^k (own function objects: the Model class is what is exercised), or a
    built-in model of lumicks.pylake (optionally a sum of several / with an independent offset)"""
    import lumicks.pylake as lk
    from lumicks.pylake.fitting.model import Model
    from lumicks.pylake.fitting.parameters import Parameter

    if spec["kind"] == "poly":
        args = spec["args"]
        sig = ", ".join(args)
        f = eval(f"lambda x, {sig}: " + " + ".join(f"{a} * x**{k}" for k, a in enumerate(args)), {})
        jac = None
        if spec.get("jac", True):
            jac = eval(f"lambda x, {sig}: np.vstack([x**k for k in range({len(args)})])", {"np": np})
        dfl = {}
        for a, d in spec.get("defaults", {}).items():
            v, lo, hi, fx = d
            dfl[a] = Parameter(
                value=v,
                lower_bound=-np.inf if lo is None else lo,
                upper_bound=np.inf if hi is None else hi,
                fixed=fx,
                shared=a in spec.get("shared", []),
            )
        return Model(spec["name"], f, jacobian=jac, **dfl)
    if spec["kind"] == "builtin":
        m = getattr(lk, spec["ctor"])(spec["name"])
        for extra in spec.get("plus", []):
            m = m + getattr(lk, extra["ctor"])(extra["name"])
        if spec.get("offset"):
            m = m.subtract_independent_offset()
        if spec.get("invert"):
            m = m.invert()
        return m
    raise ValueError(spec["kind"])


def model_param_names(spec):
    """independent reading of the naming rule (property text / docs): '<model>/<arg>', shared parameters unprefixed"""
    if spec["kind"] == "poly":
        return [a if a in spec.get("shared", []) and a in spec.get("defaults", {}) else f"{spec['name']}/{a}" for a in spec["args"]]
    return None


class Recorder:
    """records scipy.optimize.least_squares (the optimiser is a parameter of the model, not modelled)"""

    def __init__(self):
        self.calls = []

    def __enter__(self):
        import scipy.optimize

        self.mod = scipy.optimize
        self.orig = scipy.optimize.least_squares
        rec = self

        def wrapper(fun, x0, *a, **kw):
            entry = {"x0": [float(v) for v in np.asarray(x0, dtype=float)]}
            b = kw.get("bounds")
            if b is not None:
                entry["lb"] = [float(v) for v in np.asarray(b[0], dtype=float)]
                entry["ub"] = [float(v) for v in np.asarray(b[1], dtype=float)]
            rec.calls.append(entry)
            try:
                r = rec.orig(fun, x0, *a, **kw)
            except Exception as e:
                entry["err"] = errname(e)
                raise
            entry["x"] = [float(v) for v in r.x]
            entry["cost"] = float(r.cost)
            entry["nfev"] = int(r.nfev)
            return r

        scipy.optimize.least_squares = wrapper
        return self

    def __exit__(self, *a):
        self.mod.least_squares = self.orig
        return False


def observe(fit, models):
    P = fit.params
    items = list(P.items())
    T = "T[" + ",".join(
        f"{showstr(k)}:{enc_rat(p.value)}:{optrat(p.lower_bound)}:{optrat(p.upper_bound)}:{enc_bool(bool(p.fixed))}" for k, p in items
    ) + "]"
    vals = P.values
    per = []
    for m in models:
        ds = fit[m]
        byidx = {}
        for cond, dl in ds.conditions():
            v = cond.get_local_params(vals)
            for d in dl:
                byidx[d.name] = v
        parts = []
        for name, d in ds.data.items():
            a = ratlist(byidx[name]) if name in byidx else "missing"
            try:
                lp = d.get_params(P)
                b = ratlist([p.value for _, p in lp.items()])
            except IndexError:
                b = "[IndexError]"
            parts.append(f"{showstr(name)}={a}={b}")
        per.append("{" + " ".join(parts) + "}")
    return T + " L" + "".join(per)


def jac_probe(fit, models, mi, name, sens_x):
    """first row of dataset `name` in the model's block of the global Jacobian"""
    m = models[mi]
    ds = fit[m]
    P = fit.params
    J = m._calculate_jacobian(ds, P.values)
    row = 0
    for cond, dl in ds.conditions():
        for d in dl:
            if d.name == name:
                if len(d.x) == 0:
                    return "J:missing"
                return "J" + ratlist(J[row, :])
            row += len(d.x)
    return "J:missing"


_CACHE = {}


def _key(case):
    return json.dumps(case, sort_keys=True, default=str)


def run_script(case):
    import lumicks.pylake as lk

    models = [make_model(s) for s in case["models"]]
    fit = lk.FdFit(*models)
    obs = []
    fits = []
    mtab = [[(k, None if p is None else (p.value, p.lower_bound, p.upper_bound, bool(p.fixed))) for k, p in m._params.items()] for m in models]
    for act in case["actions"]:
        a = act["a"]
        if a == "add":
            m = models[act["mi"]]
            x = np.array(act["x"], dtype=float)
            y = np.array(act["y"], dtype=float)
            ov = {k: (v["n"] if "n" in v else v["c"]) for k, v in act.get("ov", {}).items()}
            try:
                if m.independent == "f":
                    fit[m].add_data(act["name"], x, y, params=ov)
                else:
                    fit[m].add_data(act["name"], y, x, params=ov)
                obs.append("add:ok")
            except Exception as e:
                obs.append("add:" + errname(e))
        elif a == "set":
            try:
                p = fit.params[act["name"]]
                fld, v = act["f"], act["v"]
                if fld == "value":
                    p.value = v
                elif fld == "lb":
                    p.lower_bound = -np.inf if v is None else v
                elif fld == "ub":
                    p.upper_bound = np.inf if v is None else v
                elif fld == "fixed":
                    p.fixed = bool(v)
                else:
                    raise ValueError(fld)
                obs.append("set:ok")
            except Exception as e:
                obs.append("set:" + errname(e))
        elif a == "fit":
            with Recorder() as rec:
                try:
                    fit.fit()
                    err = None
                except Exception as e:
                    err = errname(e)
            call = rec.calls[0] if rec.calls else None
            fits.append({"call": call, "err": err})
            if call is None:
                obs.append("fit:" + (err or "ok-without-optimiser"))
            elif "x" not in call:
                obs.append(f"fit:{call.get('err')}:{ratlist(call['x0'])}:{optratlist(call['lb'])}:{optratlist(call['ub'])}")
            else:
                o = f"fit:ok:{ratlist(call['x0'])}:{optratlist(call['lb'])}:{optratlist(call['ub'])}:{ratlist(call['x'])}"
                if err is not None:
                    o += "!post:" + err  # raised after the write-back (standard errors: outside the model)
                obs.append(o)
        elif a == "query":
            obs.append(observe(fit, models))
        elif a == "jac":
            try:
                obs.append(jac_probe(fit, models, act["mi"], act["name"], act["sens"]))
            except Exception as e:
                obs.append("J:" + errname(e))
        else:
            raise ValueError(a)
    return obs, fits, mtab


def impl(case):
    if case["op"] == "unique":
        from lumicks.pylake.detail.utilities import unique
        from lumicks.pylake.fitting.detail.utilities import unique_idx

        u = unique(list(case["names"]))
        u2, inv = unique_idx(list(case["names"]))
        if u != u2:
            return ["unique-and-unique_idx-differ"]
        return ["[" + ",".join(showstr(s) for s in u) + "] [" + ",".join(str(int(i)) for i in inv) + "]"]
    obs, fits, mtab = run_script(case)
    _CACHE[_key(case)] = (fits, mtab)
    return [";".join(obs)]


def enc_default(d):
    if d is None:
        return "N"
    v, lo, hi, fx = d
    return f"P {enc_rat(v)} {optrat(lo)} {optrat(hi)} {enc_bool(fx)}"


def enc_target(v):
    if "n" in v:
        return "n " + showstr(v["n"])
    c = v["c"]
    return f"c {enc_rat(c)} {showstr(str(c))}"


def ops(case):
    if case["op"] == "unique":
        return ["c14.unique " + " ".join(showstr(s) for s in case["names"])]
    k = _key(case)
    if k not in _CACHE:
        impl(case)
    fits, mtab = _CACHE[k]
    toks = ["c14.run", str(len(mtab))]
    for ps in mtab:
        toks += ["M", str(len(ps))]
        for name, d in ps:
            toks += [showstr(name), enc_default(d)]
    fi = 0
    for act in case["actions"]:
        a = act["a"]
        if a == "add":
            ov = act.get("ov", {})
            toks += ["A", str(act["mi"]), showstr(act["name"]), str(len(ov))]
            for key, v in ov.items():
                toks += [showstr(key), enc_target(v)]
            toks += [boollist([math.isnan(v) for v in act["x"]]), boollist([math.isnan(v) for v in act["y"]])]
        elif a == "set":
            f, v = act["f"], act["v"]
            if f == "value":
                toks += ["S", showstr(act["name"]), "v", enc_rat(v)]
            elif f == "lb":
                toks += ["S", showstr(act["name"]), "l", "N" if v is None else enc_rat(v)]
            elif f == "ub":
                toks += ["S", showstr(act["name"]), "u", "N" if v is None else enc_rat(v)]
            else:
                toks += ["S", showstr(act["name"]), "f", enc_bool(v)]
        elif a == "fit":
            rec = fits[fi]
            fi += 1
            call = rec["call"]
            if call is None:
                toks += ["F", "err", "OptimiserNotCalledByImplementation"]
            elif "x" in call:
                toks += ["F", "ok", ratlist(call["x"])]
            else:
                toks += ["F", "err", str(call.get("err"))]
        elif a == "query":
            toks += ["Q"]
        elif a == "jac":
            toks += ["J", str(act["mi"]), showstr(act["name"]), ratlist(act["sens"])]
    return [" ".join(toks)]


VARIANT = {"as-is": 0, "aligned": 0, "same": 0}


def _strip(ans):
    out = []
    for o in ans.split(";"):
        if o.startswith("fit:ok") and "!post:" in o:
            o = o.split("!post:")[0]
        if o.startswith("J") and "!" in o:
            o = o.split("!")[0]
        out.append(o)
    return ";".join(out)


def agree(case, i, ia, ma):
    if case["op"] == "unique":
        return ia == ma
    ia = _strip(ia)
    alts = [_strip(x) for x in ma.split(" || ")]
    if len(alts) == 1:
        if ia == alts[0]:
            VARIANT["same"] += 1
            return True
        return False
    if ia == alts[0]:
        VARIANT["as-is"] += 1
        return True
    if ia == alts[1]:
        VARIANT["aligned"] += 1
        return True
    return False


def oracle(case, ia):
    return None


def nontrivial(case, ia):
    return True


def cases(tier, rng):
    x = [0.0, 1.0, 2.0, 3.0]
    M = {"kind": "poly", "name": "M", "args": ["a", "b"], "defaults": {"a": [1.0, None, None, False], "b": [2.0, -5.0, 5.0, False]}}
    yield {"stream": "corpus", "op": "script", "models": [M], "actions": [
        {"a": "query"},
        {"a": "add", "mi": 0, "name": "d1", "x": x, "y": [1 + 3 * v for v in x]},
        {"a": "query"},
        {"a": "add", "mi": 0, "name": "d2", "x": x, "y": [2 + 3 * v for v in x], "ov": {"M/a": {"n": "M/a2"}}},
        {"a": "add", "mi": 0, "name": "d3", "x": x, "y": [5 + 3 * v for v in x], "ov": {"M/a": {"c": 5}}},
        {"a": "query"},
        {"a": "fit"},
        {"a": "query"},
        {"a": "jac", "mi": 0, "name": "d2", "sens": [1.0, 0.0]},
    ]}
    yield {"stream": "corpus", "op": "unique", "names": ["a", "b", "a", "c", "b"]}
