"""C14 — fits honour bounds, fixing and sharing (and, as EXPLORATION, recover generating parameters):
correspondence + oracle (see DESIGN.md 6/C14).

A case is a script of user actions on a real `FdFit`: add a dataset to a model (with renamings / numeric overrides),
set value / bounds / fixed flag of a global parameter, fit, query (parameter table + the local parameter vector
every dataset sees, by the index route `Condition.get_local_params` and by the name route `FitData.get_params`, + the
length of the residual vector the fit evaluates at that moment), and a Jacobian-row probe.  Scripts keep working on
ONE fit object: fits are followed by further data (with and without new parameters) and further fits with nothing set
in between, so that anything the object remembers from an earlier fit/query meets changed data.  The harness is a
CALLER with memory too: the samples of a dataset are handed over as fresh arrays, as lists, as views of ONE pair of
pre-allocated buffers that is refilled in place for every dataset, or as strided views, and the caller may overwrite
what it handed over as soon as `add_data` has returned; every query reads the samples each dataset holds
(`fit[model].data[name].x/.y`), which must be the valid samples that were handed over when it was added.  A fit that is
entitled to run (data, a free parameter, start inside a box with lb < ub) has to run to the end: an exception out of
the optimiser is a violation, not an outcome.  `scipy.optimize.least_squares` is recorded, not modelled: the Lean model receives what the
optimiser answered (it is a parameter of the model, assumed only to answer a point of its box; the harness asserts
that contract on every call).

Private names of pylake: only two are touched, each only while it is reachable, and each next to a public twin that
carries the observation alone when the name is gone - `Model._calculate_jacobian` (Jacobian probe; twin: the Jacobian
`fit.fit()` hands to its optimiser, `public_jacobian`) and the helpers `detail.utilities.unique` /
`fitting.detail.utilities.unique_idx` (op `unique`; twin: `fit.params` order and the grouping of `fit[model].
conditions()` of a one-parameter model, `unique_public`).  Everything else goes by public names: `Model.defaults`
(not `_params`), `Fit.sigma` for the residual vector the fit evaluates (not `Fit._calculate_residual`)."""
import json
import math
import struct
import warnings
from fractions import Fraction

import numpy as np

from common import enc_bool, enc_rat, errname

PROP = "C14"
THEOREMS = [
    "Verif.C14.unique_spec",
    "Verif.C14.globalNames_spec",
    "Verif.C14.build_table_keys",
    "Verif.C14.condition_route_correct",
    "Verif.C14.shared_one_value",
    "Verif.C14.renamed_distinct_index",
    "Verif.C14.renamed_independent",
    "Verif.C14.constants_stay_local",
    "Verif.C14.routes_agree",
    "Verif.C14.rebuild_idempotent",
    "Verif.C14.rebuild_of_built",
    "Verif.C14.forced_rebuild_same",
    "Verif.C14.addData_ok",
    "Verif.C14.add_data_names_mono",
    "Verif.C14.add_data_appends",
    "Verif.C14.add_data_keeps_entries",
    "Verif.C14.add_data_residuals",
    "Verif.C14.add_data_holds",
    "Verif.C14.held_data_kept",
    "Verif.C14.run_exec",
    "Verif.C14.fit_spec",
    "Verif.C14.fixed_unchanged",
    "Verif.C14.fit_table_length",
    "Verif.C14.within_bounds",
    "Verif.C14.free_values_are_answer",
    "Verif.C14.initial_out_of_bounds_rejected",
    "Verif.C14.valueError_iff_start_outside",
    "Verif.C14.failed_fit_no_change",
    "Verif.C14.nothing_to_fit",
    "Verif.C14.defaults_first_occurrence",
    "Verif.C14.defaults_first_occurrence_aligned",
    "Verif.C14.jacobian_scatter_correct",
    "Verif.C14.collision_witness",
    "Verif.C14.add_data_reorder_witness",
    "Verif.C14.defaults_misaligned_witness",
    "Verif.C14.scatter_duplicate_witness",
    "Verif.C14.noise_free_residual_zero",
    "Verif.C14.noise_free_by_name_residual_zero",
    "Verif.C14.generating_values_minimise",
    "Verif.C14.fit_done",
    "Verif.C14.refit_from_optimum_unchanged",
    "Verif.C14.recovers_generating_parameters",
    "Verif.C14.more_noise_free_data_keeps_optimum",
    "Verif.C14.residualV_eq",
    "Verif.C14.model_cost_is_sum_over_datasets",
    "Verif.C14.cost_is_sum_over_datasets",
    "Verif.C14.cost_by_name",
    "Verif.C14.scatter_entry_chain_rule",
    "Verif.C14.jacobian_entry_chain_rule",
    "Verif.C14.unused_parameter_column_zero",
    "Verif.C14.jacobianV_eq",
    "Verif.C14.add_noise_free_data_then_refit_unchanged",
    "Verif.C14.model_residual_length",
    "Verif.C14.residual_length",
    "Verif.C14.addData_dataOk",
    "Verif.C14.collision_breaks_recovery",
]
RULE = (
    "A case is a script of user actions on a real FdFit (add dataset with renamings/numeric overrides, set value/"
    "bounds/fixed flag, fit, query, Jacobian-row probe); the optimiser's answers are recorded and fed to the model. "
    "Streams: corpus (corpus/C14/*.json + in-code: worked example, the inputs of observations O-C14-A/B/C, name "
    "reordering, every error path) + exhaustive small scope (model y=a+b*x; quick: 1-2 datasets x target kinds own/"
    "renamed/constant/other-parameter per parameter and dataset x 2 fixing patterns; thorough: 1-2 datasets with the "
    "additional kind shared-name x 3 fixing/bounding patterns, and 3 datasets x 4 kinds with a rotating pattern; each "
    "with query, probe, fit, query, refit, query, further data with the layout of an existing dataset, query, fit, "
    "query) + seeded random scripts (1-3 polynomial models with 1-5 "
    "parameters, optional shared kT, random defaults/bounds/fixed flags, analytic or 2-point Jacobian, 1-4 datasets "
    "on random models with renamings to fresh/pooled/foreign/duplicate names and int/float constants, NaN samples, "
    "interleaved sets incl. degenerate and infeasible boxes, 1-3 fits, in half of the scripts a tail of 1-2 further "
    "datasets on the same object (layout of an existing dataset / one parameter renamed / all-NaN) each followed by "
    "query and/or fit with nothing set in between; ~10% malformed actions: duplicate dataset "
    "name, unknown override key, unequal lengths, unknown parameter) + bookkeeping-only scripts on the library's "
    "built-in / composite / offset models + unique() lists + RECOVERY EXPLORATION (not proof): noise-free data generated "
    "by 1-2 built-in models (Odijk, Marko-Siggia (in)extensible, eFJC, tWLC; force and distance forms; slow inverted "
    "forms on thorough only), 1-4 datasets with per-dataset contour / persistence lengths, kT and the four twist "
    "parameters fixed, start perturbed by <=15% (contour length of force models upwards; for the inextensible "
    "force model additionally bounded below by the largest distance), optional fixing at the generating value and "
    "bounds tightened around / placed at the optimum; fit, refit from the optimum, add further data and fit: the "
    "generating values must come back within rel 1e-3 (5e-2 when a bound sits AT the optimum) and no fit may raise. "
    "In every stream the harness is a caller with memory: the samples of a dataset are handed over as fresh float64 "
    "arrays, as lists, as views of ONE pair of pre-allocated buffers refilled in place for every dataset, or as strided "
    "views (corpus: each form; small scope: rotating with the layout; random / built-in / recovery: per script one habit "
    "- all through the buffer, all fresh, or mixed), and after ~1 in 3 hand-overs the caller overwrites its arrays in "
    "place as soon as add_data has returned; every query reads the samples every dataset holds (fit[model].data[name]"
    ".x/.y, bit patterns) - they must be the valid samples handed over when it was added (model: in order; oracle: as "
    "a multiset of pairs). "
    "The TYPE of the numbers the user types is part of the input too: per script (random: 1 in 2 as generated = floats, 1 in 4 "
    "every whole number of the model defaults and of the set actions typed as a Python int, 1 in 4 ints throughout = explicit "
    "int defaults for every model argument, values rounded, bounds rounded outwards, so that the WHOLE table holds ints until "
    "the first fit has written its answer; small scope: rotating with layout and pattern; corpus: one dataset, a global fit "
    "with shared slope and renamed intercepts, a fixed int next to a free int, ints set again after a fit, a one-parameter "
    "offset started from the int 0 - all on noise-free data whose optimum is not whole). "
    "The recovery exploration also fits the built-in offset models on their own (force_offset / distance_offset, 1-3 datasets, "
    "offset shared or renamed, +-15% start inside the default box of +-0.1; the only built-in fits without the float kT). "
    "On every script whose models are all polynomial toys two further ops run (c14.resid, c14.fjac): every query reads the "
    "residual VECTOR and the full Jacobian of the fit (through the function / jac callable the public fit() hands to its "
    "optimiser - stand-in optimiser that leaves before the write-back - and through the private Fit._calculate_residual / "
    "_calculate_jacobian while they exist; both routes must give the same numbers), every recorded least_squares call "
    "evaluates its objective at the start and at the answer and its jac at the start; all are compared with the Lean model "
    "(exact rationals of the doubles; residuals within 1e-9 of the magnitude of the terms, toy sensitivities normally the very "
    "same rationals). The oracle recomputes from the property text the residual multiset (samples held x parameters by name) "
    "and the Jacobian rows (minus the sum of x^k over the model parameters mapped to each name) at every query, and asserts on "
    "every optimiser call that the sum of squares at the answer is not above the one at the start (slack: relative 1e-6 plus n*(1e-6*max|y|)^2: "
    "TRF moves a start ON a bound strictly inside and stops on tolerances). "
    "Every query also reads the length of the residual vector the fit evaluates (= valid points of all datasets added "
    "so far); a fit that raises inside the optimiser from a feasible start in a box with lb < ub is a violation. Non-trivial: a fit ran to the end with >=2 datasets, an "
    "override or a fixed parameter; or an error path was hit; or >=2 datasets with an override were queried."
)
TRUSTED = [
    "scipy.optimize.least_squares is a PARAMETER of the model (recorded per call and replayed to the Lean model); the only assumption the theorems use (OptInBox: the answer lies in the box passed to it) is asserted by the oracle on every recorded call",
    "the standard-error computation after the write-back (Fit.cov, sigma) is outside the model; an exception raised there is recorded as '!post' and not compared with the model (in the recovery stream the oracle still reports it: those fits have to return)",
    "Python str() of a numeric override is sent to the model verbatim (the code builds condition strings from it)",
    "the Jacobian probe reads the model's private `_calculate_jacobian` while that name exists and, always, the Jacobian the public fit() hands to scipy.optimize.least_squares: for one fit() call, left by an exception of the stand-in optimiser before the write-back, every parameter is freed and unboxed and then given back its value, bounds and flag; `scipy.optimize.least_squares` is looked up by the library at call time (as the recorder of the fits assumes too)",
    "the hypotheses about the optimiser used by the refit theorems (answer inside the box; sum of squares at the answer not above the one at the start) are asserted by the oracle on every recorded call, the second up to a relative 1e-6 plus n*(1e-6*max|y|)^2 (SciPy moves a start that lies on / next to a bound strictly inside and stops on tolerances of 1e-8); the hypothesis of recovers_generating_parameters (the answer minimises the sum of squares over the box) is NOT asserted - it is what the recovery exploration samples",
    "the values of the samples are decoded from their bit patterns by Verif.C14.bitsToRat (finite doubles; checked against struct.unpack by the residual tie on every run)",
    "the samples of a dataset travel to the model as the bit patterns of the doubles in the case (NaN entries as 0 next to the NaN masks); the model treats them as opaque values",
]
ASSUMPTIONS = [
    "CondInj (hypothesis of the 'what a dataset sees' theorems): within one model, datasets with different target lists have different condition strings; false only when a parameter NAME equals the str() of a numeric override in the same position or names contain '|' (observation O-C14-A, corpus cases, reported as KNOWN-FINDING)",
    "parameter values and finite bounds are finite doubles (no NaN); model arguments are identifiers",
    "recovery of the generating parameters by scipy's TRF is EXPLORATION only (seeded fits on noise-free data); the theorem recovers_generating_parameters reduces it to: identifiable + the optimiser answers a minimiser over its box",
    "the residual / Jacobian theorems are over Rat-valued model functions and sensitivities given as parameters; the tie instantiates them with the polynomial toys only (built-in transcendental models: C12)",
]

# ------------------------------------------------------------------ encoders


def showstr(s):
    return "s" + ".".join(str(ord(c)) for c in s)


def unshowstr(t):
    body = t[1:]
    return "" if body == "" else "".join(chr(int(p)) for p in body.split("."))


def optrat(v):
    v = float(v) if not isinstance(v, (int, Fraction)) else v
    if isinstance(v, float) and math.isinf(v):
        return "N"
    return rat(v)


def rat(x):
    """exact rational of a number; anything else (None, NaN, inf, objects) becomes a token that cannot agree"""
    try:
        return enc_rat(x)
    except Exception:
        return "bad-" + type(x).__name__ + "-" + "".join(ch for ch in repr(x)[:12] if ch.isalnum())


def ratlist(xs):
    return "[" + ",".join(rat(x) for x in xs) + "]"


def optratlist(xs):
    return "[" + ",".join(optrat(x) for x in xs) + "]"


def boollist(xs):
    return "[" + ",".join(enc_bool(x) for x in xs) + "]"


def bits(v):
    """bit pattern of a double as a natural number (the samples of a dataset are opaque to the bookkeeping)"""
    return struct.unpack("<Q", struct.pack("<d", float(v)))[0]


def bitlist(arr):
    a = np.ascontiguousarray(np.asarray(arr, dtype=np.float64)).reshape(-1)
    return "[" + ",".join(str(int(v)) for v in a.view(np.uint64)) + "]"


def sent_bits(vals):
    """what travels to the model for the samples handed over (the entry of a NaN is irrelevant: it is dropped)"""
    return "[" + ",".join("0" if math.isnan(v) else str(bits(v)) for v in vals) + "]"


# ------------------------------------------------------------------ building implementation objects

BUILTIN = {}


_CALLS = []
COUNTS = {"datasets_checked_against_model_function_calls": 0, "optimiser_calls": 0, "fits_raised_after_write_back": 0,
          "held_samples_read": 0, "fits_started_from_a_table_of_ints_only": 0, "fits_started_from_a_table_with_some_ints": 0}


def _rec(x, params):
    """the toy model functions report what they are called with (x array object, parameter tuple)"""
    if len(_CALLS) < 100000:
        _CALLS.append((x, params))
    return None


def make_model(spec):
    """toy polynomial models y = sum_k arg_k x^k (own function objects: the Model class is what is exercised), or a
    built-in model of lumicks.pylake (optionally a sum of several / with an independent offset)"""
    import lumicks.pylake as lk
    from lumicks.pylake.fitting.model import Model
    from lumicks.pylake.fitting.parameters import Parameter

    if spec["kind"] == "poly":
        args = spec["args"]
        sig = ", ".join(args)
        f = eval(f"lambda x, {sig}: _rec(x, ({sig},)) or (" + " + ".join(f"{a} * x**{k}" for k, a in enumerate(args)) + ")", {"_rec": _rec})
        jac = None
        if spec.get("jac", True):
            jac = eval(f"lambda x, {sig}: np.vstack([x**k for k in range({len(args)})])", {"np": np})
        dfl = {}
        for a, d in spec.get("defaults", {}).items():
            v, lo, hi, fx = d
            dfl[a] = Parameter(
                value=v,
                lower_bound=-np.inf if lo is None else lo,
                upper_bound=np.inf if hi is None else hi,
                fixed=fx,
                shared=a in spec.get("shared", []),
            )
        return Model(spec["name"], f, jacobian=jac, **dfl)
    if spec["kind"] == "builtin":
        m = getattr(lk, spec["ctor"])(spec["name"])
        for extra in spec.get("plus", []):
            m = m + getattr(lk, extra["ctor"])(extra["name"])
        if spec.get("offset"):
            m = m.subtract_independent_offset()
        if spec.get("invert"):
            m = m.invert()
        return m
    raise ValueError(spec["kind"])


def model_param_names(spec):
    """independent reading of the naming rule (property text / docs): '<model>/<arg>', shared parameters unprefixed"""
    if spec["kind"] == "poly":
        return [a if a in spec.get("shared", []) and a in spec.get("defaults", {}) else f"{spec['name']}/{a}" for a in spec["args"]]
    return None


def _eval_objective(fun, x):
    try:
        return [float(v) for v in np.atleast_1d(np.asarray(fun(np.array(x, dtype=np.float64)), dtype=np.float64))]
    except Exception as e:
        return "raised-" + errname(e)


def _eval_jac(jac, x):
    try:
        J = np.asarray(jac(np.array(x, dtype=np.float64)), dtype=np.float64)
        return [[float(v) for v in row] for row in J] if J.ndim == 2 else "raised-shape"
    except Exception as e:
        return "raised-" + errname(e)


def matlist(J):
    return J if isinstance(J, str) else "[" + ",".join(ratlist(row) for row in J) + "]"


def jacobian_full_probe(fit):
    """The full Jacobian of the fit at its current values: the one `fit.fit()` hands to its optimiser with every
    parameter freed (`public_jacobian`) and the private `Fit._calculate_jacobian()` while it exists; must be the same."""
    pub = public_jacobian(fit)
    priv = getattr(fit, "_calculate_jacobian", None)
    prv = None
    if priv is not None and getattr(fit, "has_jacobian", False):
        try:
            prv = np.asarray(priv(), dtype=np.float64)
        except TypeError as e:
            if e.__traceback__ is None or e.__traceback__.tb_next is not None:
                raise
            prv = None
    RESID["jac:public" + ("" if pub is not None else ":unavailable")] += 1
    RESID["jac:private" + ("" if prv is not None else ":unavailable")] += 1
    if pub is not None and prv is not None and (pub.shape != prv.shape or pub.tobytes() != prv.tobytes()) and pub.size:
        return f"the-fit's-own-jacobian-{matlist(prv.tolist())}-is-not-what-fit()-hands-to-its-optimiser-{matlist(pub.tolist())}"
    J = pub if pub is not None else prv
    return "?" if J is None else matlist([[float(v) for v in row] for row in J])


class Recorder:
    """records scipy.optimize.least_squares (the optimiser is a parameter of the model, not modelled)"""

    def __init__(self, resid=False):
        self.calls = []
        self.resid = resid  # also evaluate the function handed to the optimiser at the start point and at the answer

    def __enter__(self):
        import scipy.optimize

        self.mod = scipy.optimize
        self.orig = scipy.optimize.least_squares
        rec = self

        rec.depth = 0

        def wrapper(fun, x0, *a, **kw):
            if rec.depth > 0 or rec.calls:
                # least_squares used INSIDE a model function (numerically inverted models), during the fit or in the
                # covariance computation after it: only the first outermost call is the fit's optimiser
                return rec.orig(fun, x0, *a, **kw)
            rec.depth += 1
            try:
                return outer(fun, x0, *a, **kw)
            finally:
                rec.depth -= 1

        def outer(fun, x0, *a, **kw):
            entry = {"x0": [float(v) for v in np.atleast_1d(np.asarray(x0, dtype=float))]}
            b = kw.get("bounds")
            if b is not None:
                entry["lb"] = [float(v) for v in np.atleast_1d(np.asarray(b[0], dtype=float))]
                entry["ub"] = [float(v) for v in np.atleast_1d(np.asarray(b[1], dtype=float))]
            rec.calls.append(entry)
            if rec.resid:
                # what the fit's objective answers at the start point (the closure of Fit._fit: parameter_vector[fitted]
                # = params; Fit._calculate_residual(parameter_vector)) - evaluated before the optimiser starts
                entry["r0"] = _eval_objective(fun, x0)
                jac = kw.get("jac")
                entry["j0"] = _eval_jac(jac, x0) if callable(jac) else "2p"  # the `jac` closure of Fit._fit at the start
            try:
                r = rec.orig(fun, x0, *a, **kw)
            except Exception as e:
                entry["err"] = errname(e)
                raise
            entry["x"] = [float(v) for v in r.x]
            if rec.resid:
                entry["r1"] = _eval_objective(fun, r.x)  # ... and at the answer (what Fit._fit writes back next)
            entry["cost"] = float(r.cost)
            entry["nfev"] = int(r.nfev)
            return r

        scipy.optimize.least_squares = wrapper
        return self

    def __exit__(self, *a):
        self.mod.least_squares = self.orig
        return False


import collections as _collections

GROUPS = _collections.Counter()  # which branch of the grouping the queries went through


def observe(fit, models, strict=True):
    P = fit.params
    items = list(P.items())
    T = "T[" + ",".join(
        f"{showstr(k)}:{rat(p.value)}:{optrat(p.lower_bound)}:{optrat(p.upper_bound)}:{enc_bool(bool(p.fixed))}" for k, p in items
    ) + "]"
    vals = P.values
    per = []
    # what the model functions are really called with when the fit evaluates its residual (toy models only)
    del _CALLS[:]
    seen = {}
    # ... and how long the residual vector is that the fit evaluates NOW (one entry per valid point of every dataset
    # that has been added so far: a dataset that is not in it is not seen by the fit)
    try:
        # PUBLIC route (`Fit._calculate_residual` is private and not an anchor of the property): `Fit.sigma` answers one
        # entry per entry of the residual vector the fit evaluates at its current parameter values (it evaluates that
        # vector once, which is also what makes the toy model functions report their arguments)
        nres = "R" + str(len(fit.sigma))
        for x, params in _CALLS:
            seen.setdefault(id(x), []).append(list(params))
    except Exception as e:
        seen = None
        # bookkeeping-only scripts on the library's own models carry parameter values their formulas may refuse
        # (`strict` is off there): the length the vector is allocated with is read instead
        nres = "R!" + errname(e) if strict else "R" + str(int(fit.n_residuals))
    del _CALLS[:]
    for m in models:
        ds = fit[m]
        byidx = {}
        for cond, dl in ds.conditions():
            v = cond.get_local_params(vals)
            GROUPS["datasets per condition = " + str(len(dl))] += 1
            GROUPS["datasets evaluated with the Condition of an earlier dataset"] += max(0, len(dl) - 1)
            for d in dl:
                byidx[d.name] = v
                if seen is not None and id(d.x) in seen:
                    # the k-th dataset that shares this x array object is the k-th call with it
                    got = seen[id(d.x)]
                    COUNTS["datasets_checked_against_model_function_calls"] += 1
                    if any([Fraction(a) for a in g] != [Fraction(a) for a in v] for g in got):
                        byidx[d.name] = got[0]  # what the model function received wins (reported as the index route)
        parts = []
        for name, d in ds.data.items():
            a = ratlist(byidx[name]) if name in byidx else "missing"
            try:
                lp = d.get_params(P)
                b = ratlist([p.value for _, p in lp.items()])
            except IndexError:
                b = "[IndexError]"
            parts.append(f"{showstr(name)}={a}={b}")
        per.append("{" + " ".join(parts) + "}")
    # the samples every dataset holds at this moment (insertion order), as bit patterns of their doubles
    held = []
    for m in models:
        parts = []
        for name, d in fit[m].data.items():
            COUNTS["held_samples_read"] += 1
            parts.append(f"{showstr(name)}={bitlist(d.x)}={bitlist(d.y)}")
        held.append("{" + " ".join(parts) + "}")
    return T + " L" + "".join(per) + " D" + "".join(held) + " " + nres


class _ProbeDone(Exception):
    """raised by the stand-in optimiser of `public_jacobian` to leave `fit()` before anything is written back"""


def public_jacobian(fit, want_residual=False):
    """The Jacobian the fit hands to its optimiser, over ALL parameters of the table, by public names only: for the
    moment of ONE `fit.fit()` every parameter is freed and unboxed (so that the fit is entitled to run whatever the
    table says and every column is a fitted one), `scipy.optimize.least_squares` is a stand-in that evaluates the
    `jac` callable it is given at the start point it is given and leaves by an exception before anything is written
    back; value, bounds and fixed flag of every parameter are then put back (the same objects).  None when the fit
    does not reach its optimiser (no data) or hands it no analytic Jacobian (a model without one: '2-point')."""
    import scipy.optimize

    P = fit.params
    saved = [(p, p.value, p.lower_bound, p.upper_bound, p.fixed) for _, p in P.items()]
    orig = scipy.optimize.least_squares
    got = {}

    def stand_in(fun, x0, *a, **kw):
        jac = kw.get("jac", a[0] if a else None)
        if want_residual:
            got["r"] = _eval_objective(fun, x0)
            raise _ProbeDone()
        got["J"] = np.array(jac(np.array(x0, dtype=np.float64)), dtype=np.float64) if callable(jac) else None
        raise _ProbeDone()

    try:
        for p, *_ in saved:
            p.fixed, p.lower_bound, p.upper_bound = False, -np.inf, np.inf
        scipy.optimize.least_squares = stand_in
        try:
            fit.fit()
        except _ProbeDone:
            pass
        except (RuntimeError, ValueError):
            return None  # nothing to fit: the optimiser is not reached
    finally:
        scipy.optimize.least_squares = orig
        for p, v, lo, hi, fx in saved:
            p.value, p.lower_bound, p.upper_bound, p.fixed = v, lo, hi, fx
    if want_residual:
        return got.get("r")
    J = got.get("J")
    return J if J is not None and J.ndim == 2 and J.shape[1] == len(saved) else None


def residual_probe(fit):
    """The residual vector the fit evaluates at its current parameter values.  Two routes, as for the Jacobian probe:
    the function the public `fit.fit()` hands to its optimiser, evaluated at the start point by a stand-in optimiser
    that leaves before anything is written (every parameter freed and unboxed for that one call, then put back), and
    the private `Fit._calculate_residual()` while that name exists; both are read whenever they can be had and must
    be the same vector.  '?' (ignored by `agree` and the oracle) when neither can be had (e.g. no parameter at all
    and the private name gone)."""
    pub = public_jacobian(fit, want_residual=True)
    priv = getattr(fit, "_calculate_residual", None)
    prv = None
    if priv is not None:
        try:
            prv = [float(v) for v in priv()]
        except TypeError as e:
            if e.__traceback__ is None or e.__traceback__.tb_next is not None:
                raise
            prv = None
    RESID["probe:public" + ("" if pub is not None else ":unavailable")] += 1
    RESID["probe:private" + ("" if prv is not None else ":gone")] += 1
    if isinstance(pub, str):
        return pub
    if pub is not None and prv is not None and [bits(v) for v in pub] != [bits(v) for v in prv]:
        return f"the-fit's-own-residual-{ratlist(prv)}-is-not-what-fit()-hands-to-its-optimiser-{ratlist(pub)}"
    r = pub if pub is not None else prv
    return "?" if r is None else ratlist(r)


RESID = {"jac:public": 0, "jac:public:unavailable": 0, "jac:private": 0, "jac:private:unavailable": 0,
         "jac:entries_compared_with_model": 0, "jac:matrices_compared_with_model": 0, "jac:two-point(no analytic Jacobian)": 0,
         "oracle:jac_rows_recomputed": 0, "probe:public": 0, "probe:public:unavailable": 0, "probe:private": 0, "probe:private:gone": 0,
         "entries_compared_with_model": 0, "vectors_compared_with_model": 0, "vectors_all_zero(noise-free at the table values)": 0,
         "oracle:entries_recomputed": 0, "oracle:descent_checked": 0, "oracle:refit_from_zero_residual": 0,
         "non_finite_entries_skipped": 0}


PRIVATE_TIES = {"Model._calculate_jacobian": 0, "Model._calculate_jacobian:gone": 0, "jacobian-through-fit()": 0,
                "jacobian-through-fit():unavailable": 0, "unique/unique_idx helpers": 0, "unique/unique_idx helpers:gone": 0}


def jac_probe(fit, models, mi, name, sens_x):
    """first row of dataset `name` in the model's block of the global Jacobian.  Two routes: the model's private
    `_calculate_jacobian` (the scatter of finding C14-C lives there) while it is reachable under that name, and the
    Jacobian the public `fit.fit()` hands to its optimiser (`public_jacobian`); both are read whenever they exist
    and have to show the same row - either of them alone keeps the probe alive, 'J:?' (ignored by `agree` and the
    oracle) only when neither can be had."""
    m = models[mi]
    ds = fit[m]
    P = fit.params
    priv = getattr(m, "_calculate_jacobian", None)  # private name: observed only while it is there
    Jm = None
    if priv is not None:
        try:
            Jm = priv(ds, P.values)
        except TypeError as e:
            if e.__traceback__ is None or e.__traceback__.tb_next is not None:
                raise  # raised inside the library
            priv = None  # the call itself did not bind: the private signature is not the one of today
    PRIVATE_TIES["Model._calculate_jacobian" + ("" if priv is not None else ":gone")] += 1
    row = 0
    found = None
    for cond, dl in ds.conditions():
        for d in dl:
            if found is None and d.name == name:
                found = (row, len(d.x))
            row += len(d.x)
    if found is None or found[1] == 0:
        return "J:missing"
    Jf = public_jacobian(fit)
    PRIVATE_TIES["jacobian-through-fit()" + ("" if Jf is not None else ":unavailable")] += 1
    a = None if Jm is None else ratlist(Jm[found[0], :])
    b = None
    if Jf is not None:
        # the fit stacks the blocks of its models in the order they were given to it
        off = sum(int(fit[m2].n_residuals) for m2 in models[:mi])
        b = ratlist(Jf[off + found[0], :])
    if a is None and b is None:
        return "J:?"
    if a is not None and b is not None and a != b:
        return f"J:the-model's-block-{a}-is-not-what-fit()-hands-to-its-optimiser-{b}"
    return "J" + (a if a is not None else b)


HANDS = ["fresh", "buffer", "list", "strided"]


class Caller:
    """The user's side of `add_data`: where the samples live that are handed over.  `hand` of an add action:
    'fresh' (default) two new float64 arrays nobody else holds; 'list' plain Python lists; 'buffer' views of the ONE
    pair of pre-allocated float64 buffers of the script, refilled IN PLACE for every dataset that goes through them
    (an acquisition / simulation buffer); 'strided' every second element of a work array.  `then` = 'overwrite': as soon
    as `add_data` has returned the caller re-uses what it handed over (in place: reversed and halved).  None of this
    is an action on the fit."""

    def __init__(self, case):
        n = max([1] + [max(len(a["x"]), len(a["y"])) for a in case["actions"] if a["a"] == "add"])
        self.buf = (np.zeros(n, dtype=np.float64), np.zeros(n, dtype=np.float64))
        self.kept = []  # everything handed over stays referenced by the caller

    def hand(self, act):
        mode = act.get("hand", "fresh")
        out = []
        for k, vals in enumerate((act["x"], act["y"])):
            vals = [float(v) for v in vals]
            if mode == "list":
                arr = vals
            elif mode == "buffer":
                self.buf[k][: len(vals)] = vals
                arr = self.buf[k][: len(vals)]
            elif mode == "strided":
                work = np.full(2 * len(vals), -99.0, dtype=np.float64)
                work[::2] = vals
                arr = work[::2]
            elif mode == "fresh":
                arr = np.array(vals, dtype=np.float64)
            else:
                raise ValueError(mode)
            out.append(arr)
        self.kept.append(out)
        return out

    def after(self, act, arrs):
        if act.get("then") == "overwrite":
            for arr in arrs:
                arr[:] = [0.5 * float(v) for v in arr[::-1]]
        elif act.get("then") is not None:
            raise ValueError(act.get("then"))


_CACHE = {}


def _key(case):
    return json.dumps(case, sort_keys=True, default=str)


def run_script(case):
    import lumicks.pylake as lk

    models = [make_model(s) for s in case["models"]]
    fit = lk.FdFit(*models)
    caller = Caller(case)
    obs = []
    jcs = []  # Jacobian observations (polynomial toy models only): one per query / fit
    res = []  # residual observations (polynomial toy models only): one per query / fit
    poly = all(sp["kind"] == "poly" for sp in case["models"])
    fits = []
    mtab = [[(k, None if p is None else (p.value, p.lower_bound, p.upper_bound, bool(p.fixed))) for k, p in m.defaults.items()] for m in models]  # `Model.defaults`: the public view of the model's parameter table
    for act in case["actions"]:
        a = act["a"]
        if a == "add":
            m = models[act["mi"]]
            x, y = caller.hand(act)
            ov = {k: (v["n"] if "n" in v else v["c"]) for k, v in act.get("ov", {}).items()}
            try:
                if m.independent == "f":
                    fit[m].add_data(act["name"], x, y, params=ov)
                else:
                    fit[m].add_data(act["name"], y, x, params=ov)
                obs.append("add:ok")
            except Exception as e:
                obs.append("add:" + errname(e))
            caller.after(act, (x, y))
        elif a == "set":
            try:
                p = fit.params[act["name"]]
                fld, v = act["f"], act["v"]
                if fld == "value":
                    p.value = v
                elif fld == "lb":
                    p.lower_bound = -np.inf if v is None else v
                elif fld == "ub":
                    p.upper_bound = np.inf if v is None else v
                elif fld == "fixed":
                    p.fixed = bool(v)
                else:
                    raise ValueError(fld)
                obs.append("set:ok")
            except Exception as e:
                obs.append("set:" + errname(e))
        elif a == "fit":
            try:
                tv = [type(p.value) for _, p in fit.params.items()]
                if tv and all(t is int for t in tv):
                    COUNTS["fits_started_from_a_table_of_ints_only"] += 1
                elif any(t is int for t in tv):
                    COUNTS["fits_started_from_a_table_with_some_ints"] += 1
            except Exception:
                pass
            with Recorder(resid=poly) as rec:
                try:
                    fit.fit()
                    err = None
                except Exception as e:
                    err = errname(e)
            call = rec.calls[0] if rec.calls else None
            COUNTS["optimiser_calls"] += len(rec.calls)
            fits.append({"call": call, "err": err})
            if poly:
                def _rl(v):
                    return v if isinstance(v, str) else ratlist(v)
                if call is None or "r0" not in call:
                    res.append("f-")
                elif "r1" in call:
                    res.append("f" + _rl(call["r0"]) + ">" + _rl(call["r1"]))
                else:
                    res.append("f" + _rl(call["r0"]))
                jcs.append("f-" if call is None or "j0" not in call else "f" + matlist(call["j0"]))
            if call is None:
                obs.append("fit:" + (err or "ok-without-optimiser"))
            elif "x" not in call:
                obs.append(f"fit:{call.get('err')}:{ratlist(call['x0'])}:{optratlist(call['lb'])}:{optratlist(call['ub'])}")
            else:
                o = f"fit:ok:{ratlist(call['x0'])}:{optratlist(call['lb'])}:{optratlist(call['ub'])}:{ratlist(call['x'])}"
                if err is not None:
                    COUNTS["fits_raised_after_write_back"] += 1
                    o += "!post:" + err  # raised after the write-back (standard errors: outside the model)
                obs.append(o)
        elif a == "query":
            try:
                obs.append(observe(fit, models, strict=all(s["kind"] == "poly" for s in case["models"]) or case.get("truth") is not None))
            except Exception as e:
                obs.append("query-raised:" + errname(e))
            if poly:
                try:
                    res.append("q" + residual_probe(fit))
                except Exception as e:
                    res.append("q-raised:" + errname(e))
                try:
                    jcs.append("q" + jacobian_full_probe(fit))
                except Exception as e:
                    jcs.append("q-raised:" + errname(e))
        elif a == "jac":
            try:
                obs.append(jac_probe(fit, models, act["mi"], act["name"], act["sens"]))
            except Exception as e:
                obs.append("J:" + errname(e))
        else:
            raise ValueError(a)
    return obs, fits, mtab, ((res, jcs) if poly else None)


def _show_unique(u, inv):
    return "[" + ",".join(showstr(s) for s in u) + "] [" + ",".join(str(int(i)) for i in inv) + "]"


def unique_private(names):
    """the two private de-duplication helpers called directly - only while they can be had under the module paths
    and names they have today (private bookkeeping: a refactoring may move, rename or inline them); None otherwise"""
    try:
        from lumicks.pylake.detail.utilities import unique
        from lumicks.pylake.fitting.detail.utilities import unique_idx
    except (ImportError, AttributeError):
        return None
    u = unique(list(names))
    u2, inv = unique_idx(list(names))
    if u != u2:
        return "unique-and-unique_idx-differ"
    return _show_unique(u, inv)


def unique_public(names):
    """the same two de-duplications where a user meets them: a one-parameter model with one dataset per entry of
    `names`, the i-th dataset mapping the parameter to names[i].  `fit.params` lists the names in order of first
    occurrence (Fit._build_fit: the global parameter list), the conditions of the model group the datasets by
    name in order of first occurrence (generate_conditions: the inverse indices)."""
    import lumicks.pylake as lk
    from lumicks.pylake.fitting.model import Model

    m = Model("U", lambda x, a: a + 0.0 * x)
    fit = lk.FdFit(m)
    for i, n in enumerate(names):
        fit[m].add_data(f"d{i}", [0.0, 1.0], [0.0, 1.0], params={"U/a": n})
    u = [k for k, _ in fit.params.items()]
    groups = [[int(d.name[1:]) for d in dl] for _, dl in fit[m].conditions()]
    u2 = [names[g[0]] for g in groups]
    inv = {i: gi for gi, g in enumerate(groups) for i in g}
    if u != u2 or sorted(inv) != list(range(len(names))):
        return "unique-and-unique_idx-differ"
    return _show_unique(u, [inv[i] for i in range(len(names))])


def impl(case):
    warnings.filterwarnings("ignore")  # NumPy/SciPy RuntimeWarnings of degenerate toy fits are not observations
    if case["op"] == "unique":
        pub = unique_public(list(case["names"]))
        prv = unique_private(list(case["names"]))
        PRIVATE_TIES["unique/unique_idx helpers" + ("" if prv is not None else ":gone")] += 1
        if prv is not None and prv != pub:
            return [f"helpers-say-{prv}-the-fit-says-{pub}"]
        return [pub]
    obs, fits, mtab, res = run_script(case)
    _CACHE[_key(case)] = (fits, mtab)
    return [";".join(obs)] if res is None else [";".join(obs), ";".join(res[0]), ";".join(res[1])]


def enc_default(d):
    if d is None:
        return "N"
    v, lo, hi, fx = d
    return f"P {enc_rat(v)} {optrat(lo)} {optrat(hi)} {enc_bool(fx)}"


def enc_target(v):
    if "n" in v:
        return "n " + showstr(v["n"])
    c = v["c"]
    return f"c {enc_rat(c)} {showstr(str(c))}"


def ops(case):
    if case["op"] == "unique":
        return ["c14.unique " + " ".join(showstr(s) for s in case["names"])]
    k = _key(case)
    if k not in _CACHE:
        impl(case)
    fits, mtab = _CACHE[k]
    toks = ["c14.run", str(len(mtab))]
    for ps in mtab:
        toks += ["M", str(len(ps))]
        for name, d in ps:
            toks += [showstr(name), enc_default(d)]
    fi = 0
    for act in case["actions"]:
        a = act["a"]
        if a == "add":
            ov = act.get("ov", {})
            toks += ["A", str(act["mi"]), showstr(act["name"]), str(len(ov))]
            for key, v in ov.items():
                toks += [showstr(key), enc_target(v)]
            toks += [boollist([math.isnan(v) for v in act["x"]]), boollist([math.isnan(v) for v in act["y"]])]
            toks += [sent_bits(act["x"]), sent_bits(act["y"])]
        elif a == "set":
            f, v = act["f"], act["v"]
            if f == "value":
                toks += ["S", showstr(act["name"]), "v", enc_rat(v)]
            elif f == "lb":
                toks += ["S", showstr(act["name"]), "l", "N" if v is None else enc_rat(v)]
            elif f == "ub":
                toks += ["S", showstr(act["name"]), "u", "N" if v is None else enc_rat(v)]
            else:
                toks += ["S", showstr(act["name"]), "f", enc_bool(v)]
        elif a == "fit":
            rec = fits[fi]
            fi += 1
            call = rec["call"]
            if call is None:
                toks += ["F", "err", "OptimiserNotCalledByImplementation"]
            elif "x" in call:
                toks += ["F", "ok", ratlist(call["x"])]
            else:
                toks += ["F", "err", str(call.get("err"))]
        elif a == "query":
            toks += ["Q"]
        elif a == "jac":
            toks += ["J", str(act["mi"]), showstr(act["name"]), ratlist(act["sens"])]
    if all(sp["kind"] == "poly" for sp in case["models"]):
        return [" ".join(toks), " ".join(["c14.resid"] + toks[1:]), " ".join(["c14.fjac"] + toks[1:])]
    return [" ".join(toks)]


VARIANT = {"as-is": 0, "repaired": 0, "same": 0}


def _obs_agree(io, mo):
    """one observation: a fit that raised in the standard-error computation after the write-back is compared up to
    the write-back; a Jacobian probe may show the code's row or the chain-rule row (finding C14-C: the oracle, not the
    correspondence, says which one the property wants)"""
    if io.startswith("fit:ok") and "!post:" in io:
        io = io.split("!post:")[0]
    if io == "J:?":
        return True  # the probe could not be made by any route (private name gone, no analytic Jacobian in the fit): not an answer
    if mo.startswith("J[") and "!" in mo:
        a, b = mo.split("!")
        return io == a or io == "J" + b
    return io == mo


def _ans_agree(ia, ma):
    i, m = ia.split(";"), ma.split(";")
    return len(i) == len(m) and all(_obs_agree(a, b) for a, b in zip(i, m))


RESID_TOL = 1e-9  # DESIGN 2.2: the implementation's double against the exact rational, relative to the magnitude of the terms


def _flist(s_):
    """'[p/q,...]' -> floats (int/int true division is correctly rounded: the exact double when p/q is one)"""
    body = s_[1:-1]
    if body == "":
        return []
    out = []
    for x in body.split(","):
        p_, q_ = x.split("/")
        out.append(int(p_) / int(q_))
    return out


def _vec_close(iv, mv, sc):
    """implementation's residual vector (exact rationals of its doubles) against the model's exact one"""
    if len(iv) != len(mv) or len(sc) != len(mv):
        return False
    # doubles: each side is rounded by at most 1e-16 of the term magnitudes, far below the tolerance
    for a, b, s_ in zip(iv, mv, sc):
        if not abs(a - b) <= RESID_TOL * s_ + 1e-300:
            return False
    RESID["entries_compared_with_model"] += len(mv)
    RESID["vectors_compared_with_model"] += 1
    if mv and all(b == 0 for b in mv):
        RESID["vectors_all_zero(noise-free at the table values)"] += 1
    return True


def _resid_obs_agree(io, mo):
    if io in ("q?",):
        return True
    if io[:1] != mo[:1]:
        return False
    if io == "f-" or mo == "f-":
        return io == mo
    ip, mp = io[1:].split(">"), mo[1:].split(">")
    if len(ip) != len(mp):
        return False
    for a, b in zip(ip, mp):
        if not a.startswith("[") or "~" not in b:
            return False
        mv, sc = b.split("~")
        if "bad-float" in a:
            RESID["non_finite_entries_skipped"] += 1
            continue
        if not _vec_close(_flist(a), _flist(mv), _flist(sc)):
            return False
    return True


def parse_mat(s_):
    body = s_[1:-1]
    return [] if body == "" else [parse_ratlist("[" + r + "]") for r in body[1:-1].split("],[")]


def _jac_obs_agree(io, mo):
    if io in ("q?", "f2p"):
        if io == "f2p":
            RESID["jac:two-point(no analytic Jacobian)"] += 1
        return True
    if io[:1] != mo[:1]:
        return False
    if io == "f-" or mo == "f-":
        return io == mo
    if not io[1:].startswith("[") or "bad-float" in io:
        return False
    if io == mo:  # the toy sensitivities are exact dyadic numbers: normally the very same rationals
        RESID["jac:entries_compared_with_model"] += mo.count("/")
        RESID["jac:matrices_compared_with_model"] += 1
        return True
    a, b = parse_mat(io[1:]), parse_mat(mo[1:])
    if len(a) != len(b):
        return False
    for ra, rb in zip(a, b):
        if len(ra) != len(rb) or any(abs(x - y) > Fraction(RESID_TOL) * max(1, abs(y)) for x, y in zip(ra, rb)):
            return False
        RESID["jac:entries_compared_with_model"] += len(rb)
    RESID["jac:matrices_compared_with_model"] += 1
    return True


def _jac_agree(ia, ma):
    if ia == "" and ma == "":
        return True
    i, m = ia.split(";"), ma.split(";")
    return len(i) == len(m) and all(_jac_obs_agree(a, b) for a, b in zip(i, m))


def _resid_agree(ia, ma):
    if ia == "" and ma == "":
        return True
    i, m = ia.split(";"), ma.split(";")
    return len(i) == len(m) and all(_resid_obs_agree(a, b) for a, b in zip(i, m))


def agree(case, i, ia, ma):
    if case["op"] == "unique":
        return ia == ma
    if i == 1:
        return any(_resid_agree(ia, alt) for alt in ma.split(" || "))
    if i == 2:
        return any(_jac_agree(ia, alt) for alt in ma.split(" || "))
    alts = ma.split(" || ")
    if len(alts) == 1:
        if _ans_agree(ia, alts[0]):
            VARIANT["same"] += 1
            return True
        return False
    if _ans_agree(ia, alts[0]):
        VARIANT["as-is"] += 1
        return True
    if _ans_agree(ia, alts[1]):
        VARIANT["repaired"] += 1
        return True
    return False


# ------------------------------------------------------------------ oracle (plain Python from the property text)

KNOWN_CLASSES = ("sees[condition-string-collision]", "jacobian[duplicate-target]")


def parse_table(t):
    """'T[name:value:lb:ub:fixed,...]' -> list of (name, value, lb, ub, fixed) with exact Fractions / None"""
    body = t[2:-1]
    rows = []
    if body:
        for e in body.split(","):
            n, v, lo, hi, fx = e.split(":")
            rows.append((unshowstr(n), _frac(v), None if lo == "N" else _frac(lo), None if hi == "N" else _frac(hi), fx == "T"))
    return rows


def _frac(s):
    p, q = s.split("/")
    return Fraction(int(p), int(q))


def parse_ratlist(s):
    body = s[1:-1]
    return [] if body == "" else [_frac(x) for x in body.split(",")]


def parse_optratlist(s):
    body = s[1:-1]
    return [] if body == "" else [None if x == "N" else _frac(x) for x in body.split(",")]


def parse_query(o):
    """-> (table, per-model {dataset: (by index, by name)}); `parse_nres` reads the residual length, `parse_held`
    the samples the datasets hold"""
    t, l = o.split(" L", 1)
    l = l.rsplit(" R", 1)[0].rsplit(" D", 1)[0]
    table = parse_table(t)
    models = []
    for blk in l[1:-1].split("}{") if l else []:
        ds = {}
        if blk:
            for part in blk.split(" "):
                n, a, b = part.split("=")
                ds[unshowstr(n)] = (None if a == "missing" else parse_ratlist(a), None if "IndexError" in b else parse_ratlist(b))
        models.append(ds)
    return table, models


def parse_held(o):
    """per model {dataset: (x bit patterns, y bit patterns)} of a query"""
    h = o.rsplit(" R", 1)[0].rsplit(" D", 1)[1]
    models = []
    for blk in h[1:-1].split("}{") if h else []:
        ds = {}
        if blk:
            for part in blk.split(" "):
                n, a, b = part.split("=")
                ds[unshowstr(n)] = ([int(v) for v in a[1:-1].split(",") if v], [int(v) for v in b[1:-1].split(",") if v])
        models.append(ds)
    return models


def parse_nres(o):
    """length of the residual vector reported by a query (None: evaluating the residual raised)"""
    r = o.rsplit(" R", 1)[1]
    return int(r) if r.isdigit() else None


def in_bounds(v, lo, hi):
    return (lo is None or lo <= v) and (hi is None or v <= hi)


def cond_string(targets):
    return "|".join(str(t) for t in targets)


def _bits_to_frac(b):
    return Fraction(struct.unpack("<d", struct.pack("<Q", int(b)))[0])


def _oracle_resid(case, ia):
    """Clauses about the VALUES the fit evaluates, recomputed in plain Python from the property text (not from the
    model): (a) at every query the residual vector is, as a multiset, {y - sum_k p_k x^k} over the samples every
    dataset holds with p = the dataset's parameters read BY NAME from the table (a shared name: one value, a renamed
    one: its own, a constant: itself) - this is what "every dataset sees" means for the number the optimiser
    minimises; (b) the optimiser's contract used by the refit theorem: the sum of squares at its answer is not above
    the one at its start (asserted on every recorded call, like OptInBox); (c) re-fitting from a point where the
    residual is exactly zero (noise-free data at the optimum) ends with a residual that is still (numerically) zero."""
    obs = ia[0].split(";")
    res = ia[1].split(";") if ia[1] else []
    jcs = ia[2].split(";") if len(ia) > 2 and ia[2] else []
    pn = [model_param_names(sp) for sp in case["models"]]
    targets = [dict() for _ in case["models"]]  # per model: dataset -> what its model parameters are mapped to
    k = 0
    for act, o in zip(case["actions"], obs):
        if act["a"] == "add" and o == "add:ok":
            ov = act.get("ov", {})
            targets[act["mi"]][act["name"]] = [ov.get(p_, {"n": p_}) for p_ in pn[act["mi"]]]
        if act["a"] not in ("query", "fit"):
            continue
        # a wrong value on an input with a condition-string collision (O-C14-A, known finding) is reported under that class
        coll = False
        for tm in targets:
            tl = [[t["n"] if "n" in t else t["c"] for t in tg] for tg in tm.values()]
            cs = [cond_string(t) for t in tl]
            coll = coll or any(cs[i_] == cs[j_] and [type(v) for v in tl[i_]] + tl[i_] != [type(v) for v in tl[j_]] + tl[j_] for i_ in range(len(tl)) for j_ in range(i_))
        if act["a"] == "query" and k < len(jcs) and jcs[k].startswith("q[") and o.startswith("T[") and "bad-" not in jcs[k]:
            # (d) the Jacobian of the fit: the row of a sample x of a dataset has, in the column of the global parameter
            # n, minus the sum of x^k over ALL model parameters k the dataset maps to n (chain rule: one term per path),
            # zero in the column of a parameter the dataset does not use - compared as a multiset of rows
            names = [r_[0] for r_ in parse_table(o.split(" L", 1)[0])]
            jb = jcs[k][2:-1]
            got = _collections.Counter(jb[1:-1].split("],[")) if jb else _collections.Counter()
            exp = _collections.Counter()
            nexp = 0
            for mi_, hm in enumerate(parse_held(o)):
                for name, (xb, _) in hm.items():
                    tg = targets[mi_].get(name)
                    if tg is None:
                        exp = None
                        break
                    cols = [[j for j, t in enumerate(tg) if t.get("n") == n_] for n_ in names]
                    for b_ in xb:
                        xv = _bits_to_frac(b_)
                        pw = [xv**j for j in range(len(tg))]
                        row = [-sum((pw[j] for j in c_), Fraction(0)) for c_ in cols]
                        exp[",".join(f"{v.numerator}/{v.denominator}" for v in row)] += 1
                        nexp += 1
                if exp is None:
                    break
            if exp is not None:
                RESID["oracle:jac_rows_recomputed"] += nexp
                def _close_rows(g_, e_):
                    # not the very same rationals (an x whose powers are rounded in doubles): compare as numbers
                    gr = sorted(_flist("[" + r_ + "]") for r_ in g_.elements())
                    er = sorted(_flist("[" + r_ + "]") for r_ in e_.elements())
                    return len(gr) == len(er) and all(len(a_) == len(b_) and all(abs(u - v) <= RESID_TOL * max(1.0, abs(v)) for u, v in zip(a_, b_)) for a_, b_ in zip(gr, er))
                if got != exp and not _close_rows(got, exp):
                    bad = next(iter((got - exp).keys()), None)
                    return (("sees[condition-string-collision]: " if coll else "") + f"jacobian-matrix: d(residual)/d(parameters {names}) handed to the optimiser is not the chain-rule sum over the "
                            f"parameters each dataset maps to each name: {sum(got.values())} rows, expected {nexp}; a row that should not be there: [{bad}]")
        if k >= len(res):
            return f"residual: no residual observation for action {act['a']}"
        r = res[k]
        k += 1
        if act["a"] == "query":
            if r == "q?" or not o.startswith("T["):
                continue
            if not r.startswith("q["):
                return f"residual: the residual of the fit could not be evaluated at a query: {r[:120]}"
            if "bad-" in r:
                continue
            got = sorted(_flist(r[1:]))
            _, per = parse_query(o)
            held = parse_held(o)
            exp = []
            scale = 1.0
            skip = False
            for dsm, hm in zip(per, held):
                for name, (_, byname) in dsm.items():
                    if byname is None or name not in hm:
                        skip = True
                        continue
                    pf = [float(v) for v in byname]
                    for xb, yb in zip(*hm[name]):
                        xv = struct.unpack("<d", struct.pack("<Q", int(xb)))[0]
                        yv = struct.unpack("<d", struct.pack("<Q", int(yb)))[0]
                        terms = [pk * xv**j for j, pk in enumerate(pf)]
                        exp.append(yv - math.fsum(terms))
                        scale = max(scale, abs(yv) + math.fsum(abs(t) for t in terms))
            if skip:
                continue
            exp.sort()
            RESID["oracle:entries_recomputed"] += len(exp)
            if len(exp) != len(got) or any(not abs(a - b) <= RESID_TOL * scale for a, b in zip(got, exp)):
                return (("sees[condition-string-collision]: " if coll else "") + f"residual: the fit evaluates the residual {got[:12]} (sorted) but the samples the datasets hold and the "
                        f"parameters each dataset is mapped to (by name) give {exp[:12]}")
        else:
            if r == "f-" or ">" not in r or "bad-" in r or "raised" in r:
                continue
            a, b = r[1:].split(">")
            c0 = math.fsum(v * v for v in _flist(a))
            c1 = math.fsum(v * v for v in _flist(b))
            RESID["oracle:descent_checked"] += 1
            # absolute slack: TRF moves a start that lies ON a bound strictly inside (relative step 1e-10) and stops on
            # tolerances of 1e-8, so from an exactly zero residual it may end at ~1e-10 of the data scale, not at 0
            ymax = max([1.0] + [abs(v) for a_ in case["actions"] if a_["a"] == "add" for v in a_["y"] if not math.isnan(v)])
            # relative slack: at a bound-constrained optimum TRF returns the start moved inside by ~1e-9 (thorough seed 0:
            # 1.2500000000001 -> 1.2500000027)
            if not c1 <= c0 * (1 + 1e-6) + max(1, len(_flist(b))) * (1e-6 * ymax) ** 2:
                return f"optimiser-contract: least_squares answered a point with a larger sum of squares ({float(c1)!r}) than its start ({float(c0)!r})"
            if c0 == 0:
                RESID["oracle:refit_from_zero_residual"] += 1
    return None


def oracle(case, ia):
    try:
        r = _oracle(case, ia)
        if r is None and case["op"] == "script" and len(ia) > 1:
            r = _oracle_resid(case, ia)
        return r
    except Exception as e:  # an observation the oracle cannot read is not an acceptable answer
        return f"unreadable: the implementation's observations could not be interpreted ({e!r}): {ia[0][:300]}"


def _oracle(case, ia):
    if case["op"] == "unique":
        names = case["names"]
        seen = []
        for n in names:
            if n not in seen:
                seen.append(n)
        exp = "[" + ",".join(showstr(s) for s in seen) + "] [" + ",".join(str(seen.index(n)) for n in names) + "]"
        return None if ia[0] == exp else f"unique: first-occurrence de-duplication of {names} is {exp}, implementation says {ia[0]}"
    obs = ia[0].split(";")
    acts = case["actions"]
    if len(obs) != len(acts):
        return f"harness-bug: {len(obs)} observations for {len(acts)} actions"
    k = _key(case)
    mtab = _CACHE[k][1] if k in _CACHE else None
    pnames = []
    for i, spec in enumerate(case["models"]):
        names = model_param_names(spec)
        if names is None:
            names = [n for n, _ in mtab[i]]
        pnames.append(names)
    fails = []

    def fail(cid, msg):
        fails.append(f"{cid}: {msg}")

    data = [[] for _ in case["models"]]  # per model: list of (dsname, [targets], nvalid, x0, sorted valid sample pairs as bit patterns)
    all_names = []  # str targets so far (first-occurrence order irrelevant here)
    E = {}  # what the oracle knows about parameters: name -> dict(field -> value)
    prevT = None  # table of the immediately preceding query (None once anything happened in between)
    truth = case.get("truth")
    last_fit_free = None
    for idx, (act, o) in enumerate(zip(acts, obs)):
        a = act["a"]
        if a == "add":
            mi = act["mi"]
            names = pnames[mi]
            ov = act.get("ov", {})
            if any(d[0] == act["name"] for d in data[mi]):
                exp = "add:KeyError"
            elif len(act["x"]) != len(act["y"]):
                exp = "add:ValueError"
            elif any(key not in names for key in ov):
                exp = "add:KeyError"
            else:
                exp = "add:ok"
                targets = []
                for pn in names:
                    t = ov.get(pn)
                    targets.append(pn if t is None else (t["n"] if "n" in t else t["c"]))
                valid = [(xv, yv) for xv, yv in zip(act["x"], act["y"]) if not (math.isnan(xv) or math.isnan(yv))]
                data[mi].append((act["name"], targets, len(valid), valid[0][0] if valid else None, sorted((bits(xv), bits(yv)) for xv, yv in valid)))
                for t in targets:
                    if isinstance(t, str) and t not in all_names:
                        all_names.append(t)
            if o != exp:
                fail("add", f"action {idx}: expected {exp}, implementation says {o}")
            prevT = None
        elif a == "set":
            exp = "set:ok" if act["name"] in all_names else "set:IndexError"
            if o != exp:
                fail("set", f"action {idx}: expected {exp}, implementation says {o}")
            if exp == "set:ok":
                v = act["v"]
                E.setdefault(act["name"], {})[act["f"]] = (None if v is None else (bool(v) if act["f"] == "fixed" else Fraction(v)))
            prevT = None
        elif a == "query":
            try:
                table, loc = parse_query(o)
            except Exception as e:  # an implementation answer the oracle cannot read is a failure of the case
                fail("query", f"action {idx}: unreadable observation {o[:200]} ({e!r})")
                prevT = None
                continue
            tn = [r[0] for r in table]
            if len(set(tn)) != len(tn) or set(tn) != set(all_names):
                fail("table-names", f"action {idx}: table has {tn}, the datasets name {all_names}")
            T = {r[0]: r for r in table}
            # what was set / fitted earlier is still there
            for n, flds in E.items():
                if n in T:
                    _, v, lo, hi, fx = T[n]
                    got = {"value": v, "lb": lo, "ub": hi, "fixed": fx}
                    for f, ev in flds.items():
                        if got[f] != ev:
                            fail("kept", f"action {idx}: parameter {n!r} {f} is {got[f]} but was last set/fitted to {ev}")
            for r in table:
                E[r[0]] = {"value": r[1], "lb": r[2], "ub": r[3], "fixed": r[4]}
            # every dataset added so far is seen: the residual the fit evaluates now has one entry per valid point of
            # every dataset (further data must not leave the fit looking at what it evaluated before)
            npts_now = sum(d[2] for dsl in data for d in dsl)
            nres = parse_nres(o)
            if nres is None:
                fail("sees-residual", f"action {idx}: evaluating the residual of the fit raised ({o.rsplit(' R', 1)[1]})")
            elif nres != npts_now:
                fail("sees-residual", f"action {idx}: the datasets added so far hold {npts_now} valid points ({[(d[0], d[2]) for dsl in data for d in dsl]}), the residual the fit evaluates has {nres} entries: not every dataset is seen")
            # every dataset holds the valid samples that were handed over when it was added - whatever was added, set,
            # fitted or asked since, and whatever the caller has done with its own arrays in the meantime (a fit is
            # about the data it was given: the generating values cannot come back, and further data cannot leave the
            # optimum alone, if a dataset that is already part of the fit turns into something else)
            try:
                held = parse_held(o)
            except Exception as e:
                held = None
                fail("holds", f"action {idx}: unreadable observation of the held samples {o[-200:]} ({e!r})")
            if held is not None:
                for mi, dsl in enumerate(data):
                    for dn, _, nvalid, _, pairs in dsl:
                        if mi >= len(held) or dn not in held[mi]:
                            fail("holds", f"action {idx}: dataset {dn!r} of model {mi} is not among the data of the fit")
                            continue
                        hx, hy = held[mi][dn]
                        if len(hx) != len(hy) or sorted(zip(hx, hy)) != pairs:
                            unb = lambda b: struct.unpack("<d", struct.pack("<Q", b))[0]
                            fail("holds", f"action {idx}: dataset {dn!r} (model {mi}) was added with the {nvalid} valid samples {[(unb(a), unb(b)) for a, b in pairs][:6]}…, "
                                 f"the fit now holds {len(hx)}/{len(hy)} samples {[(unb(a), unb(b)) for a, b in sorted(zip(hx, hy))][:6]}… although nothing changed it through the fit")
            # every dataset sees the table entry of the name it is mapped to, or its constant
            for mi, dsl in enumerate(data):
                strs = [cond_string(d[1]) for d in dsl]
                for di, (dn, targets, _, _, _) in enumerate(dsl):
                    collision = any(strs[j] == strs[di] and [type(x) for x in dsl[j][1]] + list(dsl[j][1]) != [type(x) for x in targets] + list(targets) for j in range(len(dsl)))
                    if mi >= len(loc) or dn not in loc[mi]:
                        fail("sees", f"action {idx}: dataset {dn!r} of model {mi} is not evaluated")
                        continue
                    if any(isinstance(t, str) and t not in T for t in targets):
                        continue  # already reported by table-names
                    exp = [T[t][1] if isinstance(t, str) else Fraction(t) for t in targets]
                    byidx, byname = loc[mi][dn]
                    cid = "sees[condition-string-collision]" if collision else "sees"
                    if byidx != exp:
                        fail(cid, f"action {idx}: dataset {dn!r} (model {mi}) maps its parameters to {targets}; the residual is evaluated with {[str(v) for v in byidx or []]}, the table says {[str(v) for v in exp]}")
                    if byname != exp:
                        fail(cid, f"action {idx}: dataset {dn!r} (model {mi}) maps its parameters to {targets}; get_params gives {[str(v) for v in byname or []]}, the table says {[str(v) for v in exp]}")
            # recovery (EXPLORATION): after a fit on noise-free data the generating values are back
            chk = act.get("check")
            if chk and truth is not None:
                tol = act.get("tol", 1e-3)
                for n, tv in truth.items():
                    if n in T and not T[n][4]:
                        if abs(float(T[n][1]) - tv) > tol * max(abs(tv), 1e-12):
                            fail("recover", f"action {idx} ({chk}): {n!r} = {float(T[n][1])!r}, generating value {tv!r} (rel tol {tol})")
            prevT = table
        elif a == "fit":
            Tb = prevT
            nxt = None
            if idx + 1 < len(acts) and acts[idx + 1]["a"] == "query":
                try:
                    nxt = parse_query(obs[idx + 1])[0]
                except Exception:
                    nxt = None
            npoints = sum(d[2] for dsl in data for d in dsl)
            parts = o.split(":")
            head = parts[1].split("!")[0] if len(parts) > 1 else ""
            ran = o.startswith("fit:ok:")
            optimiser_called = len(parts) >= 5
            if Tb is not None:
                free = [r for r in Tb if not r[4]]
                if npoints == 0 or not free:
                    exp = "RuntimeError"
                elif any(not in_bounds(r[1], r[2], r[3]) for r in free):
                    exp = "ValueError"
                else:
                    exp = None
                if exp is not None:
                    if optimiser_called or head != exp:
                        fail("fit-refused", f"action {idx}: expected {exp} before the optimiser is called (points {npoints}, free {[r[0] for r in free]}), implementation says {o[:120]}")
                elif not optimiser_called:
                    fail("fit-refused", f"action {idx}: start point is feasible and there is data, but fit answered {o[:120]}")
                if optimiser_called:
                    x0 = parse_ratlist(parts[2])
                    lb = parse_optratlist(parts[3])
                    ub = parse_optratlist(parts[4])
                    if x0 != [r[1] for r in free] or lb != [r[2] for r in free] or ub != [r[3] for r in free]:
                        fail("fit-call", f"action {idx}: the optimiser was not started from the free parameters with their bounds: {o[:200]}")
            if optimiser_called and not ran:
                # the optimiser was started and raised: with finite data, a start inside a box with lb < ub there is
                # nothing it may complain about (a box with lb >= ub is refused by SciPy itself) - a fit that is
                # entitled to run has to run to the end
                lb = parse_optratlist(parts[3])
                ub = parse_optratlist(parts[4])
                if all(lo is None or hi is None or lo < hi for lo, hi in zip(lb, ub)):
                    fail("fit-raised", f"action {idx}: fit raised {head} inside the optimiser although there are {npoints} valid points and the start {[float(v) for v in parse_ratlist(parts[2])]} lies in the non-degenerate box [{[None if v is None else float(v) for v in lb]}, {[None if v is None else float(v) for v in ub]}]")
            if ran and "!post:" in o and truth is not None:
                # noise-free data of the built-in models: the fit has to return (the standard errors are not compared,
                # but fit() must not raise while it computes them)
                fail("fit-raised", f"action {idx}: fit raised {o.split('!post:')[1]} after the optimiser had answered")
            if ran:
                x = parse_ratlist(parts[5].split("!")[0])
                lb = parse_optratlist(parts[3])
                ub = parse_optratlist(parts[4])
                if len(x) != len(lb) or any(not in_bounds(v, lo, hi) for v, lo, hi in zip(x, lb, ub)):
                    fail("optimiser-contract", f"action {idx}: least_squares answered a point outside its box: {o[:200]}")
                if Tb is not None and nxt is not None:
                    if [r[0] for r in nxt] != [r[0] for r in Tb]:
                        fail("fit-table", f"action {idx}: the table changed its names/order across fit")
                    else:
                        kk = 0
                        for rb, ra in zip(Tb, nxt):
                            if rb[4]:
                                if ra != rb:
                                    fail("fixed", f"action {idx}: fixed parameter {rb[0]!r} changed across fit: {rb[1:]} -> {ra[1:]}")
                            else:
                                if ra[2:] != rb[2:]:
                                    fail("fit-table", f"action {idx}: bounds/flag of {rb[0]!r} changed across fit")
                                if kk < len(x) and ra[1] != x[kk]:
                                    fail("write-back", f"action {idx}: {rb[0]!r} is {ra[1]} after the fit, the optimiser answered {x[kk]}")
                                if not in_bounds(ra[1], ra[2], ra[3]):
                                    fail("bounds", f"action {idx}: fitted {rb[0]!r} = {ra[1]} outside [{ra[2]}, {ra[3]}]")
                                kk += 1
                if Tb is not None:
                    kk = 0
                    for rb in Tb:
                        if not rb[4]:
                            if kk < len(x):
                                E[rb[0]] = {"value": x[kk], "lb": rb[2], "ub": rb[3], "fixed": False}
                            kk += 1
                else:
                    for n in E:
                        E[n].pop("value", None)
            else:
                if Tb is not None and nxt is not None and nxt != Tb:
                    fail("failed-fit-wrote", f"action {idx}: fit ended with {o[:60]} but the table changed")
            prevT = None
        elif a == "jac":
            Tb = prevT
            if Tb is not None and o.startswith("J["):
                mi = act["mi"]
                ent = [d for d in data[mi] if d[0] == act["name"]]
                if ent:
                    _, targets, nvalid, _, _ = ent[0]
                    row = parse_ratlist(o[1:].split("!")[0])
                    sens = [Fraction(v) for v in act["sens"]]
                    exp = []
                    for r in Tb:
                        exp.append(-sum((s for s, t in zip(sens, targets) if isinstance(t, str) and t == r[0]), Fraction(0)))
                    strs = [t for t in targets if isinstance(t, str)]
                    dup = len(set(strs)) != len(strs)
                    if row != exp:
                        fail("jacobian[duplicate-target]" if dup else "jacobian", f"action {idx}: d(residual)/d(parameters) of dataset {act['name']!r} should be {[str(v) for v in exp]} (chain rule over {targets}), the fit's Jacobian has {[str(v) for v in row]}")
            # prevT stays valid: a probe changes nothing
        else:
            return f"harness-bug: unknown action {a}"
    if not fails:
        return None
    unknown = [f for f in fails if f.split(":")[0] not in KNOWN_CLASSES]
    return (unknown or fails)[0]


def tags(case, r):
    c = r.get("clause") or ""
    return {"op": case["op"], "clause_id": c.split(":")[0] if c else None}


def nontrivial(case, ia):
    if case["op"] == "unique":
        return len(set(case["names"])) < len(case["names"])
    o = ia[0]
    nds = sum(1 for a in case["actions"] if a["a"] == "add")
    has_ov = any(a.get("ov") for a in case["actions"] if a["a"] == "add")
    return ("fit:ok" in o and (nds >= 2 or has_ov or ":T]" in o or ":T," in o)) or "Error" in o or (nds >= 2 and has_ov)


def shrink(case):
    if case["op"] != "script":
        return
    acts = case["actions"]
    for i in range(len(acts) - 1, -1, -1):
        c = dict(case)
        c["actions"] = acts[:i] + acts[i + 1 :]
        yield c
    for i, a in enumerate(acts):
        if a["a"] == "add" and len(a["x"]) > 2 and len(a["x"]) == len(a["y"]):
            c = dict(case)
            b = dict(a)
            b["x"] = a["x"][: len(a["x"]) // 2 + 1]
            b["y"] = a["y"][: len(a["y"]) // 2 + 1]
            c["actions"] = acts[:i] + [b] + acts[i + 1 :]
            yield c
        if a["a"] == "add" and ("hand" in a or "then" in a):
            for key in ("then", "hand"):
                if key in a:
                    c = dict(case)
                    c["actions"] = acts[:i] + [{k2: v for k2, v in a.items() if k2 != key}] + acts[i + 1 :]
                    yield c
        if a["a"] == "add" and a.get("ov"):
            for key in list(a["ov"]):
                c = dict(case)
                b = dict(a)
                b["ov"] = {k2: v for k2, v in a["ov"].items() if k2 != key}
                c["actions"] = acts[:i] + [b] + acts[i + 1 :]
                yield c


# ------------------------------------------------------------------ generators

XS = [0.0, 1.0, 2.0, 3.0, -1.0, 0.5, 4.0, -2.0, 1.5, 2.5, 5.0, -0.5]


def poly_y(coef, x):
    return [float(sum(c * xv**k for k, c in enumerate(coef))) for xv in x]


def poly_spec(name, args, defaults=None, shared=(), jac=True):
    return {"kind": "poly", "name": name, "args": list(args), "defaults": defaults or {}, "shared": list(shared), "jac": jac}


def add_action(mi, name, x, coef, ov=None, y=None):
    a = {"a": "add", "mi": mi, "name": name, "x": list(x), "y": poly_y(coef, x) if y is None else list(y)}
    if ov:
        a["ov"] = ov
    return a


def sens_for(act, nargs):
    """local sensitivities of a polynomial model at the first valid data point"""
    for xv, yv in zip(act["x"], act["y"]):
        if not (math.isnan(xv) or math.isnan(yv)):
            return [float(xv**k) for k in range(nargs)]
    return None


Q = {"a": "query"}
F = {"a": "fit"}


def S(name, f, v):
    return {"a": "set", "name": name, "f": f, "v": v}


def script(stream, models, actions, **kw):
    c = {"stream": stream, "op": "script", "models": models, "actions": actions}
    c.update(kw)
    return c


def with_hand(act, hand=None, then=None):
    """a copy of an add action with the way its samples are handed over / re-used by the caller"""
    b = dict(act)
    if hand is not None and hand != "fresh":
        b["hand"] = hand
    if then is not None:
        b["then"] = then
    return b


def assign_handover(case, h):
    """how the caller hands the samples of every dataset over and what it does with them afterwards (drawn from a
    fork `h`, so the script itself is what it always was): per script one of three habits - every dataset through
    the script's ONE pair of re-used buffers (the acquisition buffer that is refilled for every curve), every
    dataset as fresh arrays, or a mix of all four forms - and after 1 in 3 hand-overs the caller overwrites what it
    handed over as soon as `add_data` has returned"""
    habit = h.choice(["buffer", "buffer", "fresh", "mixed", "mixed"])
    acts = []
    for a in case["actions"]:
        if a["a"] == "add":
            hand = habit if habit != "mixed" else h.choice(HANDS)
            a = with_hand(a, hand, "overwrite" if h.chance(1 / 3) else None)
        acts.append(a)
    case["actions"] = acts
    return case


NUMBER_TYPES = ["float", "whole-as-int", "all-int"]


def _as_int(v, how=round):
    """a number typed the way a user types a whole number: 2, not 2.0 (`how` decides where a non-whole one goes)"""
    if v is None or isinstance(v, bool):
        return v
    return int(how(v))


def _whole_as_int(v):
    return int(v) if isinstance(v, float) and math.isfinite(v) and v == int(v) and abs(v) < 2**53 else v


def assign_number_types(case, habit):
    """The Python TYPE of the numbers the user types (none of this is an action on the fit; a parameter table is a
    table of numbers whatever their type): 'float' - as generated; 'whole-as-int' - every whole number among the model
    defaults (value, bounds) and the set actions (value, lb, ub) is typed as an int (2 instead of 2.0); 'all-int' - a
    user who thinks in whole numbers: every model argument gets an explicit default, and every value / bound of the
    defaults and of the set actions is a Python int (values rounded, lower bounds rounded down, upper bounds up), so
    that until the first fit has written its answer the WHOLE parameter table holds ints."""
    if habit == "float":
        return case
    case["number_types"] = habit
    allint = habit == "all-int"
    models = []
    for sp in case["models"]:
        if sp.get("kind") != "poly":
            models.append(sp)
            continue
        sp = dict(sp)
        dfl = {}
        for a in sp["args"]:
            d = sp.get("defaults", {}).get(a)
            if d is None:
                if allint:
                    dfl[a] = [0, None, None, False]  # what Parameter() says, typed as ints
                continue
            v, lo, hi, fx = d
            if allint:
                dfl[a] = [_as_int(v), _as_int(lo, math.floor), _as_int(hi, math.ceil), fx]
            else:
                dfl[a] = [_whole_as_int(v), _whole_as_int(lo), _whole_as_int(hi), fx]
        sp["defaults"] = dfl
        models.append(sp)
    case["models"] = models
    acts = []
    for a in case["actions"]:
        if a["a"] == "set" and a["f"] in ("value", "lb", "ub") and a["v"] is not None:
            a = dict(a)
            if allint:
                a["v"] = _as_int(a["v"], {"value": round, "lb": math.floor, "ub": math.ceil}[a["f"]])
            else:
                a["v"] = _whole_as_int(a["v"])
        acts.append(a)
    case["actions"] = acts
    return case


def corpus_files():
    """corpus/C14/*.json: the inputs of the observations/findings, kept as files and run first forever"""
    import glob
    import os

    d = os.path.join(os.path.dirname(os.path.dirname(os.path.abspath(__file__))), "corpus", "C14")
    for f in sorted(glob.glob(os.path.join(d, "*.json"))):
        c = json.load(open(f))
        c["stream"] = "corpus"
        yield c


def corpus_cases():
    x = XS[:4]
    M = poly_spec("M", ["a", "b"], {"a": [1.0, None, None, False], "b": [2.0, -5.0, 5.0, False]})
    # the worked example: sharing, renaming, a constant, a fit, a Jacobian probe
    a1 = add_action(0, "d1", x, [1, 3])
    a2 = add_action(0, "d2", x, [2, 3], {"M/a": {"n": "M/a2"}})
    a3 = add_action(0, "d3", x, [5, 3], {"M/a": {"c": 5}})
    yield script("corpus", [M], [Q, a1, Q, a2, a3, Q, F, Q, {"a": "jac", "mi": 0, "name": "d2", "sens": sens_for(a2, 2)}, F, Q])
    # the same through ONE pair of buffers the caller refills for every dataset, with fits in between; and every
    # form of hand-over with the caller overwriting its arrays as soon as add_data has returned
    yield script("corpus", [M], [with_hand(a1, "buffer"), Q, F, Q, with_hand(a2, "buffer"), Q, F, Q, with_hand(a3, "buffer"), Q, F, Q])
    for hand in HANDS:
        yield script("corpus", [M], [with_hand(a1, hand, "overwrite"), Q, F, Q, with_hand(a2, hand, "overwrite"), Q, F, Q])
    # O-C14-A: a parameter NAMED like a constant prints the same condition string
    yield script("corpus", [M], [add_action(0, "d1", x, [5, 3], {"M/a": {"c": 5}}), add_action(0, "d2", x, [1, 3], {"M/a": {"n": "5"}}), Q])
    yield script("corpus", [M], [add_action(0, "d1", x, [1, 3], {"M/a": {"n": "x|y"}, "M/b": {"n": "z"}}), add_action(0, "d2", x, [1, 3], {"M/a": {"n": "x"}, "M/b": {"n": "y|z"}}), S("x|y", "value", 10.0), S("x", "value", 20.0), Q])
    # O-C14-B: a model without data in front of one with data (defaults by position)
    A = poly_spec("A", ["off"], {"off": [0.01, -0.1, 0.1, False]})
    B = poly_spec("B", ["Lp", "Lc", "kT"], {"Lp": [40.0, 0.001, 100.0, False], "Lc": [16.0, 0.00034, None, False], "kT": [4.11, 3.77, 8.0, True]}, shared=["kT"])
    bx = add_action(1, "d", XS[:6], [1, 2, 3])
    yield script("corpus", [A, B], [bx, Q])
    yield script("corpus", [A, B], [bx, Q, add_action(0, "e", x, [0.5]), Q, F, Q])
    yield script("corpus", [B, A], [add_action(0, "d", XS[:6], [1, 2, 3]), Q])
    # O-C14-C: two parameters of one dataset mapped to one name: the Jacobian scatter keeps one contribution
    ad1 = add_action(0, "d1", [1.0, 2.0, 3.0, 4.0, 5.0], [3, 3], {"M/b": {"n": "M/a"}})
    yield script("corpus", [M], [ad1, Q, {"a": "jac", "mi": 0, "name": "d1", "sens": [1.0, 1.0]}])
    yield script("corpus", [M], [ad1, Q, {"a": "jac", "mi": 0, "name": "d1", "sens": [1.0, 1.0]}, F, Q])
    # adding to an earlier model can reorder names of a later model (entries are kept by name)
    P1 = poly_spec("P", ["p", "q"], {"p": [1.0, None, None, False], "q": [2.0, None, None, False]})
    P2 = poly_spec("R", ["r", "q"], {"r": [3.0, None, None, False], "q": [4.0, 0.0, 9.0, True]})
    yield script("corpus", [P1, P2], [
        add_action(0, "a", x, [1, 1], {"P/q": {"n": "P/p"}}), add_action(1, "c", x, [1, 1]), Q, S("R/r", "value", 7.5), S("R/q", "ub", 8.0), Q,
        add_action(0, "b", x, [1, 1], {"P/p": {"n": "R/q"}, "P/q": {"n": "R/r"}}), Q])
    # errors
    yield script("corpus", [M], [F, Q, a1, a1, add_action(0, "e", x, [1, 1], {"M/c": {"n": "z"}}), add_action(0, "f", x, [1, 1], y=[1.0]), S("nope", "value", 1.0), Q,
                                 S("M/a", "fixed", True), S("M/b", "fixed", True), Q, F, Q, S("M/b", "fixed", False), S("M/b", "value", 6.0), Q, F, Q,
                                 S("M/b", "value", 5.0), S("M/b", "lb", 5.0), Q, F, Q])
    # the TYPE of the numbers: whole-number defaults / starting guesses / bounds typed as Python ints, so that the whole
    # table holds ints when the fit starts (noise-free data whose optimum is NOT whole): one dataset; a global fit with
    # a shared slope and renamed intercepts; a fixed int next to a free int; a refit; ints set again after a fit
    Mi = poly_spec("M", ["a", "b"], {"a": [1, None, None, False], "b": [2, -5, 5, False]})
    xi = [0.0, 0.5, 1.0, 1.5, 2.0, 2.5, 3.0, 3.5, 4.0]
    i1 = add_action(0, "first", xi, [7.25, 2.375])
    i2 = add_action(0, "second", xi, [-1.625, 2.375], {"M/a": {"n": "M/a_2"}})
    yield script("corpus", [Mi], [i1, Q, F, Q, F, Q], number_types="all-int")
    yield script("corpus", [Mi], [i1, i2, S("M/a", "value", 7), S("M/a_2", "value", -2), S("M/b", "value", 2), Q, F, Q, F, Q,
                                  S("M/a", "value", 7), S("M/a_2", "value", -2), S("M/b", "value", 2), Q, F, Q], number_types="all-int")
    yield script("corpus", [Mi], [add_action(0, "first", xi, [7.25, 3.0]), S("M/b", "value", 3), S("M/b", "fixed", True), S("M/a", "value", 7), Q, F, Q], number_types="all-int")
    yield script("corpus", [poly_spec("off", ["c"], {"c": [0, -1, 1, False]})], [add_action(0, "no tether", xi, [0.0375]), Q, F, Q, S("off/c", "value", 0), Q, F, Q], number_types="all-int")
    # only NaN data: no residuals
    yield script("corpus", [M], [add_action(0, "d1", x, [1, 1], y=[float("nan")] * 4), Q, F, Q])
    yield {"stream": "corpus", "op": "unique", "names": ["a", "b", "a", "c", "b"]}
    yield {"stream": "corpus", "op": "unique", "names": []}


TARGET_KINDS = ["own", "ren", "shared", "const", "other"]


def small_scope(tier):
    """one model y = a + b x, up to 2 (quick) / 3 (thorough) datasets, every combination of target kinds per parameter
    and dataset, fixing / bounding patterns; adds, query, Jacobian probe, fit, query, refit, query"""
    quick = tier == "quick"
    import itertools

    M = poly_spec("M", ["a", "b"], {"a": [1.0, None, None, False], "b": [2.0, -50.0, 50.0, False]})
    names = ["M/a", "M/b"]
    nds_list = [1, 2] if quick else [1, 2, 3]
    for nds in nds_list:
        kinds = TARGET_KINDS if (not quick and nds < 3) else ["own", "ren", "const", "other"]
        for ci, combo in enumerate(itertools.product(itertools.product(kinds, repeat=2), repeat=nds)):
            if nds == 3 and sum(k == "own" for c in combo for k in c) > 3:
                continue
            acts = []
            tnames = []
            for di, kk in enumerate(combo):
                ov = {}
                for pi, kd in enumerate(kk):
                    pn = names[pi]
                    if kd == "ren":
                        ov[pn] = {"n": f"{pn}_{di}"}
                    elif kd == "shared":
                        ov[pn] = {"n": "S"}
                    elif kd == "const":
                        ov[pn] = {"c": [1.0, 3][pi] + di}
                    elif kd == "other":
                        ov[pn] = {"n": names[1 - pi]}
                for pn in names:
                    t = ov.get(pn, {"n": pn})
                    if "n" in t and t["n"] not in tnames:
                        tnames.append(t["n"])
                coef = [1.0 + di, 3.0]
                # the form of the hand-over rotates with the layout (all four forms meet every position; the caller
                # overwrites its arrays after every third one)
                acts.append(with_hand(add_action(0, f"d{di}", XS[1 : 6 + di], coef, ov), HANDS[(ci + di) % 4], "overwrite" if (ci // 4 + di) % 3 == 0 else None))
            for fixpat in ([ci % 3] if nds == 3 else range(3 if not quick else 2)):
                post = [Q]
                if fixpat == 1 and tnames:
                    post = [S(tnames[0], "fixed", True), S(tnames[0], "value", 1.5), Q]
                elif fixpat == 2 and tnames:
                    post = [S(tnames[-1], "lb", 0.0), S(tnames[-1], "ub", 2.5), S(tnames[-1], "value", 2.0), Q]
                probe = [{"a": "jac", "mi": 0, "name": "d0", "sens": sens_for(acts[0], 2)}]
                # ... and further data with the layout of an existing dataset (no new parameter, nothing set in
                # between: the fit object goes from "just fitted" straight to "more data" to "fit again")
                src = acts[ci % nds]
                more = with_hand(add_action(0, "more", XS[3:8], [1.0 + ci % nds, 3.0], src.get("ov")), HANDS[(ci + 1) % 4], "overwrite" if ci % 2 else None)
                # the type of the numbers rotates with layout and pattern: as written above (floats), whole numbers
                # typed as ints (pattern 0: the whole table holds ints when the first fit starts), ints throughout
                yield assign_number_types(script("small-scope", [M], acts + post + probe + [F, Q, F, Q, more, Q, F, Q]), NUMBER_TYPES[(ci + fixpat) % 3])


NAME_POOL = ["x", "y", "shared", "M/a_2", "DNA/Lc_RecA", "λ/Lc", "k T", "", "a.b", "P/c0"]
CONSTS = [5, 5.0, 0, 0.0, -1.5, 2, 1e-3, 1e6, 0.1, 3.25]


def random_script(rng, stream="random"):
    nm = rng.choice([1, 1, 1, 2, 2, 3])
    models = []
    argpool = ["a", "b", "c", "d"]
    for mi in range(nm):
        na = rng.randint(1, 4)
        args = argpool[:na]
        shared = []
        dfl = {}
        if rng.chance(0.4):
            args = args + ["kT"]
            shared = ["kT"]
            dfl["kT"] = [4.11, 3.77, 8.0, rng.chance(0.7)]
        for a in args:
            if a != "kT" and rng.chance(0.7):
                v = rng.choice([0.0, 1.0, 2.0, -3.0, 0.5])
                lo = None if rng.chance(0.5) else v - rng.choice([0.0, 1.0, 10.0])
                hi = None if rng.chance(0.5) else v + rng.choice([0.0, 1.0, 10.0])
                dfl[a] = [v, lo, hi, rng.chance(0.15)]
        models.append(poly_spec(["M", "N", "DNA"][mi], args, dfl, shared, jac=rng.chance(0.8)))
    pn = [model_param_names(m) for m in models]
    acts = []
    names_now = []
    ds_names = [[] for _ in models]
    nadds = rng.randint(1, 4)
    pending = []
    for k in range(nadds):
        mi = rng.randint(0, nm - 1)
        names = pn[mi]
        ov = {}
        for p in names:
            c = rng.randint(0, 9)
            if c <= 3:
                continue
            if c <= 5:
                ov[p] = {"n": f"{p}_{k}"}
            elif c == 6:
                ov[p] = {"n": rng.choice(NAME_POOL)}
            elif c == 7:
                ov[p] = {"c": rng.choice(CONSTS)}
            elif c == 8:
                ov[p] = {"n": rng.choice(names)}
            else:
                other = pn[rng.randint(0, nm - 1)]
                ov[p] = {"n": rng.choice(other)}
        npts = rng.randint(len(names) + 2, len(names) + 7)
        x = [rng.choice(XS) + rng.choice([0.0, 0.25, 10.0]) for _ in range(npts)]
        coef = [rng.choice([0.0, 1.0, -2.0, 0.5, 3.0]) for _ in names]
        y = poly_y(coef, x)
        if rng.chance(0.15):
            j = rng.randint(0, npts - 1)
            if rng.chance(0.5):
                x[j] = float("nan")
            else:
                y[j] = float("nan")
        dsn = f"d{k}" if not rng.chance(0.05) or not ds_names[mi] else rng.choice(ds_names[mi])
        a = {"a": "add", "mi": mi, "name": dsn, "x": x, "y": y}
        if ov:
            a["ov"] = ov
        if rng.chance(0.03):
            a["ov"] = dict(ov, **{"nope/" + names[0]: {"n": "z"}})
        if rng.chance(0.03):
            a["y"] = y[:-1]
        pending.append((a, len(names), models[mi]["jac"]))
    # interleave
    for k, (a, nargs, hasjac) in enumerate(pending):
        acts.append(a)
        ok = a["name"] not in ds_names[a["mi"]] and len(a["x"]) == len(a["y"]) and all(key in pn[a["mi"]] for key in a.get("ov", {}))
        if ok:
            ds_names[a["mi"]].append(a["name"])
            for p in pn[a["mi"]]:
                t = a.get("ov", {}).get(p, {"n": p})
                if "n" in t and t["n"] not in names_now:
                    names_now.append(t["n"])
        if rng.chance(0.5):
            acts.append(Q)
        nset = rng.choice([0, 0, 1, 2, 3])
        for _ in range(nset):
            if not names_now or rng.chance(0.04):
                acts.append(S("unknown" + str(rng.randint(0, 9)), "value", 1.0))
                continue
            n = rng.choice(names_now)
            c = rng.randint(0, 9)
            if c <= 2:
                acts.append(S(n, "value", rng.choice([0.0, 1.0, -1.0, 2.5, 100.0, 0.3, 7.0])))
            elif c <= 4:
                acts.append(S(n, "fixed", rng.chance(0.6)))
            elif c <= 6:
                acts.append(S(n, "lb", rng.choice([None, -10.0, 0.0, 1.0, 2.5, -1e6])))
            elif c <= 8:
                acts.append(S(n, "ub", rng.choice([None, 10.0, 0.0, 1.0, 2.5, 1e6])))
            else:
                v = rng.choice([0.0, 1.0, 2.5])
                acts += [S(n, "lb", v - rng.choice([0.0, 0.0, 1.0])), S(n, "ub", v + rng.choice([0.0, 1.0])), S(n, "value", v)]
        if k == len(pending) - 1 or rng.chance(0.35):
            pre = rng.chance(0.85)
            if pre:
                acts.append(Q)
            if ok and hasjac and pre and rng.chance(0.5):
                s = sens_for(a, nargs)
                if s is not None:
                    acts.append({"a": "jac", "mi": a["mi"], "name": a["name"], "sens": s})
            acts.append(F)
            if rng.chance(0.9):
                acts.append(Q)
            if rng.chance(0.3):
                acts += [F, Q]
    # further data on the SAME fit object after everything above (drawn from a fork, so the script above is what it
    # always was): 1-2 more datasets, mostly with the layout of a dataset that is already there (no new parameter),
    # sometimes renamed per dataset or with all samples NaN (no new residual), each followed by a query and/or a fit
    # with nothing set in between - whatever the object remembers from the last fit/query meets changed data
    t = rng.fork("further-data")
    oks = []
    seen_names = [[] for _ in models]
    for a in acts:
        if a["a"] == "add" and a["name"] not in seen_names[a["mi"]] and len(a["x"]) == len(a["y"]) and all(key in pn[a["mi"]] for key in a.get("ov", {})):
            seen_names[a["mi"]].append(a["name"])
            oks.append(a)
    if oks and t.chance(0.5):
        for j in range(t.choice([1, 1, 2])):
            src = t.choice(oks)
            names = pn[src["mi"]]
            ov = dict(src.get("ov", {}))
            if t.chance(0.2):
                p = t.choice(names)
                ov[p] = {"n": f"{p}_more{j}"}
            npts = t.randint(len(names) + 1, len(names) + 6)
            x = [t.choice(XS) + t.choice([0.0, 0.25, 10.0]) for _ in range(npts)]
            y = poly_y([t.choice([0.0, 1.0, -2.0, 0.5, 3.0]) for _ in names], x)
            if t.chance(0.08):
                y = [float("nan")] * npts
            a = {"a": "add", "mi": src["mi"], "name": f"more{j}", "x": x, "y": y}
            if ov:
                a["ov"] = ov
            acts.append(a)
            c = t.randint(0, 9)
            acts += [Q, F, Q] if c <= 3 else [F, Q] if c <= 6 else [Q] if c <= 8 else [F]
    case = assign_handover(script(stream, models, acts), rng.fork("handover"))
    # ... and the TYPE of the numbers the user types (drawn from a fork too): as generated (floats), whole numbers as
    # ints, or ints throughout (the whole table holds ints until a fit has written its answer)
    return assign_number_types(case, rng.fork("number-types").choice(["float", "float", "whole-as-int", "all-int"]))


def random_builtin(rng):
    """bookkeeping only (no fit) on the library's own models: prefixed names, the shared kT, composite models"""
    ctors = ["ewlc_odijk_distance", "efjc_distance", "wlc_marko_siggia_distance", "twlc_distance", "distance_offset", "ewlc_marko_siggia_distance"]
    nm = rng.choice([1, 2])
    models = []
    for mi in range(nm):
        spec = {"kind": "builtin", "ctor": rng.choice(ctors), "name": ["DNA", "prot"][mi]}
        if rng.chance(0.3):
            spec["plus"] = [{"ctor": rng.choice(ctors), "name": "seg" + str(mi)}]
        if rng.chance(0.2):
            spec["offset"] = True
        models.append(spec)
    acts = []
    for k in range(rng.randint(1, 3)):
        mi = rng.randint(0, nm - 1)
        base = models[mi]["name"]
        ov = {}
        for arg in ["Lp", "Lc", "St"]:
            if rng.chance(0.3):
                ov[f"{base}/{arg}"] = {"n": f"{base}/{arg}_{k}"} if rng.chance(0.7) else {"c": rng.choice([40.0, 16, 1500.0])}
        if rng.chance(0.15):
            ov["kT"] = {"n": "kT_" + str(k)}
        x = [0.5 + j for j in range(6)]
        a = {"a": "add", "mi": mi, "name": f"d{k}", "x": x, "y": [1.0 + 0.1 * j for j in range(6)]}
        if ov:
            a["ov"] = ov
        acts.append(a)
        if rng.chance(0.6):
            acts.append(Q)
    acts.append(Q)
    return assign_handover(script("random-builtin", models, acts), rng.fork("handover"))


DIST = ["ewlc_odijk_distance", "ewlc_marko_siggia_distance", "wlc_marko_siggia_distance", "efjc_distance", "twlc_distance"]
FORCE = ["ewlc_marko_siggia_force", "wlc_marko_siggia_force", "ewlc_odijk_force"]
SLOW = ["twlc_force", "efjc_force"]
TWIST = ["C", "g0", "g1", "Fc"]


def recover_case(rng, slow_ok=False):
    """EXPLORATION of the first clause of the property: noise-free data generated by built-in models (1-2 models,
    1-4 datasets, per-dataset contour lengths / shared persistence length and stiffness, kT and the twist parameters
    fixed), start perturbed by up to +-15% (contour length of force models upwards only), optional fixing of a
    subset at the generating value, optional bounds tightened around / placed at the optimum; fit, refit from the
    optimum, add further noise-free data, fit again: the generating values must come back each time."""
    import lumicks.pylake as lk

    nm = 1 if rng.chance(0.75) else 2
    specs, mods, truth = [], [], {}
    for mi in range(nm):
        pool = DIST + FORCE + (SLOW if slow_ok and rng.chance(0.3) else [])
        ctor = rng.choice(pool)
        name = ["DNA", "prot"][mi]
        specs.append({"kind": "builtin", "ctor": ctor, "name": name})
        mods.append(getattr(lk, ctor)(name))
    truth["kT"] = 4.11
    acts, sets = [], []
    free = []
    nds_total = rng.randint(nm, 4)
    plan = [mi for mi in range(nm)] + [rng.randint(0, nm - 1) for _ in range(nds_total - nm)]
    link_lp = nm == 2 and rng.chance(0.3)  # the second model takes its persistence length from the first
    dsets = []
    for k, mi in enumerate(plan):
        m, name = mods[mi], specs[mi]["name"]
        ov = {}
        local = {}
        for n, p in m.defaults.items():
            base = n.split("/")[-1]
            tgt = n
            if base == "Lc" and (k > 0 and rng.chance(0.6)):
                tgt = f"{name}/Lc_{k}"
            elif base == "Lp" and link_lp and mi == 1:
                tgt = "DNA/Lp"
            elif base == "Lp" and k > 0 and rng.chance(0.15):
                tgt = f"{name}/Lp_{k}"
            if tgt != n:
                ov[n] = {"n": tgt}
            if tgt not in truth:
                if base == "Lp":
                    truth[tgt] = rng.uniform(30.0, 60.0)
                elif base == "Lc":
                    truth[tgt] = rng.uniform(2.0, 20.0)
                elif base == "St":
                    truth[tgt] = rng.uniform(800.0, 2000.0)
                else:
                    truth[tgt] = float(p.value)
                if base in ("Lp", "Lc", "St"):
                    free.append((tgt, base, m.independent != "f"))
                elif base in TWIST:
                    sets.append(S(tgt, "fixed", True))
            local[n] = truth[tgt]
        dsets.append((k, mi, ov, local))

    def make_add(k, mi, ov, local, dsname):
        m = mods[mi]
        f = np.linspace(rng.uniform(0.1, 0.5), rng.uniform(20.0, 40.0), rng.randint(20, 40))
        if m.independent == "f":
            x = f
        else:
            dm = getattr(lk, specs[mi]["ctor"].replace("_force", "_distance"))(specs[mi]["name"])
            x = dm(f, local)
        y = m(x, local)
        a = {"a": "add", "mi": mi, "name": dsname, "x": [float(v) for v in x], "y": [float(v) for v in y]}
        if ov:
            a["ov"] = ov
        return a

    maxd = {}
    more_k = rng.randint(0, len(dsets) - 1)
    more = None
    for k, mi, ov, local in dsets:
        a = make_add(k, mi, ov, local, f"d{k}")
        acts.append(a)
        extra = [a]
        if k == more_k:
            more = make_add(k, mi, ov, local, "more")
            extra.append(more)
        if specs[mi]["ctor"] == "wlc_marko_siggia_force":
            lc = specs[mi]["name"] + "/Lc"
            tgt = ov.get(lc, {"n": lc})["n"]
            for e in extra:
                maxd[tgt] = max(maxd.get(tgt, 0.0), max(e["x"]))
    nfixed = 0
    at_optimum = False
    for tgt, base, is_force in free:
        tv = truth[tgt]
        mode = rng.choice(["free", "free", "free", "fixed", "tight", "lb-at-optimum", "ub-at-optimum"])
        if mode == "fixed" and nfixed < len(free) - 1:
            nfixed += 1
            sets += [S(tgt, "value", tv), S(tgt, "fixed", True)]
            continue
        pert = rng.uniform(-0.15, 0.15)
        if base == "Lc" and is_force:
            pert = abs(pert)
            if mode == "ub-at-optimum":
                mode = "free"
            if tgt in maxd:
                # inextensible chain: the optimiser must stay on the physical side of the singularity d = Lc
                # (from a +12% start TRF was seen to jump across it in global fits), so Lc is bounded below by the
                # largest distance of the datasets that use it
                floor = maxd[tgt] * (1 + 1e-6)
                if mode == "tight":
                    w = rng.uniform(0.2, 0.5)
                    sets += [S(tgt, "lb", max(tv * (1 - w), floor)), S(tgt, "ub", tv * (1 + w))]
                    mode = "done"
                elif mode != "lb-at-optimum":
                    sets.append(S(tgt, "lb", floor))
        if mode == "tight":
            w = rng.uniform(0.2, 0.5)
            sets += [S(tgt, "lb", tv * (1 - w)), S(tgt, "ub", tv * (1 + w))]
        elif mode == "lb-at-optimum":
            pert = abs(pert)
            at_optimum = True
            sets.append(S(tgt, "lb", tv))
        elif mode == "ub-at-optimum":
            pert = -abs(pert)
            at_optimum = True
            sets.append(S(tgt, "ub", tv))
        sets.append(S(tgt, "value", tv * (1 + pert)))
    acts += sets
    # measured on 3 x 800 seeded layouts: worst relative error 8e-6 without, 1e-3 with a bound placed AT the optimum
    # (TRF stays strictly inside the box and stops on its step tolerance before it reaches the bound); the tolerances
    # keep a factor >= 50 from that
    tol = 5e-2 if at_optimum else 1e-3
    acts += [Q, F, dict(Q, check="recovered", tol=tol), F, dict(Q, check="refit-from-optimum", tol=tol)]
    acts += [more, Q, F, dict(Q, check="more-data", tol=tol)]
    return assign_handover(script("recover", specs, acts, truth=truth), rng.fork("handover"))


def recover_offset_case(rng):
    """EXPLORATION, the offset models on their own (baseline estimation: `force_offset` / `distance_offset` are built-in
    models too, and the only ones without the shared kT): noise-free constant data, 1-3 datasets with the offset shared
    or renamed per dataset, start perturbed by up to +-15% inside the default box of +-0.1, optional fixing of a subset
    at the generating value and bounds tightened around / placed at the optimum; fit, refit, further data, fit."""
    import lumicks.pylake as lk

    ctor = rng.choice(["force_offset", "distance_offset"])
    name = "baseline"
    m = getattr(lk, ctor)(name)
    (pname,) = [n for n, _ in m.defaults.items()]
    truth, free, dsets = {}, [], []
    for k in range(rng.randint(1, 3)):
        tgt = f"{pname}_{k}" if k > 0 and rng.chance(0.5) else pname
        if tgt not in truth:
            truth[tgt] = rng.choice([-1.0, 1.0]) * rng.uniform(0.005, 0.085)
            free.append(tgt)
        dsets.append((k, {pname: {"n": tgt}} if tgt != pname else {}, {pname: truth[tgt]}))

    def make_add(ov, local, dsname):
        x = np.linspace(rng.uniform(0.1, 0.5), rng.uniform(20.0, 40.0), rng.randint(5, 25))
        a = {"a": "add", "mi": 0, "name": dsname, "x": [float(v) for v in x], "y": [float(v) for v in m(x, local)]}
        if ov:
            a["ov"] = ov
        return a

    acts = [make_add(ov, local, f"d{k}") for k, ov, local in dsets]
    _, ov, local = dsets[rng.randint(0, len(dsets) - 1)]
    more = make_add(ov, local, "more")
    sets, nfixed, at_optimum = [], 0, False
    for tgt in free:
        tv = truth[tgt]
        mode = rng.choice(["free", "free", "free", "fixed", "tight", "lb-at-optimum", "ub-at-optimum"])
        if mode == "fixed" and nfixed < len(free) - 1:
            nfixed += 1
            sets += [S(tgt, "value", tv), S(tgt, "fixed", True)]
            continue
        pert = rng.uniform(-0.15, 0.15)
        if mode == "tight":
            w = rng.uniform(0.2, 0.5)
            sets += [S(tgt, "lb", tv - w * abs(tv)), S(tgt, "ub", tv + w * abs(tv))]
        elif mode in ("lb-at-optimum", "ub-at-optimum"):
            at_optimum = True
            up = mode == "lb-at-optimum"  # the start lies on the inner side of the bound
            pert = abs(pert) if (tv > 0) == up else -abs(pert)
            sets.append(S(tgt, "lb" if up else "ub", tv))
        sets.append(S(tgt, "value", tv * (1 + pert)))
    tol = 5e-2 if at_optimum else 1e-3
    acts += sets + [Q, F, dict(Q, check="recovered", tol=tol), F, dict(Q, check="refit-from-optimum", tol=tol)]
    acts += [more, Q, F, dict(Q, check="more-data", tol=tol)]
    return assign_handover(script("recover", [{"kind": "builtin", "ctor": ctor, "name": name}], acts, truth=truth), rng.fork("handover"))


def cases(tier, rng):
    quick = tier == "quick"
    yield from corpus_files()
    yield from corpus_cases()
    r = rng.fork("c14-recover")
    for i in range(60 if quick else 800):
        c = recover_case(r.fork(i), slow_ok=(not quick and i % 10 == 0))
        c["subseed"] = i
        yield c
    r = rng.fork("c14-recover-offset")
    for i in range(12 if quick else 100):
        c = recover_offset_case(r.fork(i))
        c["subseed"] = i
        yield c
    yield from small_scope(tier)
    r = rng.fork("c14-random")
    for i in range(900 if quick else 8000):
        c = random_script(r.fork(i))
        c["subseed"] = i
        yield c
    r = rng.fork("c14-builtin")
    for i in range(60 if quick else 600):
        c = random_builtin(r.fork(i))
        c["subseed"] = i
        yield c
    r = rng.fork("c14-unique")
    for i in range(100 if quick else 2000):
        sub = r.fork(i)
        pool = ["a", "b", "c", "a|b", "", "kT", "M/a"]
        yield {"stream": "random", "op": "unique", "names": [sub.choice(pool) for _ in range(sub.randint(0, 9))], "subseed": i}


def extra_coverage(results):
    import collections

    nmodels = collections.Counter()
    nds = collections.Counter()
    target_kinds = collections.Counter()
    outcomes = collections.Counter()
    errors = collections.Counter()
    recover = {"cases": 0, "checked_queries": 0, "worst_rel_error_no_bound_at_optimum": 0.0, "worst_rel_error_bound_at_optimum": 0.0, "ctors": collections.Counter()}
    clause_ids = collections.Counter()
    variants_differ = 0
    handover = collections.Counter()
    number_types = collections.Counter()
    for r in results:
        c = r["case"]
        if r["clause"]:
            clause_ids[r["clause"].split(":")[0]] += 1
        if c["op"] != "script":
            continue
        if " || " in r["model"][0]:
            variants_differ += 1
        nmodels[len(c["models"])] += 1
        number_types[c.get("number_types", "float")] += 1
        nds[sum(1 for a in c["actions"] if a["a"] == "add")] += 1
        for a in c["actions"]:
            if a["a"] == "add":
                handover[a.get("hand", "fresh") + ("+overwritten-after" if a.get("then") else "")] += 1
                seen = set()
                for k, v in a.get("ov", {}).items():
                    if "c" in v:
                        target_kinds["constant"] += 1
                    else:
                        target_kinds["renamed"] += 1
                        if v["n"] in seen:
                            target_kinds["duplicate-within-dataset"] += 1
                        seen.add(v["n"])
        obs = r["impl"][0].split(";")
        for a, o in zip(c["actions"], obs):
            if a["a"] == "fit":
                outcomes[":".join(o.split(":")[:2]).split("!")[0]] += 1
            elif a["a"] in ("add", "set") and not o.endswith(":ok"):
                errors[o] += 1
            elif a["a"] == "jac":
                outcomes["jacobian-probe"] += 1
        if c.get("truth"):
            recover["cases"] += 1
            for m in c["models"]:
                recover["ctors"][m["ctor"]] += 1
            for a, o in zip(c["actions"], obs):
                if a["a"] == "query" and a.get("check"):
                    try:
                        T, _ = parse_query(o)
                    except Exception:
                        continue
                    recover["checked_queries"] += 1
                    key = "worst_rel_error_bound_at_optimum" if a.get("tol", 0) > 1e-2 else "worst_rel_error_no_bound_at_optimum"
                    for row in T:
                        if not row[4] and row[0] in c["truth"]:
                            tv = c["truth"][row[0]]
                            recover[key] = max(recover[key], abs(float(row[1]) - tv) / abs(tv))
    recover["ctors"] = dict(recover["ctors"])
    return {
        "scripts_by_number_of_models": dict(nmodels),
        "scripts_by_number_of_datasets": dict(nds),
        "override_kinds": dict(target_kinds),
        "fit_outcomes": dict(outcomes),
        "refused_actions": dict(errors),
        "datasets_by_form_of_hand_over": dict(handover),
        "scripts_by_type_of_the_numbers_typed": dict(number_types),
        "oracle_clause_ids_hit": dict(clause_ids),
        "scripts_where_the_repaired_variant_differs": variants_differ,
        "variant_the_implementation_followed": dict(VARIANT),
        "counts": dict(COUNTS),
        "private_ties": dict(PRIVATE_TIES),
        "residual_tie": dict(RESID),
        "condition_groups_at_queries": dict(GROUPS),
        "recovery_exploration": recover,
        "exhaustive": False,
        "exhaustive_note": "the small-scope stream enumerates its finite space completely; the random and recovery streams do not; recovery of generating parameters is exploration, not proof",
    }
