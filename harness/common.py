"""Common machinery of the /verif checks (see DESIGN.md sections 2-3).

A property module (harness/cXX.py) provides

    PROP        "C01"
    THEOREMS    fully qualified Lean names that are the proof obligations of the property
    RULE        text: how cases are generated / what makes a case non-trivial
    TRUSTED     extra trusted-base sentences (beyond the common ones)
    ASSUMPTIONS list of strings
    cases(tier, rng)             -> iterable of JSON-serialisable dicts (corpus, small scope, random)
    impl(case)                   -> list[str]: canonical observables from the implementation in /repo
    ops(case)                    -> list[str]: protocol lines for the Lean driver (same length)
    agree(case, i, impl, model)  -> bool (optional; default string equality)
    oracle(case, impl_answers)   -> None | str: the property clause violated by the implementation
    nontrivial(case, impl_answers) -> bool
    shrink(case)                 -> iterable of smaller cases (optional)
    tags(case)                   -> dict used to match known_findings.json (optional)
"""
import hashlib
import json
import os
import re
import subprocess
import sys
import time

VERIF = os.path.dirname(os.path.dirname(os.path.abspath(__file__)))
LEAN = os.path.join(VERIF, "lean")
REPO = os.environ.get("VERIF_REPO", "/repo")
DRIVER = os.path.join(LEAN, ".lake", "build", "bin", "driver")
STD_AXIOMS = {"propext", "Classical.choice", "Quot.sound"}
FORBIDDEN = re.compile(
    r"\bsorry\b|\badmit\b|^\s*axiom\s|native_decide|bv_decide|implemented_by|\bunsafe\s|maxHeartbeats\s+0\b",
    re.M,
)

COMMON_TRUSTED = [
    "Lean 4.33.0 kernel (thorough tier: re-checked by leanchecker); Mathlib v4.33.0 as compiled under /opt/veriftools",
    "axioms: only propext, Classical.choice, Quot.sound (audited with #print axioms on every run); no native_decide, bv_decide, sorry, admit or own axioms (textual scan on every run)",
    "lean/Verif/Py.lean as a description of CPython/NumPy slicing, floor division, searchsorted, cumsum, argmax: every definition is proved equal to its declarative element-by-element reading (lean/Verif/PyProps.lean, obligations of every run) and tested against CPython/NumPy on every run; what stays trusted is that Python means what that reading says",
    "the hand-written executable model lean/Verif/Model/<id>.lean is tied to /repo only by this run's correspondence check (sampled: corpus + exhaustive small scope + seeded random cases), not by a translator",
    "Lean compiler + C toolchain: the compiled driver runs the same definitions the theorems are about",
]


# Specification theorems of the Python/NumPy prelude (lean/Verif/PyProps.lean): every executable definition of
# Verif/Py.lean equals its declarative reading.  They are proof obligations of every check (each model goes through
# the prelude), built and audited on every run like the property's own theorems.
PRELUDE_THEOREMS = [
    "Verif.PyProps." + t
    for t in (
        "floorDiv_mod_identity", "pyMod_range_pos", "pyMod_range_neg", "floorDiv_is_floor_pos", "pyNorm_le", "pyNorm_spec",
        "pySlice_getElem?", "pySlice_length", "pySlice_infix", "pyIndex_spec", "everyNth_getElem?", "everyNth_length",
        "pySliceStep_getElem?", "cumsum_spec", "cumsum_length", "cumsum_getElem?", "searchsortedLeft_count",
        "searchsortedRight_count", "searchsortedLeft_split", "argmaxFirst_spec", "argmaxFirst_nil",
    )
]


class InfraError(Exception):
    pass


# ----------------------------------------------------------------------------- PRNG


class Rng:
    """SplitMix64; every random choice of a run derives from VERIF_SEED through this."""

    M = (1 << 64) - 1

    def __init__(self, seed):
        self.s = (int(seed) * 0x9E3779B97F4A7C15 + 0x1234567) & self.M

    def next(self):
        self.s = (self.s + 0x9E3779B97F4A7C15) & self.M
        z = self.s
        z = ((z ^ (z >> 30)) * 0xBF58476D1CE4E5B9) & self.M
        z = ((z ^ (z >> 27)) * 0x94D049BB133111EB) & self.M
        return z ^ (z >> 31)

    def fork(self, label=""):
        h = int.from_bytes(hashlib.sha256(str(label).encode()).digest()[:8], "big")
        return Rng(self.next() ^ h)

    def randint(self, a, b):
        """inclusive"""
        return a + self.next() % (b - a + 1)

    def random(self):
        return (self.next() >> 11) / float(1 << 53)

    def uniform(self, a, b):
        return a + (b - a) * self.random()

    def choice(self, seq):
        return seq[self.next() % len(seq)]

    def chance(self, p):
        return self.random() < p

    def shuffle(self, lst):
        for i in range(len(lst) - 1, 0, -1):
            j = self.next() % (i + 1)
            lst[i], lst[j] = lst[j], lst[i]

    def sample(self, seq, k):
        lst = list(seq)
        self.shuffle(lst)
        return lst[:k]

    def loguniform(self, a, b):
        import math

        return math.exp(self.uniform(math.log(a), math.log(b)))

    def normal(self):
        import math

        u1 = max(self.random(), 1e-300)
        u2 = self.random()
        return math.sqrt(-2 * math.log(u1)) * math.cos(2 * math.pi * u2)


# ----------------------------------------------------------------------------- protocol encoders


def enc_opt(v):
    return "N" if v is None else str(int(v))


def enc_list(xs, f=lambda x: str(int(x))):
    return "[" + ",".join(f(x) for x in xs) + "]"


def enc_listlist(xss, f=lambda x: str(int(x))):
    return "[" + ";".join(",".join(f(x) for x in xs) for xs in xss) + "]"


def enc_bool(b):
    return "T" if b else "F"


def enc_rat(x):
    """exact rational of a Python int/float/Fraction as p/q"""
    from fractions import Fraction

    fr = Fraction(x)
    return f"{fr.numerator}/{fr.denominator}"


def dec_rat(s):
    from fractions import Fraction

    p, q = s.split("/")
    return Fraction(int(p), int(q))


def enc_float(x):
    import struct

    return "b" + str(struct.unpack("<Q", struct.pack("<d", float(x)))[0])


def dec_float(s):
    import struct

    if s == "nan":
        return float("nan")
    return struct.unpack("<d", struct.pack("<Q", int(s[1:])))[0]


def dec_list(s, f=int):
    inner = s.strip()[1:-1]
    return [] if inner == "" else [f(x) for x in inner.split(",")]


def close(a, b, rel=1e-9, abs_=0.0):
    import math

    if math.isnan(a) or math.isnan(b):
        return math.isnan(a) and math.isnan(b)
    if math.isinf(a) or math.isinf(b):
        return a == b
    return abs(a - b) <= max(rel * max(abs(a), abs(b)), abs_)


def _raised_in_harness(e):
    tb = e.__traceback__
    last = None
    while tb is not None:
        last = tb
        tb = tb.tb_next
    return last is not None and os.path.abspath(last.tb_frame.f_code.co_filename).startswith(os.path.join(VERIF, "harness"))


def errname(e):
    if isinstance(e, AttributeError) and str(getattr(e, "name", "") or "").startswith("_") and _raised_in_harness(e):
        # the harness itself reached for a private member that is not there any more (a refactor renamed it): the tie
        # to the code is broken at this point; it says nothing about what the code computes
        return f"Error:TieBroken:private member {e.name} is gone"
    if isinstance(e, ImportError):
        return f"Error:TieBroken:{type(e).__name__} {getattr(e, 'name', '') or str(e)[:80]}"
    for k in ("IndexError", "ValueError", "RuntimeError", "NotImplementedError", "TypeError", "KeyError"):
        if type(e).__name__ == k:
            return k
    for k, t in (
        ("NotImplementedError", NotImplementedError),
        ("IndexError", IndexError),
        ("KeyError", KeyError),
        ("ValueError", ValueError),
        ("TypeError", TypeError),
        ("RuntimeError", RuntimeError),
    ):
        if isinstance(e, t):
            return k
    return "Error:" + type(e).__name__


# ----------------------------------------------------------------------------- Lean side


def run(cmd, cwd=None, timeout=3600, input_=None):
    try:
        p = subprocess.run(
            cmd, cwd=cwd, timeout=timeout, input=input_, capture_output=True, text=True, shell=isinstance(cmd, str)
        )
    except FileNotFoundError as e:
        raise InfraError(f"cannot run {cmd}: {e}")
    except subprocess.TimeoutExpired:
        raise InfraError(f"timeout running {cmd}")
    return p.returncode, p.stdout, p.stderr


def lake_build(targets):
    rc, out, err = run(["lake", "build"] + targets, cwd=LEAN, timeout=3000)
    return rc == 0, out + err


def strip_comments(src):
    out = []
    i, n, depth = 0, len(src), 0
    while i < n:
        if src.startswith("/-", i):
            depth += 1
            i += 2
        elif depth and src.startswith("-/", i):
            depth -= 1
            i += 2
        elif depth:
            if src[i] == "\n":
                out.append("\n")
            i += 1
        elif src.startswith("--", i):
            while i < n and src[i] != "\n":
                i += 1
        else:
            out.append(src[i])
            i += 1
    return "".join(out)


def forbidden_scan():
    hits = []
    for root, _, files in os.walk(os.path.join(LEAN, "Verif")):
        for f in files:
            if f.endswith(".lean"):
                p = os.path.join(root, f)
                txt = strip_comments(open(p).read())
                for m in FORBIDDEN.finditer(txt):
                    line = txt.count("\n", 0, m.start()) + 1
                    hits.append(f"{os.path.relpath(p, VERIF)}:{line}: {m.group(0).strip()}")
    return hits


def audit(prop, theorems):
    """#print axioms for every obligation.  Returns {theorem: ('ok', axioms) | ('bad', reason)}."""
    d = os.path.join(LEAN, ".lake", "audit")
    os.makedirs(d, exist_ok=True)
    path = os.path.join(d, f"{prop}.lean")
    mine = os.path.join(d, f"{prop}.{os.getpid()}.lean")  # concurrent runs must not clobber each other's file
    src = f"import Verif.Props.{prop}\nimport Verif.PyProps\n" + "".join(f"#print axioms {t}\n" for t in theorems)
    with open(mine, "w") as f:
        f.write(src)
    text = ""
    for attempt in range(2):
        rc, out, err = run(["lake", "env", "lean", mine], cwd=LEAN, timeout=1800)
        text = out + err
        if "depends on axioms" in text or "does not depend on any axioms" in text:
            break
        time.sleep(2)  # nothing at all was printed: a transient tool failure (e.g. a concurrent build), try once more
    else:
        os.replace(mine, path)
        raise InfraError(f"axiom audit of {prop} produced no output (rc={rc}): {text[-500:]}")
    os.replace(mine, path)
    res = {}
    # outputs: "'name' depends on axioms: [a, b]" (possibly wrapped) or "'name' does not depend on any axioms"
    flat = re.sub(r"\s+", " ", text)
    for t in theorems:
        m = re.search(r"'" + re.escape(t) + r"' depends on axioms: \[([^\]]*)\]", flat)
        if m:
            ax = [a.strip() for a in m.group(1).split(",") if a.strip()]
            extra = [a for a in ax if a not in STD_AXIOMS]
            res[t] = ("bad", "non-standard axioms " + ",".join(extra)) if extra else ("ok", ax)
        elif re.search(r"'" + re.escape(t) + r"' does not depend on any axioms", flat):
            res[t] = ("ok", [])
        else:
            res[t] = ("bad", "theorem missing or audit failed")
    return res, text


def run_driver(lines):
    if not os.path.exists(DRIVER):
        raise InfraError("driver not built")
    data = "".join(l + "\n" for l in lines)
    for l in lines:
        if "\n" in l:
            raise InfraError("newline inside op")
    rc, out, err = run([DRIVER], input_=data, timeout=3000)
    if rc != 0:
        raise InfraError(f"driver crashed rc={rc}: {err[:500]}")
    ans = out.split("\n")
    if ans and ans[-1] == "":
        ans.pop()
    if len(ans) != len(lines):
        raise InfraError(f"driver answered {len(ans)} lines for {len(lines)} ops")
    return ans


# ----------------------------------------------------------------------------- escalation when the anchored code changed


def ast_fingerprint(path):
    """sha256 of the file's AST (insensitive to comments, blank lines and formatting); None when unreadable"""
    import ast

    try:
        return hashlib.sha256(ast.dump(ast.parse(open(path).read())).encode()).hexdigest()
    except Exception:
        return None


def anchored_files_changed(prop):
    """Anchored files of `prop` whose AST differs from anchor_fingerprints.json (recorded at the /repo commit the checks
    were last tuned on).  Used only to decide HOW MUCH to explore: a changed file means the sampled tie has to be
    re-established for code nobody has soaked yet, so the run adds the random streams of further seeds."""
    p = os.path.join(VERIF, "anchor_fingerprints.json")
    if not os.path.exists(p):
        return []
    try:
        rec = json.load(open(p))["fingerprints"].get(prop, {})
    except Exception:
        return []
    return sorted(f for f, h in rec.items() if ast_fingerprint(os.path.join(REPO, f)) != h)


# ----------------------------------------------------------------------------- known findings


def load_known():
    p = os.path.join(VERIF, "known_findings.json")
    if not os.path.exists(p):
        return []
    return json.load(open(p)).get("findings", [])


def match_known(prop, tags):
    for k in load_known():
        if k.get("property") != prop or k.get("status") != "open":
            continue
        m = k.get("match", {})
        if m and all(tags.get(a) == b for a, b in m.items()):
            return k
    return None


# ----------------------------------------------------------------------------- the check


def clean(case):
    """cases may carry private scratch entries (keys starting with '_'); they are never serialised"""
    if isinstance(case, dict):
        return {k: v for k, v in case.items() if not str(k).startswith("_")}
    return case


def canonical(case):
    return json.dumps(clean(case), sort_keys=True, default=str)


def write_replay(prop, payload):
    d = os.path.join(VERIF, "replays", prop)
    os.makedirs(d, exist_ok=True)
    h = hashlib.sha256(canonical(payload).encode()).hexdigest()[:12]
    p = os.path.join(d, h + ".json")
    with open(p, "w") as f:
        json.dump(payload, f, indent=1, sort_keys=True, default=str)
    return os.path.relpath(p, VERIF)


TIE_BROKEN = {}


def evaluate(mod, cases):
    """Run implementation + model + oracle on a list of cases.
    Returns list of dicts {case, impl, model, disagree:[idx], clause}."""
    t_impl = time.time()
    per = []
    all_ops = []
    code_changed = None

    def harness_failed(c, what):
        """The harness itself could not process a case.  On the code the check was tuned on that is a bug of the machinery
        (exit 2).  When the anchored code differs from the recorded fingerprint it means the harness cannot interpret what the
        changed implementation does: the correspondence cannot be established for this case (reported at the end as a broken
        tie, `no-failing-input-found` unless the remaining cases exhibit a failing input)."""
        nonlocal code_changed
        if code_changed is None:
            code_changed = bool(anchored_files_changed(mod.PROP)) and os.environ.get("VERIF_ESCALATE", "1") != "2"
        if not code_changed:
            return False
        TIE_BROKEN.setdefault("Error:TieBroken:the harness cannot interpret the changed implementation: " + what[:160], []).append(clean(c))
        return True

    for c in cases:
        try:
            ia = mod.impl(c)
        except InfraError:
            raise
        except Exception as e:  # noqa: BLE001
            if harness_failed(c, f"impl(): {type(e).__name__}: {e}"):
                continue
            raise
        tb = [a[a.index("Error:TieBroken:"):] if "Error:TieBroken:" in a else a for a in ia
              if isinstance(a, str) and ("Error:TieBroken:" in a or a in ("Error:ImportError", "Error:ModuleNotFoundError"))]
        if tb:
            # the harness could not reach an anchored function / private member (renamed or moved by a refactor): for
            # this case the correspondence cannot be established.  The remaining cases are still evaluated (they are
            # the search for a failing input); the broken tie itself is reported at the end (DESIGN §3: a broken
            # correspondence is reported, with no-failing-input-found when the search finds nothing).
            TIE_BROKEN.setdefault(tb[0], []).append(clean(c))
            continue
        try:
            ops = mod.ops(c)
        except InfraError:
            raise
        except Exception as e:  # noqa: BLE001
            if harness_failed(c, f"ops(): {type(e).__name__}: {e}"):
                continue
            raise
        if len(ia) == 1 and len(ops) > 1 and isinstance(ia[0], str) and (
            ia[0].startswith("Error:") or ia[0] in ("IndexError", "ValueError", "RuntimeError", "NotImplementedError", "TypeError", "KeyError")
        ):
            # the implementation raised before any of the observations could be made: every one of them is that error
            ia = ia * len(ops)
        if len(ia) != len(ops) and harness_failed(c, f"impl gave {len(ia)} answers for {len(ops)} ops"):
            continue
        if len(ia) != len(ops):
            raise InfraError(f"{mod.PROP}: impl gave {len(ia)} answers for {len(ops)} ops: {c}")
        per.append((c, ia, len(all_ops), len(ops)))
        all_ops.extend(ops)
    t_impl = time.time() - t_impl
    t_model = time.time()
    answers = run_driver(all_ops) if all_ops else []
    t_model = time.time() - t_model
    agree = getattr(mod, "agree", None)
    out = []
    for c, ia, off, n in per:
        ma = answers[off : off + n]
        dis = []
        try:
            for i in range(n):
                ok = agree(c, i, ia[i], ma[i]) if agree else (ia[i] == ma[i])
                if not ok:
                    dis.append(i)
        except InfraError:
            raise
        except Exception as e:  # noqa: BLE001
            if harness_failed(c, f"agree(): {type(e).__name__}: {e}"):
                continue
            raise
        try:
            clause = mod.oracle(c, ia)
        except InfraError:
            raise
        except Exception as e:  # noqa: BLE001
            if harness_failed(c, f"oracle(): {type(e).__name__}: {e}"):
                continue
            raise
        out.append({"case": c, "impl": ia, "model": ma, "disagree": dis, "clause": clause, "ops": all_ops[off : off + n]})
    return out, t_impl, t_model


def failing(r):
    return bool(r["clause"]) or bool(r["disagree"])


def shrink_case(mod, r, budget):
    """Greedy structural shrinking keeping 'still fails in the same way' (oracle clause present stays present)."""
    if not hasattr(mod, "shrink"):
        return r
    want_clause = bool(r["clause"])
    cur = r
    steps = 0
    improved = True
    while improved and steps < budget:
        improved = False
        for cand in mod.shrink(cur["case"]):
            steps += 1
            if steps > budget:
                break
            try:
                res, _, _ = evaluate(mod, [cand])
            except InfraError:
                raise
            except Exception:
                continue
            if not res:  # the candidate could not be tied to the (changed) code: not a smaller failing case
                continue
            rr = res[0]
            if (bool(rr["clause"]) if want_clause else failing(rr)):
                cur = rr
                improved = True
                break
    return cur


def main(mod, argv):
    import argparse

    ap = argparse.ArgumentParser()
    ap.add_argument("--tier", default=os.environ.get("VERIF_TIER", "quick"), choices=["quick", "thorough"])
    ap.add_argument("--replay", default=None)
    ap.add_argument("--seed", default=None)
    args = ap.parse_args(argv)
    seed = int(args.seed if args.seed is not None else os.environ.get("VERIF_SEED", "0") or 0)
    prop = mod.PROP
    t0 = time.time()
    try:
        return _main(mod, prop, args, seed, t0)
    except InfraError as e:
        print(f"INFRASTRUCTURE-ERROR property={prop}: {e}")
        return 2


def _main(mod, prop, args, seed, t0):
    tier = args.tier
    # ---- 1. proof obligations
    theorems = list(mod.THEOREMS) + PRELUDE_THEOREMS  # the property's own obligations + the prelude's specification theorems
    ok, log = lake_build([f"Verif.Props.{prop}", "Verif.PyProps", "driver"])
    build_ok = ok
    ob_status = {}
    audit_text = ""
    if ok:
        ob_status, audit_text = audit(prop, theorems)
    else:
        if "error: Verif/" not in log and "error: ./Verif" not in log and "error:" in log and "Verif" not in log:
            raise InfraError("lake build failed outside Verif sources:\n" + log[-2000:])
        ob_status = {t: ("bad", "lake build failed") for t in theorems}
    hits = forbidden_scan()
    checker_cmd = f"cd lean && lake build Verif.Props.{prop} Verif.PyProps && lake env lean .lake/audit/{prop}.lean  # #print axioms of every obligation; + textual scan for sorry/admit/axiom/native_decide/bv_decide"
    leanchecker = None
    if build_ok and tier == "thorough":
        rc, out, err = run(["lake", "env", "leanchecker", f"Verif.Props.{prop}", "Verif.PyProps"], cwd=LEAN, timeout=3000)
        leanchecker = rc == 0
        checker_cmd += f" && lake env leanchecker Verif.Props.{prop} Verif.PyProps"
        if rc != 0:
            for t in theorems:
                if ob_status.get(t, ("bad",))[0] == "ok":
                    ob_status[t] = ("bad", "leanchecker rejected the module: " + (out + err)[-300:])
    if hits:
        for t in theorems:
            if ob_status.get(t, ("bad",))[0] == "ok":
                ob_status[t] = ("bad", "forbidden token in lean/Verif: " + hits[0])
    obligations = len(theorems)
    discharged = sum(1 for t in theorems if ob_status.get(t, ("bad",))[0] == "ok")
    broken = [t + ": " + ob_status[t][1] for t in theorems if ob_status[t][0] != "ok"]
    if not os.path.exists(DRIVER):
        raise InfraError("driver executable missing after lake build:\n" + log[-1500:])

    # ---- 1b. the Python-semantics prelude is itself tested against CPython/NumPy (DESIGN §2.1)
    import pyself

    st = pyself.ops_and_expected(Rng(seed).fork("pyself"))
    got = run_driver([o for o, _ in st])
    bad_py = [(o, e, g) for (o, e), g in zip(st, got) if e != g]
    if bad_py:
        raise InfraError(f"Py.lean self-test disagrees with CPython/NumPy on {len(bad_py)} ops, e.g. {bad_py[0]}")
    py_selftest = {"ops": len(st), "disagreements": 0}

    # ---- 2./3. correspondence + oracle
    import anchorcov

    escalation = {"anchored_files_changed": [], "extra_seeds": []}
    anchorcov.start(VERIF, REPO, prop)  # measures which anchored lines the cases execute (evidence only)
    if args.replay:
        payload = json.load(open(os.path.join(VERIF, args.replay) if not os.path.isabs(args.replay) else args.replay))
        cases = [payload["case"]] if "case" in payload else []
    else:
        rng = Rng(seed)
        cases = list(mod.cases(tier, rng))
        changed_files = anchored_files_changed(prop)
        if changed_files and os.environ.get("VERIF_ESCALATE", "1") != "0":
            # the anchored code is not the code the check was soaked on: explore the random streams of further seeds too
            seen_c = set(canonical(c) for c in cases)
            for extra in range(1, 1 + int(os.environ.get("VERIF_ESCALATE_SEEDS", "2"))):
                for c in mod.cases(tier, Rng(seed + 7919 * extra)):
                    k = canonical(c)
                    if k not in seen_c:
                        seen_c.add(k)
                        cases.append(c)
            escalation = {"anchored_files_changed": changed_files, "extra_seeds": [seed + 7919 * e for e in range(1, 1 + int(os.environ.get("VERIF_ESCALATE_SEEDS", "2")))]}
    results, t_impl, t_model = evaluate(mod, cases) if cases else ([], 0.0, 0.0)
    try:
        anchor_cov = anchorcov.stop()
    except Exception as e:  # a measurement must never break a run
        anchor_cov = {"anchor_line_coverage": {"error": repr(e)}}

    seen = set()
    nontrivial = 0
    streams = {}
    for r in results:
        c = r["case"]
        streams[c.get("stream", "?")] = streams.get(c.get("stream", "?"), 0) + 1
        key = canonical({k: v for k, v in clean(c).items() if k not in ("stream", "subseed")})
        if key in seen:
            continue
        seen.add(key)
        try:
            if mod.nontrivial(c, r["impl"]):
                nontrivial += 1
        except Exception:
            pass

    bad = [r for r in results if failing(r)]
    oracle_bad = [r for r in bad if r["clause"]]
    dis_only = [r for r in bad if not r["clause"]]
    budget = 200 if tier == "quick" else 2000
    violations = 0
    known_lines = set()
    reported = []

    def report(r, kind):
        nonlocal violations
        tags = dict(getattr(mod, "tags", lambda c, r_: {})(r["case"], r))
        tags.setdefault("clause_kind", kind)
        k = match_known(prop, tags)
        if k is not None:
            known_lines.add(f"KNOWN-FINDING: property={prop} {k['id']}: {k['what']}")
            return
        violations += 1
        if len(reported) >= 5:
            return
        payload = {
            "property": prop,
            "kind": kind,
            "case": clean(r["case"]),
            "ops": r["ops"],
            "impl": r["impl"],
            "model": r["model"],
            "disagree_at": r["disagree"],
            "violated_clause": r["clause"],
            "tags": tags,
            "replay_cmd": f"./check {prop} --replay <this file>",
            "repo": REPO,
        }
        if kind != "oracle":
            payload["no_longer_checks"] = (
                f"correspondence op(s) {sorted(set(o.split()[0] for i, o in enumerate(r['ops']) if i in r['disagree']))} "
                f"of model lean/Verif/Model/{prop}.lean; theorems about that model no longer transfer to the code: "
                + ", ".join(mod.THEOREMS[:6])
            )
        path = write_replay(prop, payload)
        tail = "" if kind == "oracle" else " no-failing-input-found"
        reported.append(f"VIOLATION property={prop} replay={path}{tail}")

    # oracle failures on the implementation: real failing inputs (deduplicated by clause text, shrunk)
    seen_clause = set()
    for r in oracle_bad:
        key = (r["clause"].split(":")[0], json.dumps(getattr(mod, "tags", lambda c, r_: {})(r["case"], r), sort_keys=True))
        if key in seen_clause:
            continue
        seen_clause.add(key)
        r2 = shrink_case(mod, r, budget) if not args.replay else r
        report(r2, "oracle")
    if dis_only and not oracle_bad:
        # model and implementation disagree but the search found no input on which the implementation
        # violates the property as the oracle reads it
        seen_ops = set()
        for r in dis_only:
            key = tuple(sorted(set(r["ops"][i].split()[0] for i in r["disagree"])))
            if key in seen_ops:
                continue
            seen_ops.add(key)
            r2 = shrink_case(mod, r, budget) if not args.replay else r
            report(r2, "correspondence")
    elif dis_only:
        # there are oracle failures and further disagreements: report the disagreements that are not
        # explained by a known finding as correspondence breaks too
        seen_ops = set()
        for r in dis_only:
            key = tuple(sorted(set(r["ops"][i].split()[0] for i in r["disagree"])))
            if key in seen_ops:
                continue
            seen_ops.add(key)
            report(r, "correspondence")
    if TIE_BROKEN:
        payload = {
            "property": prop,
            "kind": "correspondence-unreachable",
            "no_longer_checks": [f"{what} ({len(cs)} cases could not be tied to the code)" for what, cs in TIE_BROKEN.items()]
            + [f"theorems about lean/Verif/Model/{prop}.lean no longer transfer to the code at these points: " + ", ".join(mod.THEOREMS[:6])],
            "example_cases": [cs[0] for cs in list(TIE_BROKEN.values())[:3]],
            "searched": f"{len(results)} remaining cases on the implementation, oracle failures: {len(oracle_bad)}",
        }
        path = write_replay(prop, payload)
        violations += 1
        reported.append(f"VIOLATION property={prop} replay={path} no-failing-input-found")
    if broken:
        payload = {
            "property": prop,
            "kind": "proof-obligation",
            "no_longer_checks": broken,
            "build_log_tail": log[-3000:] if not build_ok else audit_text[-3000:],
            "forbidden_hits": hits,
            "searched": f"{len(results)} cases on the implementation, oracle failures: {len(oracle_bad)}",
        }
        path = write_replay(prop, payload)
        violations += 1
        reported.append(f"VIOLATION property={prop} replay={path} no-failing-input-found")

    wall = time.time() - t0
    # ---- evidence
    samples = []
    step = max(1, len(results) // 6)
    for r in results[::step][:6]:
        samples.append({"case": clean(r["case"]), "ops": [o[:300] for o in r["ops"][:3]], "impl": [a[:200] for a in r["impl"][:3]], "model": [a[:200] for a in r["model"][:3]]})
    samples.append({"obligations": theorems})
    cov = {
        "obligations": obligations,
        "discharged": discharged,
        "checker_cmd": checker_cmd,
        "trusted_base": COMMON_TRUSTED + list(getattr(mod, "TRUSTED", [])),
        "theorem_axioms": {t: (v[1] if v[0] == "ok" else "NOT DISCHARGED: " + v[1]) for t, v in ob_status.items()},
        "leanchecker": leanchecker,
        "obligations_property": len(mod.THEOREMS),
        "obligations_prelude": len(PRELUDE_THEOREMS),
        "evaluations": len(results),
        "distinct_nontrivial": nontrivial,
        "distinct_cases": len(seen),
        "rule": mod.RULE,
        "samples": samples,
        "streams": streams,
        "protocol_ops": sum(len(r["ops"]) for r in results),
        "traces_validated_against_impl": len(results),
        "model_impl_disagreements": len([r for r in results if r["disagree"]]),
        "oracle_failures_on_impl": len(oracle_bad),
        "known_findings_hit": sorted(known_lines),
        "py_prelude_selftest": py_selftest,
        "impl_seconds": round(t_impl, 2),
        "model_seconds": round(t_model, 2),
        "repo": REPO,
        "explanation": "proof: Lean theorems about the executable model (obligations/discharged); the model is tied to /repo's working tree by running both on the same cases in this run (evaluations) and the property is additionally evaluated directly on the implementation's answers (oracle)",
    }
    cov.update(anchor_cov)
    cov["escalation"] = escalation
    if hasattr(mod, "extra_coverage"):
        try:
            cov.update(mod.extra_coverage(results))
        except Exception as e:  # evidence decoration must never break a run
            cov["extra_coverage_error"] = repr(e)
    ev = {
        "property_id": prop,
        "tier": tier,
        "seed": seed,
        "level": "proof",
        "coverage": cov,
        "assumptions": list(getattr(mod, "ASSUMPTIONS", [])),
        "wall_s": round(wall, 2),
        "violations": violations,
    }
    if not args.replay:
        # evidence/ only ever describes runs against /repo itself; runs against a scratch worktree
        # (VERIF_REPO, used to try seeded changes) leave it alone
        evdir = os.path.join(VERIF, "evidence") if os.path.realpath(REPO) == "/repo" else "/tmp/verif_scratch_evidence"
        os.makedirs(evdir, exist_ok=True)
        with open(os.path.join(evdir, f"{prop}.json"), "w") as f:
            json.dump(ev, f, indent=1, default=str)
    for l in sorted(known_lines):
        print(l)
    for l in reported:
        print(l)
    print(
        f"{prop} tier={tier} seed={seed}: obligations {discharged}/{obligations}, cases {len(results)} "
        f"(distinct non-trivial {nontrivial}), disagreements {len([r for r in results if r['disagree']])}, "
        f"oracle failures {len(oracle_bad)}, violations {violations}, {wall:.1f}s"
    )
    return 1 if violations else 0
