"""C05 — HDF5 files are read faithfully and re-exported without loss (DESIGN.md 6/C05)."""
import contextlib
import fnmatch as _fnmatch
import io
import os
import shutil
import tempfile
import warnings

import re

import numpy as np

import builders_h5 as bh
from common import Rng, dec_float, enc_bool, enc_float, enc_list, enc_listlist, enc_rat, errname

PROP = "C05"
THEOREMS = [
    "Verif.C05.filter_calibration_mem",
    "Verif.C05.filter_calibration_spec",
    "Verif.C05.sortCal_stable",
    "Verif.C05.globMatch_iff",
    "Verif.C05.omit_spec",
    "Verif.C05.omit_none",
    "Verif.C05.omit_sublist",
    "Verif.C05.omit_tree_explicit",
    "Verif.C05.omit_tree_present",
    "Verif.C05.mem_ancestors",
    "Verif.C05.node_status_spec",
    "Verif.C05.crop_is_slice",
    "Verif.C05.crop_absent_iff_empty",
    "Verif.C05.crop_crop",
    "Verif.C05.keepMeta_spec",
    "Verif.C05.write_cropped_meta_spec",
    "Verif.C05.roundHalfEven_nearest",
    "Verif.C05.roundHalfEven_tie_even",
    "Verif.C05.double_rounding_std",
    "Verif.C05.period_round_trip",
    "Verif.C05.period_round_trip_double",
    "Verif.C05.F7_witness_exact",
    "Verif.C05.period_bound_witness",
    "Verif.C05.tsStep_grid",
    "Verif.C05.tsStep_some",
    "Verif.C05.ts_sample_rate_spec",
    "Verif.C05.write_read",
    "Verif.C05.cropped_export_reads_back",
    "Verif.C05.channel_class_v1",
    "Verif.C05.channel_class_bytes",
    "Verif.C05.crop_export_read_eq",
    "Verif.C05.crop_crop_full",
    "Verif.C05.sample_rate_round_trip",
    "Verif.C05.read_v1_same",
    "Verif.C05.reexport_crop",
    "Verif.C05.cal_from_field_mem",
    "Verif.C05.cal_from_field_order",
    "Verif.C05.slice_calibration_spec",
    "Verif.C05.channel_calibration_spec",
    "Verif.C05.channel_calibration_whole",
    "Verif.C05.pixels_split",
    "Verif.C05.cropped_kymo_lines",
    "Verif.C05.cut_ok_necessary",
    "Verif.C05.attr_table_nodup",
    "Verif.C05.attr_lookup_spec",
    "Verif.C05.attr_naming_rule",
    "Verif.C05.trap_total_spec",
    "Verif.C05.attr_mapped_spec",
    "Verif.C05.attr_mapped_default",
    "Verif.C05.attr_mapped_other",
    "Verif.C01.cont_slice_samples",
    "Verif.C01.slice_samples",
]
RULE = (
    "corpus (F1 consequence: crop window ending more than one period before a channel; F7 periods 55/57/110 ns; periods 2^50, 1e9+1) + "
    "direct ops: _filter_calibration on all item lists over a 4-value time grid (<=3 items, quick) and random lists with "
    "ties; sample-period write/read-back for every integer period 1..3000 (thorough: ..30000), random periods up to 2^50, "
    "arbitrary stored rates around half-way periods, executed both in Lean's Float and exactly over Rat (flDouble); "
    "round-half-even and one rounded division against the interpreter; omit patterns (literals, *, ?) against HDF5 paths, "
    "also judged by Python's fnmatch, and the whole output tree (nested groups with/without attributes, bare parents); "
    "channel_class on every (Kind spelling x dataset shape x rate attribute); to_dataset -> channel_class -> from_dataset, "
    "its cropped variant and the twice-cropped variant on every small channel x window grid (in-memory HDF5) and random "
    "channels (ns-epoch starts, periods up to 1e9); Calibration groups -> from_field -> slice -> calibration on a small "
    "scope (entry absent / without time field / before / at / inside / at the end) and random histories; + generated "
    "Bluelake-layout files (format v1/v2; continuous/time-series/time-tag channels; calibration histories incl. entries "
    "without the time field; markers, notes, a kymograph) written with h5py, opened with lk.File: every channel read by "
    "path and by attribute, calibration of every force channel (whole and sliced), then save_as with omit patterns or a "
    "crop window drawn around the channel boundaries (40%: exported a second time with another window) and a reopen, "
    "comparing every dataset/attribute with the source (uncropped) or with the window filter (cropped), and the keep/drop "
    "decision and new time attributes of every time-stamped item; files are constructed by name or from an h5py handle, "
    "half of those without images get photon channels under standard/custom detector names and an rgb_to_detectors "
    "mapping, 30% export with verbose=True; + the 38 channel attributes on files holding all / none / all-but-one / random "
    "subsets of the channels, and the rgb_to_detectors constructor option (every permutation of the standard and of "
    "three custom detector names, 'None', a missing detector, two colours on one detector, option absent; random "
    "mappings) on files with standard, custom or both kinds of detector datasets, each file constructed BOTH by name "
    "and by File.from_h5py with the answers required to coincide. Non-trivial: file cases with >=1 channel where the crop "
    "window cuts at least one channel properly or drops one, or an omit pattern removes a proper subset; direct ops with a "
    "non-empty answer."
)
TRUSTED = [
    "IEEE-754 double division and Python's round(): modelled exactly over Rat (flDouble, roundHalfEven), proved to meet the standard model, and compared with the interpreter's own results on every run (ops c05.fl, c05.round, c05.rateq, c05.dtq)",
    "h5py/HDF5 as the storage codec (files are written and independently re-read with h5py)",
    "Python's fnmatch for patterns with '[' (outside the model; generated patterns use literals, * and ? only)",
]
ASSUMPTIONS = [
    "rgb_to_detectors mappings name all three colours (what a partial or empty dict means is not documented) and the file has no dataset literally called 'None'",
    "sample periods are integer nanoseconds >= 1 (what Continuous.to_dataset can store) and <= 2^50 ns (13 days; the range of period_round_trip — period_bound_witness shows a bound is needed); time-series steps <= 2^53 ns",
    "attributes other than Kind/Start/Stop/Sample rate are not required to survive a CROPPED export (the property speaks of channel equality there)",
]

ATTR_ACCESS = {
    "Force HF/Force 1x": "force1x", "Force HF/Force 1y": "force1y", "Force HF/Force 2x": "force2x", "Force HF/Force 2y": "force2y",
    "Force LF/Force 1x": "downsampled_force1x", "Force LF/Force 1y": "downsampled_force1y", "Force LF/Force 2x": "downsampled_force2x",
    "Distance/Distance 1": "distance1", "Photon count/Red": "red_photon_count", "Photon count/Green": "green_photon_count",
    "Photon Time Tags/Red": "red_photon_time_tags",
}


def _lk():
    import lumicks.pylake as lk

    return lk


def show(kind, ts, data):
    if kind == "tags":
        return "tags " + enc_list(ts)
    return kind + " [" + ",".join(f"{int(t)}:{int(round(float(v)))}" for t, v in zip(ts, data)) + "]"


def show_slice(kind, s):
    ts = np.asarray(s.timestamps)
    d = np.asarray(s.data)
    if len(ts) != len(d):
        return f"length-mismatch {len(ts)} {len(d)}"
    if len(d) and not np.all(np.asarray(d, dtype=float) == np.round(np.asarray(d, dtype=float))):
        return "non-integer-values"
    return show(kind, ts, d)


def public_dt(s):
    """sample period of a continuous channel through the public interface only"""
    ts = np.asarray(s.timestamps)
    if len(ts) >= 2:
        return int(ts[1]) - int(ts[0])
    return int(round(1e9 / float(s.sample_rate)))


def src_tokens(e):
    if e["kind"] == "cont":
        return f"contv {e['start']} {e['dt']} {enc_list(e['data'])}"
    return f"{e['kind']} {enc_list(e['ts'])}"


def cal_groups(spec):
    """the groups under Calibration/ in h5py's iteration order (names sorted), each as {channel: time | None}"""
    return [{nm: a.get("Stop time (ns)") for nm, a in c["channels"].items()} for c in sorted(spec["calibrations"], key=lambda c: c["idx"])]


def cal_positions(spec):
    """cal_id (unique per group in the generated files) -> position of the group in h5py order"""
    return {next(iter(c["channels"].values()))["cal_id"]: i for i, c in enumerate(sorted(spec["calibrations"], key=lambda c: c["idx"])) if c["channels"]}


def enc_groups(groups):
    if not groups:
        return "-"
    return "".join("@" + "".join(f"{nm.replace(' ', '_')}={'N' if t is None else int(t)}," for nm, t in g.items()) for g in groups)


def applicable(groups, chname, start, stop):
    """the property text: the last item applied at or before the start, then those applied inside the range"""
    items = sorted(((g[chname], i) for i, g in enumerate(groups) if g.get(chname) is not None), key=lambda x: x[0])
    pre = [i for t, i in items if t <= start]
    return ([pre[-1]] if pre else []) + [i for t, i in items if start < t < stop]


class FakeDset:
    def __init__(self, attrs, n):
        self.attrs = attrs
        self.name = "/Force HF/Force 1x"
        self._n = n

    def __len__(self):
        return self._n

    def __array__(self, *a, **k):
        return np.arange(self._n, dtype=float)


# ------------------------------------------------------------------ channels by attribute

def attr_universe():
    """every channel a File attribute can read: (path, kind) in a fixed order"""
    out = []
    for n in range(1, 5):
        for a in "xyz":
            out.append((f"Force HF/Force {n}{a}", "cont"))
    for n in (1, 2):
        out.append((f"Force HF/Corrected Force {n}x", "cont"))
    for n in range(1, 5):
        for a in "xyz":
            out.append((f"Force LF/Force {n}{a}", "ts"))
    for n in range(1, 5):
        out.append((f"Force LF/Force {n}", "ts"))
        out.append((f"Force LF/Trap {n}", "ts"))
    for n in (1, 2):
        out.append((f"Distance/Distance {n}", "ts"))
    for c in ("Red", "Green", "Blue"):
        out.append((f"Photon count/{c}", "cont"))
    for c in ("Red", "Green", "Blue"):
        out.append((f"Photon Time Tags/{c}", "tags"))
    return out


DETECTORS = ("Detector 1", "Detector 2", "Detector 3")
COLOURS = ("Red", "Green", "Blue")
PHOTON_GROUPS = {"photon_count": "Photon count", "photon_time_tags": "Photon Time Tags"}


def attr_detectors():
    """photon channels recorded under custom detector names (what the rgb_to_detectors option of File is for);
    numbered after the fixed universe so that every channel keeps its own numbers"""
    return [(f"Photon count/{d}", "cont") for d in DETECTORS] + [(f"Photon Time Tags/{d}", "tags") for d in DETECTORS]


def enc_mapping(mapping):
    """rgb_to_detectors as protocol token: N (option not given) or the code points of colour, detector, colour, …"""
    if mapping is None:
        return "N"
    flat = []
    for c in mapping:
        flat += [c, mapping[c]]
    return enc_listlist([[ord(ch) for ch in w] for w in flat])


def colour_attr_path(attr, mapping):
    """documented meaning of the option: the colour attribute reads, in its own group, the detector its colour is
    mapped to (default: the detector named like the colour).  None for attributes that are not colour attributes."""
    m = re.fullmatch(r"(red|green|blue)_(photon_count|photon_time_tags)", attr)
    if not m:
        return None
    colour = m.group(1).capitalize()
    return PHOTON_GROUPS[m.group(2)] + "/" + (mapping[colour] if mapping is not None else colour)


def open_file(fn, route="name", mapping=None):
    """the two public ways of constructing a File, with the constructor option when one is given"""
    import h5py

    lk = _lk()
    kw = {} if mapping is None else {"rgb_to_detectors": dict(mapping)}
    if route == "h5py":
        return lk.File.from_h5py(h5py.File(fn, "r"), **kw)
    return lk.File(fn, **kw)


def attr_names():
    """the public channel attributes of File, from the documented naming scheme (written out independently of the
    Lean table): force<n><a>, corrected_force<n>x, downsampled_force<n>[<a>], distance<n>, <colour>_photon_count,
    <colour>_photon_time_tags"""
    names = [f"force{n}{a}" for n in range(1, 5) for a in "xyz"] + ["corrected_force1x", "corrected_force2x"]
    names += [f"downsampled_force{n}{a}" for n in range(1, 5) for a in "xyz"] + [f"downsampled_force{n}" for n in range(1, 5)]
    names += ["distance1", "distance2"] + [f"{c}_photon_count" for c in ("red", "green", "blue")]
    names += [f"{c}_photon_time_tags" for c in ("red", "green", "blue")]
    return names


def attr_channel(idx, path, kind):
    """content of universe channel number idx: length, start and spacing identify the channel; the x and y components
    of one trap have the same length (the magnitude is rebuilt from them)"""
    group, name = path.split("/")
    if group == "Force LF" and name[-1] in "xyz":
        n = 3 + int(name[-2])  # same length for the components of one trap
    else:
        n = 2 + idx % 7
    start = 1000 + 37 * idx
    values = [100 * (idx + 1) + j for j in range(n)]  # no two channels hold the same numbers
    if kind == "cont":
        return {"group": group, "name": name, "kind": "cont", "start": start, "dt": 2 + idx % 5, "n": n, "dtype": "f8", "values": values}
    ts = [start + j * (3 + idx % 4) for j in range(n)]
    return {"group": group, "name": name, "kind": kind, "ts": ts, "values": values}


def attr_spec(case):
    uni = attr_universe() + attr_detectors()
    chans = [attr_channel(i, p, k) for i, (p, k) in enumerate(uni) if p in set(case["present"])]
    return {"version": case["version"], "root_attrs": {"Bluelake version": "unknown", "Experiment": "e", "Description": "d", "GUID": "g", "Export time (ns)": 1},
            "channels": chans, "calibrations": [], "markers": [], "notes": [], "kymos": []}


def _attrs_read(f, exp):
    """every channel attribute of an open File, each answer identified with the stored channel it equals"""
    out = []
    for a in attr_names():
        try:
            s = getattr(f, a)
        except AttributeError:
            out.append("no-such-attribute")
            continue
        except Exception as ex:
            out.append(errname(ex))
            continue
        if len(s.data) == 0:
            out.append("empty")
            continue
        ts, dat = np.asarray(s.timestamps), np.asarray(s.data, dtype=float)
        hit = None
        for p, e in exp.items():
            if len(e["ts"]) == len(ts) and list(e["ts"]) == [int(t) for t in ts]:
                if e["kind"] == "tags" or np.all(dat == np.asarray(e["data"], dtype=float)):
                    hit = "path " + p
                    break
                # the magnitude of this channel and another one of the same length?
                for q, e2 in exp.items():
                    if q != p and len(e2["data"]) == len(dat) and np.allclose(dat, np.sqrt(np.asarray(e["data"], float) ** 2 + np.asarray(e2["data"], float) ** 2), rtol=1e-12, atol=0):
                        hit = f"magnitude {p} | {q}"
                        break
                if hit:
                    break
        out.append(hit or f"unknown-channel n={len(ts)} t0={int(ts[0])}")
    return out


def _attrs_impl(case):
    """the file is constructed both ways (File(name, …) and File.from_h5py(handle, …)) with the same constructor
    option; an attribute whose answer depends on the construction route is reported as such"""
    import tempfile

    spec = attr_spec(case)
    exp = bh.expected_channels(spec)
    per_route = {}
    with tempfile.TemporaryDirectory() as d:
        fn = os.path.join(d, "a.h5")
        bh.write_file(fn, spec)
        for route in ("name", "h5py"):
            with warnings.catch_warnings():
                warnings.simplefilter("ignore")  # a detector missing from the file is announced by a warning
                f = open_file(fn, route, case.get("mapping"))
            try:
                per_route[route] = _attrs_read(f, exp)
            finally:
                f.h5.close()
    return [a if a == b else f"construction-routes-differ File(name)={a!r} File.from_h5py={b!r}" for a, b in zip(per_route["name"], per_route["h5py"])]


# ------------------------------------------------------------------ datasets: to_dataset / channel_class / from_dataset


def make_source(e):
    """the real source object for a case's channel description (ts/tags values are the sample index, as in the model)"""
    from lumicks.pylake.channel import Continuous, TimeSeries, TimeTags

    if e["kind"] == "cont":
        return Continuous(np.asarray(e["data"], dtype=float), e["start"], e["dt"])
    if e["kind"] == "ts":
        return TimeSeries(np.arange(len(e["ts"]), dtype=float), np.asarray(e["ts"], dtype=np.int64))
    return TimeTags(np.asarray(e["ts"], dtype=np.int64))


def src_samples(e):
    if e["kind"] == "cont":
        return [(e["start"] + i * e["dt"], int(v)) for i, v in enumerate(e["data"])]
    if e["kind"] == "ts":
        return [(t, i) for i, t in enumerate(e["ts"])]
    return [(t, t) for t in e["ts"]]


def show_dset(dset):
    """a written dataset as h5py sees it, in the model's notation"""
    a = dset.attrs
    if "Kind" in a:
        import h5py

        k = a["Kind"]
        info = h5py.check_string_dtype(a.get_id("Kind").dtype)
        if isinstance(k, bytes):
            kind = "bytes:" + bytes(k).decode()
        else:
            # a Python bytes value is stored as an ASCII string (and handed back decoded), a str as UTF-8
            kind = ("bytes:" if info is not None and info.encoding == "ascii" else "str:") + str(k)
    else:
        kind = "absent"
    st = str(int(a["Start time (ns)"])) if "Start time (ns)" in a else "N"
    sp = str(int(a["Stop time (ns)"])) if "Stop time (ns)" in a else "N"
    rate = enc_rat(float(a["Sample rate (Hz)"])) if "Sample rate (Hz)" in a else "N"
    if dset.dtype.fields is None:
        vals = dset[()]
        pl = "plain " + enc_list([int(v) if np.issubdtype(vals.dtype, np.integer) else int(round(float(v))) for v in vals])
    else:
        pl = "compound [" + ",".join(f"{int(t)}:{int(round(float(v)))}" for t, v in zip(dset["Timestamp"], dset["Value"])) + "]"
    return f"kind={kind} start={st} stop={sp} rate={rate} {pl}"


def show_read(s):
    """a channel read from a dataset, in the notation of the model's showSrc"""
    from lumicks.pylake.channel import Continuous, TimeSeries, TimeTags

    src = s._src
    if isinstance(src, TimeTags):
        return f"tags {int(s.start)} {int(s.stop)} {enc_list([int(t) for t in s.timestamps])}"
    body = "[" + ",".join(f"{int(t)}:{int(round(float(v)))}" for t, v in zip(s.timestamps, s.data)) + "]"
    if isinstance(src, Continuous):
        if len(s.timestamps) != len(s.data):
            return f"length-mismatch {len(s.timestamps)} {len(s.data)}"
        return f"cont {int(s.start)} {public_dt(s)} {body}"
    if isinstance(src, TimeSeries):
        return "ts " + body
    return "unknown-source " + type(src).__name__


def mem_h5():
    import h5py

    return h5py.File("c05-mem", "w", driver="core", backing_store=False)


def _dset_impl(case):
    from lumicks.pylake.channel import channel_class

    out = []
    with mem_h5() as f:
        try:
            d = make_source(case["src"]).to_dataset(f, "x")
            out.append(show_dset(d))
        except Exception as ex:
            return [errname(ex)] * 2
        try:
            out.append(show_read(channel_class(d).from_dataset(d)))
        except Exception as ex:
            out.append(errname(ex))
    return out


def _calchan_impl(case):
    """Calibration groups in a real (in-memory) HDF5 file -> ForceCalibrationList.from_field -> a Slice carrying the list
    -> optional [a:b] -> .calibration"""
    from lumicks.pylake.calibration import ForceCalibrationList
    from lumicks.pylake.channel import Slice

    with mem_h5() as f:
        for i, g in enumerate(case["groups"]):
            gg = f.require_group("Calibration").require_group(f"{i:03d}")
            for nm, t in g.items():
                sub = gg.require_group(nm)
                sub.attrs["cal_id"] = i
                sub.attrs["Kind"] = "Full calibration"
                sub.attrs["Start time (ns)"] = 0
                if t is not None:
                    sub.attrs["Stop time (ns)"] = t
        sl = Slice(make_source(case["src"]), calibration=ForceCalibrationList.from_field(f, case["ch"]))
        if case.get("win"):
            sl = sl[case["win"][0] : case["win"][1]]
        return [enc_list([int(it["cal_id"]) for it in sl.calibration])]


def _class_impl(case):
    from lumicks.pylake.channel import channel_class

    with mem_h5() as f:
        if case["shape"] == "plain":
            d = f.create_dataset("x", data=np.arange(2.0))
        else:
            d = f.create_dataset("x", data=np.array([(1, 1.0), (2, 2.0)], np.dtype([("Timestamp", np.int64), ("Value", float)])))
        k = case["kind"]
        if k.startswith("str:"):
            d.attrs["Kind"] = k[4:]
        elif k.startswith("bytes:"):
            d.attrs["Kind"] = np.bytes_(k[6:].encode())  # fixed-length: read back as bytes (the decode branch)
        if case["rate"]:
            d.attrs["Sample rate (Hz)"] = 1.0
        d.attrs["Start time (ns)"] = 0
        d.attrs["Stop time (ns)"] = 0
        try:
            return [channel_class(d).__name__]
        except Exception as ex:
            return [errname(ex)]


def _cropread_impl(case):
    """what write_h5 does for one numerical channel (slice through Slice.__getitem__, drop when empty, else the
    sliced source's to_dataset) and what File(new)[name] does with the written dataset"""
    from lumicks.pylake.channel import Slice, channel_class

    a, b = case["crop"]
    sliced = Slice(make_source(case["src"]))[a:b]
    if not sliced:
        return ["absent"]
    with mem_h5() as f:
        d = sliced._src.to_dataset(f, "x", compression="gzip", compression_opts=case.get("compression", 5))
        return [show_read(channel_class(d).from_dataset(d))]


def _cropread2_impl(case):
    """export with one window, read, export what was read with a second window, read"""
    from lumicks.pylake.channel import Slice, channel_class

    sl = Slice(make_source(case["src"]))
    with mem_h5() as f:
        for i, (a, b) in enumerate((case["crop"], case["crop2"])):
            sl = sl[a:b]
            if not sl:
                return ["absent"]
            d = sl._src.to_dataset(f, f"x{i}", compression="gzip", compression_opts=5)
            sl = channel_class(d).from_dataset(d)
        return [show_read(sl)]


# ------------------------------------------------------------------ file case: plan of ops


def file_plan(case):
    """list of (op-line for the model, kind-of-observation, payload) in a fixed order — shared by impl() and ops()"""
    spec = case["spec"]
    exp = bh.expected_channels(spec)
    plan = []
    for path in sorted(exp):
        e = exp[path]
        if e["kind"] == "cont":
            plan.append((f"c05.dt {enc_float(1e9 / e['dt'])}", "dt", path))
    for ch in spec["channels"]:
        if ch["group"] in ("Force HF", "Force LF") and ch["name"][-1] in "xy":
            path = f"{ch['group']}/{ch['name']}"
            e = exp[path]
            ts = e["ts"]
            if not ts:
                continue
            # the model goes from the Calibration groups (from_field) through the slice (C01) to the filter
            head = f"c05.calchan {enc_groups(cal_groups(spec))} {ch['name'].replace(' ', '_')} {src_tokens(e)}"
            plan.append((head, "cal", (path, None)))
            for w in case.get("cal_windows", []):
                # An empty slice has no time range to speak of: not judged.
                if sliced_bounds(e, w) is not None:
                    plan.append((f"{head} {w[0]} {w[1]}", "calslice", (path, w)))
    if case["mode"] == "omit":
        pats = case["omit"]
        paths = case["all_paths"]
        plan.append((f"c05.omit {enc_listlist([[ord(c) for c in p] for p in pats])} {enc_listlist([[ord(c) for c in p] for p in paths])}", "omit", None))
        # the whole output tree, bare parents included
        plan.append((f"c05.omittree {enc_listlist([[ord(c) for c in p] for p in pats])} {enc_listlist([[ord(c) for c in n[0]] for n in case['tree']])}", "omittree", None))
    elif case["mode"] == "crop":
        a, b = case["crop"]
        for path in sorted(exp):
            plan.append((f"c05.crop {src_tokens(exp[path])} {a} {b}", "crop", path))
        for path in sorted(exp):
            # the same observation against the model's slice -> to_dataset -> channel_class -> from_dataset chain
            plan.append((f"c05.cropread {src_tokens(exp[path])} {a} {b}", "cropread", path))
        # time-stamped items: the item crops itself (or cannot), then the keep rule decides; the model is given what the
        # item reported (observed through the public item[a:b]) and predicts presence and the new time attributes
        seen = case.get("_obs", {}).get("keep", {})
        for grp, key in (("Kymograph", "kymos"), ("Marker", "markers"), ("Note", "notes")):
            for it in spec[key]:
                sl = seen.get(f"{grp}/{it['name']}")
                plan.append((f"c05.keepx {sl[0] if sl else 'E'} {sl[1] if sl else 'E'} {a} {b}", "keep", (grp, it["name"])))
        if case.get("crop2"):
            c, d = case["crop2"]
            for path in sorted(exp):
                # the exported file exported again with a second window
                plan.append((f"c05.cropread2 {src_tokens(exp[path])} {a} {b} {c} {d}", "cropread2", path))
    return plan


def sliced_bounds(e, w):
    """start/stop that a (C01-correct) slice of channel e to window w reports, or None when empty"""
    a, b = w
    ts = [t for t in e["ts"] if a <= t < b]
    if not ts:
        return None
    if e["kind"] == "cont":
        return ts[0], ts[0] + len(ts) * e["dt"]
    return ts[0], ts[-1] + 1


def ops(case):
    k = case["op"]
    if k == "cal":
        return [f"c05.cal {enc_list(case['times'])} {case['start']} {case['stop']}"]
    if k == "dt":
        # the double arithmetic of the code, executed (i) by Lean's Float and (ii) exactly over Rat by the model's
        # own round-to-nearest-even (`flDouble`), which is what the theorems are about
        return [f"c05.dt {enc_float(1e9 / case['dt'])}", f"c05.rateq {case['dt']}", f"c05.dtq {enc_rat(1e9 / case['dt'])}"]
    if k == "dtr":
        return [f"c05.dtq {enc_rat(dec_float(case['rate']))}"]
    if k == "dtu":
        return [f"c05.dtu {enc_float(1e9 / case['dt'])}", f"c05.dtqu {enc_rat(1e9 / case['dt'])}"]
    if k == "num":
        return [f"c05.{case['what']} {case['x']}"]
    if k == "tsrate":
        return [f"c05.tsrate {enc_list(case['ts'])}"]
    if k == "omit":
        return [f"c05.omit {enc_listlist([[ord(c) for c in p] for p in case['pats']])} {enc_listlist([[ord(c) for c in p] for p in case['paths']])}"]
    if k == "calchan":
        w = case.get("win")
        return [f"c05.calchan {enc_groups(case['groups'])} {case['ch'].replace(' ', '_')} {src_tokens(case['src'])}" + (f" {w[0]} {w[1]}" if w else "")]
    if k == "omittree":
        return [f"c05.omittree {enc_listlist([[ord(c) for c in p] for p in case['pats']])} {enc_listlist([[ord(c) for c in n[0]] for n in case['tree']])}"]
    if k == "dset":
        return [f"c05.todset {src_tokens(case['src'])}", f"c05.readback {src_tokens(case['src'])}"]
    if k == "class":
        return [f"c05.class {case['kind']} {case['shape']} {enc_bool(case['rate'])}"]
    if k == "cropread":
        return [f"c05.cropread {src_tokens(case['src'])} {case['crop'][0]} {case['crop'][1]}"]
    if k == "cropread2":
        return [f"c05.cropread2 {src_tokens(case['src'])} {case['crop'][0]} {case['crop'][1]} {case['crop2'][0]} {case['crop2'][1]}"]
    if k == "attrs":
        pres = enc_listlist([[ord(c) for c in p] for p in case["present"]])
        if "mapping" in case:
            return [f"c05.attrm {enc_mapping(case['mapping'])} {pres} {a}" for a in attr_names()]
        return [f"c05.attr {pres} {a}" for a in attr_names()]
    if k == "file":
        out = []
        exp = bh.expected_channels(case["spec"])
        for line, kind, payload in file_plan(case):
            out.append(line)
        return out
    raise ValueError(k)


# ------------------------------------------------------------------ impl


def attrs_reading(path, mapping):
    """the File attributes that read this dataset: the fixed table, and for photon channels every colour the
    constructor option maps to this detector (default: the colour of the same name)"""
    g, n = path.split("/")
    for suffix, group in PHOTON_GROUPS.items():
        if g == group:
            return [f"{c.lower()}_{suffix}" for c in COLOURS if (mapping[c] if mapping is not None else c) == n]
    return [ATTR_ACCESS[path]] if path in ATTR_ACCESS else []


def read_all(f, spec, mapping=None):
    """every channel of the spec through lk.File: by path (two spellings) and by attribute"""
    exp = bh.expected_channels(spec)
    got = {}
    for path, e in exp.items():
        g, n = path.split("/")
        try:
            a = show_slice(e["kind"], f[g][n])
            b = show_slice(e["kind"], f[path])
            cs = [show_slice(e["kind"], getattr(f, attr)) for attr in attrs_reading(path, mapping)]
            c = next((x for x in cs if x != a), a)
            got[path] = a if a == b == c else f"access-paths-differ {a[:80]} | {b[:80]} | {c[:80]}"
            if e["kind"] == "ts":
                r = f[g][n].sample_rate
                got[path] += " rate=" + ("None" if r is None else repr(float(r)))
        except Exception as ex:
            got[path] = errname(ex)
    return got


def impl(case):
    lk = _lk()
    k = case["op"]
    try:
        if k == "cal":
            from lumicks.pylake.calibration import _filter_calibration

            items = [{"t": t, "id": i} for i, t in enumerate(case["times"])]
            r = _filter_calibration("t", items, case["start"], case["stop"])
            return [enc_list([x["id"] for x in r])]
        if k == "dt":
            from lumicks.pylake.channel import Continuous

            s = Continuous.from_dataset(FakeDset({"Start time (ns)": 0, "Sample rate (Hz)": 1e9 / case["dt"]}, 3))
            stored = Continuous(np.arange(3.0), 0, case["dt"]).sample_rate  # what to_dataset writes
            s2 = Continuous.from_dataset(FakeDset({"Start time (ns)": 0, "Sample rate (Hz)": stored}, 3))
            return [str(public_dt(s)), enc_rat(float(stored)), str(public_dt(s2))]
        if k == "dtr":
            from lumicks.pylake.channel import Continuous

            s = Continuous.from_dataset(FakeDset({"Start time (ns)": 0, "Sample rate (Hz)": dec_float(case["rate"])}, 3))
            return [str(public_dt(s))]
        if k == "dtu":
            # the expression of the pinned snapshot (finding F7, fixed in /repo) that F7_witness_exact speaks about
            return [str(int(1e9 / (1e9 / case["dt"])))] * 2
        if k == "num":
            from fractions import Fraction

            x = Fraction(case["x"])
            if case["what"] == "round":
                return [str(round(float(x)))]  # x is a double: Python's round on it, as in from_dataset
            return [enc_rat(x.numerator / x.denominator)]  # one correctly rounded division, as in sample_rate
        if k == "tsrate":
            from lumicks.pylake.channel import Slice, TimeSeries

            r_ = Slice(TimeSeries(np.zeros(len(case["ts"])), np.asarray(case["ts"], dtype=np.int64))).sample_rate
            return ["N" if r_ is None else enc_rat(float(r_))]
        if k == "omit":
            return [_omit_impl(case)]
        if k == "dset":
            return _dset_impl(case)
        if k == "omittree":
            return _omittree_impl(case)
        if k == "calchan":
            return _calchan_impl(case)
        if k == "class":
            return _class_impl(case)
        if k == "cropread":
            return _cropread_impl(case)
        if k == "cropread2":
            return _cropread2_impl(case)
        if k == "file":
            return _file_impl(case)
        if k == "attrs":
            return _attrs_impl(case)
    except Exception as ex:
        return [errname(ex)]
    raise ValueError(k)


def _omit_impl(case):
    """drive write_h5's omit rule on a tiny real file whose datasets have exactly the given paths"""
    import h5py

    lk = _lk()
    d = tempfile.mkdtemp(prefix="c05_")
    try:
        src = os.path.join(d, "a.h5")
        with h5py.File(src, "w") as f:
            f.attrs["Bluelake version"] = "x"
            f.attrs["File format version"] = 2
            for p in case["paths"]:
                ds = f.create_dataset(p, data=np.arange(2.0))
                ds.attrs["Kind"] = "Continuous"
                ds.attrs["Start time (ns)"] = 0
                ds.attrs["Stop time (ns)"] = 2
                ds.attrs["Sample rate (Hz)"] = 1e9
        f = lk.File(src)
        out = os.path.join(d, "b.h5")
        f.save_as(out, omit_data=set(case["pats"]) if len(case["pats"]) != 1 else case["pats"][0], verbose=False)
        f.h5.close()
        with h5py.File(out, "r") as g:
            return enc_list([p in g for p in case["paths"]], enc_bool)
    finally:
        shutil.rmtree(d, ignore_errors=True)


def _omittree_impl(case):
    """write_h5's traversal on a small real file with nested groups (with and without attributes)"""
    import h5py

    lk = _lk()
    d = tempfile.mkdtemp(prefix="c05_")
    try:
        src = os.path.join(d, "a.h5")
        with h5py.File(src, "w") as f:
            f.attrs["Bluelake version"] = "x"
            f.attrs["File format version"] = 2
            for path, kind, has_attrs in case["tree"]:
                if kind == "g":
                    g = f.require_group(path)
                    if has_attrs:
                        g.attrs["note"] = "group " + path
                else:
                    ds = f.create_dataset(path, data=np.arange(2.0))
                    ds.attrs["Kind"] = "Continuous"
                    ds.attrs["Start time (ns)"] = 0
                    ds.attrs["Stop time (ns)"] = 2
                    ds.attrs["Sample rate (Hz)"] = 1e9
        f = lk.File(src)
        out = os.path.join(d, "b.h5")
        pats = case["pats"]
        f.save_as(out, omit_data=(pats[0] if len(pats) == 1 else set(pats)) if pats else None, verbose=False)
        with h5py.File(out, "r") as g:
            res = tree_status(f.h5, g, case["tree"])
        f.h5.close()
        return [res]
    finally:
        shutil.rmtree(d, ignore_errors=True)


def _file_impl(case):
    import h5py

    lk = _lk()
    spec = case["spec"]
    exp = bh.expected_channels(spec)
    d = tempfile.mkdtemp(prefix="c05_")
    case["_obs"] = obs = {}
    try:
        src = os.path.join(d, "src.h5")
        bh.write_file(src, spec)
        with warnings.catch_warnings():
            warnings.simplefilter("ignore")
            opening = case.get("open", {})
            route = opening.get("route", "name")
            verbose = bool(case.get("verbose", False))  # progress messages must not change what is written
            f = open_file(src, route, opening.get("mapping"))
            obs["read"] = read_all(f, spec, opening.get("mapping"))
            obs["rates"] = {}
            # path access to a group that is not a channel group (announced by a FutureWarning): the stored members
            try:
                obs["calgroups"] = {c["idx"]: sorted(f["Calibration"][c["idx"]]) for c in spec["calibrations"]}
                if spec["calibrations"]:
                    obs["calgroups"]["/"] = sorted(f["Calibration"])
            except Exception as ex:
                obs["calgroups"] = errname(ex)
            answers = []
            new = new2 = None
            out = os.path.join(d, "out.h5")
            if case["mode"] == "omit":
                pats = case["omit"]
                with contextlib.redirect_stdout(io.StringIO()):
                    f.save_as(out, compression_level=case.get("compression", 5), omit_data=(pats[0] if len(pats) == 1 else set(pats)) if pats else None, verbose=verbose)
            elif case["mode"] == "crop":
                with contextlib.redirect_stdout(io.StringIO()):
                    f.save_as(out, compression_level=case.get("compression", 5), crop_time_range=tuple(case["crop"]), verbose=verbose)
            for line, kind, payload in file_plan(case):
                n_before = len(answers)
                try:
                    if kind == "dt":
                        g, n = payload.split("/")
                        s = f[g][n]
                        answers.append(str(public_dt(s)))
                        obs["rates"][payload] = float(s.sample_rate)
                    elif kind in ("cal", "calslice"):
                        path, w = payload
                        g, n = path.split("/")
                        # every way of reaching the channel lists the same calibration items: by attribute, group by
                        # group, and by its full HDF5 path
                        routes = [f[g][n], f[path]] + ([getattr(f, ATTR_ACCESS[path])] if path in ATTR_ACCESS else [])
                        if w is not None:
                            routes = [r[w[0] : w[1]] for r in routes]
                        lists = [[int(it["cal_id"]) for it in r.calibration] for r in routes]
                        if any(l != lists[0] for l in lists):
                            answers.append(f"calibration-differs-by-access-route chained={lists[0]} path={lists[1]} attr={lists[2] if len(lists) > 2 else '-'}")
                            continue
                        s = routes[-1] if case.get("cal_by_attr", True) else routes[0]
                        answers.append(enc_list([int(it["cal_id"]) for it in s.calibration]))
                        # the model numbers items by the position of their group in h5py order
                        pos = cal_positions(spec)
                        answers[-1] = enc_list([pos[int(it["cal_id"])] for it in s.calibration])
                    elif kind == "omit":
                        with h5py.File(out, "r") as g:
                            flags = []
                            for p in case["all_paths"]:
                                node_src = f.h5[p]
                                if isinstance(node_src, h5py.Dataset):
                                    flags.append(p in g)
                                else:
                                    # a group may be auto-created as parent of a written dataset: it counts as
                                    # exported only if its attributes came along
                                    flags.append(p in g and dict_equal(dict(node_src.attrs), dict(g[p].attrs)))
                            answers.append(enc_list(flags, enc_bool))
                            obs["omit_compare"] = compare_uncropped(f.h5, g, case["all_paths"], flags)
                    elif kind == "keep":
                        grp, name = payload
                        if new is None:
                            new = open_file(out, route)
                        try:
                            it = f[grp][name][slice(*case["crop"])]
                            obs.setdefault("keep", {})[f"{grp}/{name}"] = [int(it.start), int(it.stop)]
                        except (IndexError, TypeError):
                            obs.setdefault("keep", {})[f"{grp}/{name}"] = None
                        if grp in new.h5 and name in new.h5[grp]:
                            at = new.h5[grp][name].attrs
                            answers.append(f"{int(at['Start time (ns)'])} {int(at['Stop time (ns)'])}")
                        else:
                            answers.append("N")
                    elif kind == "omittree":
                        with h5py.File(out, "r") as g:
                            answers.append(tree_status(f.h5, g, case["tree"]))
                    elif kind in ("crop", "cropread", "cropread2"):
                        if new is None:
                            new = open_file(out, route)
                        cur = new
                        if kind == "cropread2":
                            if new2 is None:
                                out2 = os.path.join(d, "out2.h5")
                                with contextlib.redirect_stdout(io.StringIO()):
                                    new.save_as(out2, compression_level=case.get("compression", 5), crop_time_range=tuple(case["crop2"]), verbose=verbose)
                                new2 = open_file(out2, route)
                            cur = new2
                        g, n = payload.split("/")
                        e = exp[payload]
                        if g in cur.h5 and n in cur.h5[g]:
                            s = cur[g][n]
                            txt = show_slice(e["kind"], s)
                            if e["kind"] == "cont":
                                txt = f"cont {int(s.start)} {public_dt(s)} " + txt.split(" ", 1)[1]
                            elif e["kind"] == "tags":
                                txt = f"tags {int(s.start)} {int(s.stop)} " + txt.split(" ", 1)[1]
                            answers.append(txt)
                        else:
                            answers.append("absent")
                except Exception as ex:
                    del answers[n_before:]  # exactly one answer per planned observation, also when it fails half-way
                    answers.append(errname(ex))
            if case["mode"] == "crop" and spec["kymos"]:
                try:
                    obs["kymo"] = kymo_observation(f, new or open_file(out, route), spec, case["crop"])
                except Exception as ex:
                    obs["kymo"] = {"error": repr(ex)}
            if new2 is not None:
                new2.h5.close()
            if new is not None:
                new.h5.close()
            f.h5.close()
        return answers
    finally:
        shutil.rmtree(d, ignore_errors=True)


def tree_status(hsrc, hnew, tree):
    """per source node: A absent, E written with its attributes, I present but bare, P present (a group that has no
    attributes in the source: E and I look the same)"""
    out = []
    for path, kind, has_attrs in tree:
        if path not in hnew:
            out.append("A")
        elif kind == "d":
            out.append("E")
        elif not has_attrs:
            out.append("P")
        else:
            out.append("E" if dict_equal(dict(hsrc[path].attrs), dict(hnew[path].attrs)) else ("I" if len(hnew[path].attrs) == 0 else "partial-attributes"))
    return "[" + ",".join(out) + "]"


def tree_oracle(tree, pats, ans):
    """save_as reproduces every dataset and attribute except omitted paths"""
    got = ans.strip("[]").split(",") if ans != "[]" else []
    if len(got) != len(tree):
        return f"omit: {ans}"
    for (path, kind, has_attrs), st in zip(tree, got):
        omitted = any(_fnmatch.fnmatchcase(path, q) for q in pats)
        if not omitted and st not in ("E", "P"):
            return f"save_as(omit={pats}): {path} is not omitted but is {st} in the new file"
        if omitted and (st == "E" or (kind == "d" and st != "A")):
            return f"save_as(omit={pats}): {path} is omitted but is {st} in the new file"
    return None


def dict_equal(a, b):
    if set(a) != set(b):
        return False
    for k in a:
        x, y = a[k], b[k]
        try:
            if isinstance(x, bytes):
                x = x.decode()
            if isinstance(y, bytes):
                y = y.decode()
            if not np.array_equal(np.asarray(x), np.asarray(y)):
                return False
        except Exception:
            return False
    return True


def compare_uncropped(hsrc, hnew, paths, flags):
    """for every exported dataset: identical data, dtype and attributes; root attributes identical"""
    import h5py

    problems = []
    if not dict_equal(dict(hsrc.attrs), dict(hnew.attrs)):
        problems.append("root attributes differ")
    for p, fl in zip(paths, flags):
        node = hsrc[p]
        if not isinstance(node, h5py.Dataset) or p not in hnew:
            continue
        new = hnew[p]
        a, b = node[()], new[()]
        same = (a == b) if isinstance(a, (bytes, str)) else (np.asarray(a).dtype == np.asarray(b).dtype and np.array_equal(a, b))
        if not same:
            problems.append(f"dataset {p} differs")
        if not dict_equal(dict(node.attrs), dict(new.attrs)):
            problems.append(f"attributes of {p} differ")
    return problems


def kymo_observation(f, new, spec, crop):
    """original kymograph lines that lie entirely inside the window vs the new file's kymograph"""
    k = spec["kymos"][0]
    a, b = crop
    orig = f.kymos[k["name"]]
    img = orig.get_image("red")
    ranges = orig.line_timestamp_ranges(include_dead_time=False)
    inside = [i for i, (t0, t1) in enumerate(ranges) if a <= t0 and t1 <= b]
    started = [i for i, (t0, t1) in enumerate(ranges) if a <= t0 < b]
    res = {"inside": inside, "started": started, "n_lines": len(ranges)}
    kd = new.kymos
    if k["name"] not in kd:
        res["present"] = False
        return res
    res["present"] = True
    nk = kd[k["name"]]
    try:
        nimg = nk.get_image("red")
        res["new_cols"] = [[int(x) for x in nimg[:, j]] for j in range(nimg.shape[1])] if nimg.ndim == 2 else []
    except Exception as ex:
        res["new_cols"] = None
        res["error"] = repr(ex)
    res["orig_cols"] = {i: [int(x) for x in img[:, i]] for i in started}
    return res


# ------------------------------------------------------------------ oracle


def oracle(case, ia):
    k = case["op"]
    if k == "cal":
        items = sorted(enumerate(case["times"]), key=lambda x: x[1])  # Python sort: stable
        a, b = case["start"], case["stop"]
        pre = [i for i, t in items if t <= a]
        exp = ([pre[-1]] if pre else []) + [i for i, t in items if a < t < b]
        return None if ia[0] == enc_list(exp) else f"calibration-filter: got {ia[0]}, the items that apply to [{a},{b}) are {enc_list(exp)}"
    if k == "dt":
        if ia[0] != str(case["dt"]) or (len(ia) > 2 and ia[2] != str(case["dt"])):
            return f"sample-period: stored rate 1e9/{case['dt']} Hz was read back with period {ia[0]} / {ia[-1]} ns"
        if len(ia) > 1:
            from fractions import Fraction

            # the stored rate is the period's rate to double precision (the hypothesis of period_round_trip)
            exact = Fraction(10**9, case["dt"])
            try:
                p_, q_ = ia[1].split("/")
                got = Fraction(int(p_), int(q_))
            except Exception:
                return f"sample-rate: {ia[1]}"
            if abs(got - exact) * 2**53 > exact:
                return f"sample-rate: a {case['dt']} ns channel stores {float(got)!r} Hz, not 1e9/{case['dt']} to double precision"
        return None
    if k == "num":
        from fractions import Fraction

        x = Fraction(case["x"])
        try:
            p_, q_ = (ia[0].split("/") + ["1"])[:2]
            got = Fraction(int(p_), int(q_))
        except Exception:
            return f"{case['what']}: {ia[0]}"
        if case["what"] == "round":
            ok = abs(got - x) <= Fraction(1, 2) and (abs(got - x) < Fraction(1, 2) or got % 2 == 0)
        else:
            ok = abs(got - x) * 2**53 <= abs(x)
        return None if ok else f"arithmetic: {case['what']}({case['x']}) = {ia[0]}"
    if k == "tsrate":
        from fractions import Fraction

        ts = case["ts"]
        steps = {b - a for a, b in zip(ts, ts[1:])}
        if len(steps) != 1:
            return None if ia[0] == "N" else f"sample-rate: a time series with steps {sorted(steps)} reports {ia[0]}"
        exact = Fraction(10**9, steps.pop())
        try:
            p_, q_ = ia[0].split("/")
            got = Fraction(int(p_), int(q_))
        except Exception:
            return f"sample-rate: a regular time series reports {ia[0]}"
        return None if abs(got - exact) * 2**53 <= abs(exact) else f"sample-rate: a regular time series of step {Fraction(10**9) / exact} ns reports {float(got)!r} Hz"
    if k == "dtr":
        from fractions import Fraction

        # the period read is a nearest integer to 1e9/rate (one ulp of slack for the rounded division)
        exact = Fraction(10**9) / Fraction(dec_float(case["rate"]))
        try:
            got = int(ia[0])
        except ValueError:
            return f"sample-period: rate {dec_float(case['rate'])!r} Hz read as {ia[0]}"
        if abs(got - exact) > Fraction(1, 2) + exact / 2**52:
            return f"sample-period: rate {dec_float(case['rate'])!r} Hz read back with period {got} ns, nearest is {float(exact)!r}"
        return None
    if k == "omit":
        exp = enc_list([not any(_fnmatch.fnmatchcase(p, q) for q in case["pats"]) for p in case["paths"]], enc_bool)
        return None if ia[0] == exp else f"omit: datasets present {ia[0]}, expected {exp} for patterns {case['pats']}"
    if k == "file":
        return _file_oracle(case, ia)
    if k == "calchan":
        e = case["src"]
        smp = src_samples(e)
        if case.get("win"):
            smp = [(t, v) for t, v in smp if case["win"][0] <= t < case["win"][1]]
        if not smp:
            return None  # no sample: no time range to speak of
        want = applicable(case["groups"], case["ch"], smp[0][0], smp[-1][0] + (e["dt"] if e["kind"] == "cont" else 1))
        return None if ia[0] == enc_list(want) else f"calibration: channel {case['ch']}{case.get('win') or ''} lists groups {ia[0]}, applicable to its time range are {enc_list(want)}"
    if k == "omittree":
        return tree_oracle(case["tree"], case["pats"], ia[0])
    if k == "dset":
        # re-export without loss: what is read from the written dataset is the channel that was written
        e = case["src"]
        smp = src_samples(e)
        if e["kind"] == "ts" and not smp:
            return None  # an empty time series has no time range; it is never written (dropped by the crop rule)
        body = "[" + ",".join(f"{t}:{v}" for t, v in smp) + "]"
        if e["kind"] == "cont":
            want = f"cont {e['start']} {e['dt']} {body}"
        elif e["kind"] == "ts":
            want = "ts " + body
        else:
            want = None if ia[1].startswith("tags ") and ia[1].split(" ")[3] == enc_list(e["ts"]) else "tags ... " + enc_list(e["ts"])
        if want is not None and ia[1] != want:
            return f"write/read: a channel written with to_dataset reads back as {ia[1][:200]}, it was {want[:200]}"
        return None
    if k == "class":
        kd = case["kind"].split(":", 1)[-1]
        if kd in ("Continuous", "TimeSeries", "TimeTags") and ia[0] != kd:
            return f"channel kind: a dataset marked {case['kind']} is read as {ia[0]}"
        if case["kind"] == "absent" and case["shape"] == "compound" and ia[0] != "TimeSeries":
            return f"channel kind: a v1 compound dataset is read as {ia[0]}"
        if case["kind"] == "absent" and case["shape"] == "plain" and case["rate"] and ia[0] != "Continuous":
            return f"channel kind: a v1 dataset with a sample rate is read as {ia[0]}"
        return None
    if k in ("cropread", "cropread2"):
        a, b = case["crop"]
        if k == "cropread2":
            a, b = max(a, case["crop2"][0]), min(b, case["crop2"][1])
        e = case["src"]
        kept = [(t, v) for t, v in src_samples(e) if a <= t < b]
        if not kept:
            return None if ia[0] == "absent" else f"crop [{a},{b}): no sample in the window but the channel is written: {ia[0][:200]}"
        body = "[" + ",".join(f"{t}:{v}" for t, v in kept) + "]"
        if e["kind"] == "cont":
            want = f"cont {kept[0][0]} {e['dt']} {body}"
            got = ia[0]
        elif e["kind"] == "ts":
            want, got = "ts " + body, ia[0]
        else:
            want = "tags " + enc_list([t for t, _ in kept])
            toks = ia[0].split(" ")
            got = "tags " + toks[-1] if toks[0] == "tags" else ia[0]
        if got != want:
            return f"crop [{a},{b}): the exported channel reads back as {ia[0][:200]}, the original sliced to the window is {want[:200]}"
        return None
    if k == "attrs":
        # from the documented naming scheme: the attribute's own dataset, or nothing — never another channel
        pres = set(case["present"])
        for a, got in zip(attr_names(), ia):
            m = re.fullmatch(r"(corrected_|downsampled_)?force(\d)([xyz]?)", a)
            if m and m.group(1) == "downsampled_" and not m.group(3):
                n = m.group(2)
                cands = [f"Force LF/Force {n}", f"Force LF/Trap {n}"]
                want = next(("path " + c for c in cands if c in pres), None)
                if want is None:
                    x, y = f"Force LF/Force {n}x", f"Force LF/Force {n}y"
                    want = f"magnitude {x} | {y}" if x in pres and y in pres else "empty"
            else:
                if m:
                    path = {None: "Force HF/Force ", "corrected_": "Force HF/Corrected Force ", "downsampled_": "Force LF/Force "}[m.group(1)] + m.group(2) + m.group(3)
                elif a.startswith("distance"):
                    path = "Distance/Distance " + a[-1]
                else:
                    # colour attributes: the detector the constructor option maps the colour to (default: its namesake)
                    path = colour_attr_path(a, case.get("mapping"))
                want = "path " + path if path in pres else "empty"
            if got != want:
                opt = f" opened with rgb_to_detectors={case['mapping']!r}" if case.get("mapping") is not None else ""
                return f"channel-by-attribute: File.{a} gave {got!r}; the file{opt} holds {sorted(pres)!r}, so it should give {want!r}"
        return None
    return None


def _file_oracle(case, ia):
    spec = case["spec"]
    exp = bh.expected_channels(spec)
    obs = case.get("_obs", {})
    if len(ia) == 1 and ia[0].endswith("Error") and not file_plan(case)[0][1] == "omit":
        if len(file_plan(case)) != 1:
            return f"file: unexpected {ia[0]} while reading/exporting"
    # read faithfulness
    for path, e in exp.items():
        want = show(e["kind"], e["ts"], e["data"])
        if e["kind"] == "ts":
            steps = sorted({b - a for a, b in zip(e["ts"], e["ts"][1:])})
            want += " rate=" + (repr(1e9 / steps[0]) if len(steps) == 1 else "None")
        got = obs.get("read", {}).get(path)
        if got != want:
            return f"read: channel {path} read as {str(got)[:200]} but the file stores {want[:200]}"
        if e["kind"] == "cont" and path in obs.get("rates", {}):
            if obs["rates"][path] != 1e9 / e["dt"]:
                return f"read: sample rate of {path} is {obs['rates'][path]!r}, stored {1e9 / e['dt']!r}"
    want_groups = {c["idx"]: sorted(c["channels"]) for c in spec["calibrations"]}
    if spec["calibrations"]:
        want_groups["/"] = sorted(want_groups)
    if "calgroups" in obs and obs["calgroups"] != want_groups:
        return f"read: File['Calibration'] lists {obs['calgroups']!r}, the file stores {want_groups!r}"
    plan = file_plan(case)
    for (line, kind, payload), ans in zip(plan, ia):
        if kind == "dt":
            if ans != str(exp[payload]["dt"]):
                return f"read: period of {payload} read as {ans}, file stores 1e9/{exp[payload]['dt']} Hz"
        elif kind in ("cal", "calslice"):
            path, w = payload
            chname = path.split("/")[1]
            e = exp[path]
            sb = sliced_bounds(e, w) if w is not None else ((e["ts"][0], e["ts"][0] + len(e["ts"]) * e["dt"]) if e["kind"] == "cont" else (e["ts"][0], e["ts"][-1] + 1))
            want = [] if sb is None else applicable(cal_groups(spec), chname, sb[0], sb[1])
            if ans != enc_list(want):
                return f"calibration: {path}{'' if w is None else list(w)} lists items {ans}, applicable are {enc_list(want)}"
        elif kind == "omit":
            want = [not any(_fnmatch.fnmatchcase(p, q) for q in case["omit"]) for p in case["all_paths"]]
            if ans != enc_list(want, enc_bool):
                return f"save_as(omit={case['omit']}): exported flags {ans} for {case['all_paths']}, expected {enc_list(want, enc_bool)}"
            if obs.get("omit_compare"):
                return "save_as without cropping: " + "; ".join(obs["omit_compare"][:3])
        elif kind == "omittree":
            r = tree_oracle(case["tree"], case["omit"], ans)
            if r:
                return r
        elif kind in ("crop", "cropread2"):
            a, b = case["crop"]
            if kind == "cropread2":
                a, b = max(a, case["crop2"][0]), min(b, case["crop2"][1])
            e = exp[payload]
            kept = [(t, v) for t, v in zip(e["ts"], e["data"]) if a <= t < b]
            if not kept:
                if ans != "absent":
                    return f"crop [{a},{b}): channel {payload} has no sample in the window but the new file holds {ans[:200]}"
            else:
                want = show(e["kind"], [t for t, _ in kept], [v for _, v in kept])
                got = ans
                toks = ans.split(" ")
                if toks[0] in ("cont", "tags") and len(toks) == 4:
                    got = toks[0] + " " + toks[3]
                if got != want:
                    return f"crop [{a},{b}): channel {payload} in the new file is {ans[:200]}, the original sliced to the window is {want[:200]}"
    ko = obs.get("kymo")
    if ko is not None:
        if "error" in ko and "new_cols" not in ko:
            return None  # kymograph could not be observed on the source either: nothing to judge
        if ko["inside"]:
            if not ko.get("present"):
                return f"crop: kymograph lines {ko['inside']} lie entirely inside the window but the new file has no kymograph"
            cols = ko.get("new_cols")
            if cols is None:
                return f"crop: the new file's kymograph cannot be reconstructed: {ko.get('error')}"
            started = ko["started"]
            for i in ko["inside"]:
                j = started.index(i)
                if j >= len(cols) or cols[j] != ko["orig_cols"][i]:
                    return f"crop: kymograph line {i} lies entirely inside the window but is not reproduced unchanged (new column {j})"
            if len(cols) > len(started):
                return f"crop: the new kymograph has {len(cols)} lines but only {len(started)} original lines start inside the window"
    return None


def agree(case, i, ia, ma):
    if ia.startswith("[") and ("P" in ia) and (case["op"] == "omittree" or (case["op"] == "file" and i < len(file_plan(case)) and file_plan(case)[i][1] == "omittree")):
        a, m = ia.strip("[]").split(","), ma.strip("[]").split(",")
        return len(a) == len(m) and all(x == y or (x == "P" and y in ("E", "I")) for x, y in zip(a, m))
    if case["op"] == "file":
        plan = file_plan(case)
        if i < len(plan) and plan[i][1] in ("crop", "cropread", "cropread2"):
            # the model prints its full source; compare the samples (and, for non-empty continuous results, the start)
            if ma == "absent" or ia == "absent":
                return ia == ma
            ti, tm = ia.split(" "), ma.split(" ")
            if ti[0] != tm[0]:
                return False
            return ti[-1] == tm[-1] and (ti[0] != "cont" or ti[1:3] == tm[1:3])
    return ia == ma


def nontrivial(case, ia):
    k = case["op"]
    if k in ("cal", "omit"):
        return ia[0] not in ("[]",) and ("T" in ia[0] or "F" in ia[0] or any(ch.isdigit() for ch in ia[0]))
    if k in ("dt", "dtr", "dtu", "num"):
        return True
    if k == "tsrate":
        return len(case["ts"]) >= 2
    if k == "attrs":
        return len(case["present"]) > 0
    if k in ("dset", "class"):
        return True
    if k == "omittree":
        return "A" in ia[0] or "I" in ia[0]
    if k == "calchan":
        return len(case["groups"]) > 0 and ia[0] != "[]"
    if k in ("cropread", "cropread2"):
        return len(src_samples(case["src"])) > 0
    if k == "file":
        if case["mode"] == "crop":
            return any(a == "absent" for a in ia) or any(a.startswith(("cont", "ts", "tags")) for a in ia)
        return True
    return False


def tags(case, r):
    return {"op": case["op"], "mode": case.get("mode")}


def shrink(case):
    if case["op"] == "file":
        spec = case["spec"]
        for key in ("markers", "notes", "kymos", "calibrations"):
            if spec[key]:
                s2 = dict(spec)
                s2[key] = []
                c = dict(case, spec=s2)
                c.pop("_obs", None)
                yield finalize(c)
        if len(spec["channels"]) > 1:
            for i in range(len(spec["channels"])):
                s2 = dict(spec)
                s2["channels"] = spec["channels"][:i] + spec["channels"][i + 1 :]
                c = dict(case, spec=s2)
                c.pop("_obs", None)
                yield finalize(c)
        for i, ch in enumerate(spec["channels"]):
            if ch["kind"] == "cont" and ch["n"] > 1:
                s2 = dict(spec)
                s2["channels"] = list(spec["channels"])
                s2["channels"][i] = dict(ch, n=ch["n"] // 2)
                c = dict(case, spec=s2)
                c.pop("_obs", None)
                yield finalize(c)
    elif case["op"] == "cal" and len(case["times"]) > 1:
        for i in range(len(case["times"])):
            yield dict(case, times=case["times"][:i] + case["times"][i + 1 :])


# ------------------------------------------------------------------ generators


def all_paths(spec, with_tree=False):
    """every dataset path, and every group that carries attributes, of the written file in visititems order.
    (A group without attributes that is omitted is re-created implicitly as the parent of a written dataset and
    cannot be told apart from an exported one, so it is not an observable.)
    with_tree: also every node as [path, "d" | "g", has attributes]."""
    import h5py

    d = tempfile.mkdtemp(prefix="c05p_")
    try:
        p = os.path.join(d, "x.h5")
        bh.write_file(p, spec)
        names = []
        with h5py.File(p, "r") as f:
            f.visit(names.append)
            tree = [[n, "d" if isinstance(f[n], h5py.Dataset) else "g", len(f[n].attrs) > 0] for n in names]
            names = [n for n in names if isinstance(f[n], h5py.Dataset) or len(f[n].attrs) > 0]
        return (names, tree) if with_tree else names
    finally:
        shutil.rmtree(d, ignore_errors=True)


def finalize(case):
    case = dict(case)
    case["all_paths"], case["tree"] = all_paths(case["spec"], with_tree=True)
    return case


def gen_pattern(rng, paths):
    p = rng.choice(paths)
    c = rng.randint(0, 6)
    if c == 0:
        return p
    if c == 1:
        return p.split("/")[0] + "/*"
    if c == 2:
        return "*/" + p.split("/")[-1]
    if c == 3:
        i = rng.randint(0, len(p) - 1)
        return p[:i] + "?" + p[i + 1 :]
    if c == 4:
        i = rng.randint(0, len(p))
        return p[:i] + "*"
    if c == 5:
        return "*" + p[rng.randint(0, len(p)) :]
    return rng.choice(["*", "Force*", "*x", "*1?", "Nope/*", "?orce HF/*", "*/*/*"])


def crop_windows(rng, spec, n):
    exp = bh.expected_channels(spec)
    pts = []
    for e in exp.values():
        if e["ts"]:
            dt = e["dt"] or 1
            for p in (e["ts"][0], e["ts"][-1], e["ts"][len(e["ts"]) // 2]):
                pts += [p, p + 1, p - 1, p + dt, p - dt, p - 2 * dt, p - 3 * dt - 1, p + 2 * dt]
    for k in spec["kymos"]:
        iw = bh.infowave(k["P"], k["L"], k["k"], k["pad"], k["lead"])
        line = (2 * k["pad"] + k["P"] * k["k"]) * k["dt"]
        for l in range(k["L"] + 1):
            t = k["start"] + k["lead"] * k["dt"] + l * line
            pts += [t, t + k["pad"] * k["dt"], t - 1, t + 1, t + line - k["pad"] * k["dt"]]
    if not pts:
        pts = [0, 10]
    out = []
    for _ in range(n):
        a, b = rng.choice(pts), rng.choice(pts)
        if rng.chance(0.85) and a > b:
            a, b = b, a
        out.append([int(a), int(b)])
    return out


def file_case(rng, stream, size="small", mode=None, version=None):
    spec = bh.make_spec(rng, version=version, size=size)
    r2 = rng.fork("cal-notime")
    for c in spec["calibrations"]:
        for nm in list(c["channels"]):
            if r2.chance(0.15):
                # a calibration entry without the time field is skipped by from_field
                c["channels"][nm] = {k_: v_ for k_, v_ in c["channels"][nm].items() if k_ != "Stop time (ns)"}
    # how the File is constructed: by name or from an h5py handle; for files without images, photon channels under
    # standard and custom detector names and a colour -> detector mapping given to the constructor
    r4 = rng.fork("open")
    opening = {"route": r4.choice(["name", "h5py"]), "mapping": None}
    if not spec["kymos"] and r4.chance(0.5):
        hf = next(c for c in spec["channels"] if c["kind"] == "cont")
        names = r4.sample(list(COLOURS) + list(DETECTORS), r4.randint(1, 3))
        for j, nm in enumerate(names):
            n = r4.randint(1, 12)
            spec["channels"].append({"group": "Photon count", "name": nm, "kind": "cont", "start": hf["start"] + r4.randint(0, 3) * hf["dt"], "dt": hf["dt"],
                                     "n": n, "dtype": "u4", "values": [50 * (j + 1) + i for i in range(n)]})
        if r4.chance(0.85):
            opening["mapping"] = {c: r4.choice(names + names + ["None", "Detector 9"] + list(COLOURS)) for c in COLOURS}
    mode = mode or rng.choice(["omit", "crop", "crop"])
    case = {"stream": stream, "op": "file", "spec": spec, "mode": mode, "compression": rng.choice([0, 1, 5, 9]), "cal_by_attr": rng.chance(0.5), "open": opening,
            "verbose": r4.chance(0.3)}
    case = finalize(case)
    case["cal_windows"] = crop_windows(rng, dict(spec, kymos=[]), 2)
    if mode == "omit":
        npat = rng.choice([0, 1, 1, 2, 3])
        case["omit"] = [gen_pattern(rng, case["all_paths"]) for _ in range(npat)]
    else:
        case["crop"] = crop_windows(rng, spec, 1)[0]
        r3 = rng.fork("crop2")
        if r3.chance(0.4):
            case["crop2"] = crop_windows(r3, dict(spec, kymos=[]), 1)[0]
    return case


def cases(tier, rng):
    import itertools

    quick = tier == "quick"
    # ---- corpus
    for dt in (55, 57, 110, 12800, 1, 2**50, 2**50 - 1, 10**9, 10**9 + 1):
        yield {"stream": "corpus", "op": "dt", "dt": dt}
    # F1 consequence: a crop window that ends more than one period before a channel begins
    spec = {
        "version": 2, "root_attrs": {"Bluelake version": "unknown", "Experiment": "e", "Description": "d", "GUID": "g", "Export time (ns)": 1},
        "channels": [
            {"group": "Force HF", "name": "Force 1x", "kind": "cont", "start": 1000, "dt": 10, "n": 10, "dtype": "f8"},
            {"group": "Force HF", "name": "Force 2x", "kind": "cont", "start": 100, "dt": 10, "n": 10, "dtype": "f8"},
        ],
        "calibrations": [], "markers": [], "notes": [], "kymos": [],
    }
    yield finalize({"stream": "corpus", "op": "file", "spec": spec, "mode": "crop", "crop": [100, 990], "cal_windows": []})
    yield finalize({"stream": "corpus", "op": "file", "spec": spec, "mode": "crop", "crop": [0, 150], "cal_windows": []})
    # the shortest items there are: kymograph lines of one 1-ns sample without dead time (a one-line crop lasts 1 ns: the
    # `stop - start > 0` edge of the keep rule), and the same with two pixels / with dead time; windows on every line edge
    for P, k, pad in ((1, 1, 0), (2, 1, 0), (1, 1, 1)):
        kspec = dict(spec, channels=[{"group": "Force HF", "name": "Force 1x", "kind": "cont", "start": 1000, "dt": 1, "n": 16, "dtype": "f8"}],
                     kymos=[{"name": "k1", "P": P, "L": 4, "k": k, "pad": pad, "start": 1000, "dt": 1, "lead": 1, "pixel_nm": 100.0}])
        line = 2 * pad + P * k
        for a, b in ((1001, 1001 + line), (1001 + line, 1001 + 2 * line), (1001, 1001 + 2 * line), (1000, 1001), (1001 + 3 * line, 1001 + 4 * line),
                     (1001 + 4 * line, 1100), (990, 1000)):
            yield finalize({"stream": "corpus", "op": "file", "spec": kspec, "mode": "crop", "crop": [a, b], "cal_windows": []})
    yield {"stream": "corpus", "op": "cal", "times": [5, 5, 3, 5], "start": 5, "stop": 9}

    # ---- exhaustive small scopes
    grid = [0, 5, 10, 15]
    for n in range(0, 4 if quick else 5):
        for times in itertools.product(grid, repeat=n):
            for a, b in ((5, 10), (4, 11), (10, 5), (-1, 20), (16, 20), (5, 5)):
                yield {"stream": "small-scope", "op": "cal", "times": list(times), "start": a, "stop": b}
    for dt in range(1, 3001 if quick else 30001):
        yield {"stream": "small-scope", "op": "dt", "dt": dt}
    # ---- the arithmetic the sample-period theorems are about: round-half-even, one correctly rounded division,
    #      arbitrary stored rates around half-way periods, and the truncating read-back of the pinned snapshot
    for kq in range(-42, 43):
        yield {"stream": "small-scope", "op": "num", "what": "round", "x": f"{kq}/4"}
    for pn in list(range(1, 13)) + [10**9, 2**53 - 1, 2**53 + 1, 2**54 + 2, 2**54 + 6]:
        for qn in list(range(1, 13)) + [55, 2**53 - 1]:
            yield {"stream": "small-scope", "op": "num", "what": "fl", "x": f"{pn}/{qn}"}
    for n_ in range(1, 61 if quick else 400):
        for rate in (1e9 / (n_ + 0.5), float(np.nextafter(1e9 / (n_ + 0.5), 0.0)), float(np.nextafter(1e9 / (n_ + 0.5), 1e300)), 1e9 / n_):
            yield {"stream": "small-scope", "op": "dtr", "rate": enc_float(rate)}
    for dt in list(range(1, 201 if quick else 3001)):
        yield {"stream": "small-scope", "op": "dtu", "dt": dt}
    # ---- sample rate of a time series: every increment pattern on up to 4 samples, and longer random ones
    for n_ in range(0, 5):
        for inc in itertools.product([0, 1, 2, 7], repeat=max(n_ - 1, 0)):
            if n_ >= 2 and set(inc) == {0}:
                continue  # a unique step of 0 divides by zero: outside the model
            ts_ = [100]
            for d_ in inc:
                ts_.append(ts_[-1] + d_)
            yield {"stream": "small-scope", "op": "tsrate", "ts": ts_[:n_]}
    r = rng.fork("c05-tsrate")
    for i in range(60 if quick else 1000):
        sub = r.fork(i)
        step = sub.choice([1, 3, 55, 1000, 12800, sub.randint(1, 10**9)])
        n_ = sub.randint(2, 12)
        base_ = sub.choice([0, 1_600_000_000_000_000_000])
        ts_ = [base_ + j * step for j in range(n_)]
        if sub.chance(0.4):
            ts_[sub.randint(1, n_ - 1)] += sub.choice([1, -1]) if step > 1 else 1
            ts_ = sorted(ts_)
            if len({b - a for a, b in zip(ts_, ts_[1:])}) == 1 and ts_[1] == ts_[0]:
                continue
        yield {"stream": "random", "op": "tsrate", "ts": ts_, "subseed": i}
    paths = ["Force HF/Force 1x", "Force HF/Force 1y", "Force LF/Force 1x", "Distance/Distance 1", "a", "ab"]
    pats = ["*", "?", "a", "a*", "*a", "?b", "Force HF/*", "*/Force 1x", "Force HF/Force 1?", "Force*1x", "*/*", "Force HF", "**", "*?*", "F*e*x", ""]
    for p in pats:
        yield {"stream": "small-scope", "op": "omit", "pats": [p], "paths": paths}
    for p, q in itertools.combinations(pats[:8], 2):
        yield {"stream": "small-scope", "op": "omit", "pats": [p, q], "paths": paths}

    # ---- random direct ops
    r = rng.fork("c05-direct")
    for i in range(300 if quick else 5000):
        sub = r.fork(i)
        n = sub.randint(0, 8)
        base = sub.choice([0, 10**18])
        times = [base + sub.randint(0, 12) for _ in range(n)]
        a = base + sub.randint(-2, 12)
        b = base + sub.randint(-2, 14)
        yield {"stream": "random", "op": "cal", "times": times, "start": a, "stop": b, "subseed": i}
    for i in range(2000 if quick else 60000):
        sub = r.fork(("dt", i))
        yield {"stream": "random", "op": "dt", "dt": sub.choice([sub.randint(1, 10**5), sub.randint(1, 10**9), sub.randint(1, 10**7)]), "subseed": i}
    for i in range(600 if quick else 8000):
        # periods up to 2^50 (the range of period_round_trip) and arbitrary stored rates, incl. rates whose period
        # is (nearly) half-way between two integers
        sub = r.fork(("dtbig", i))
        c = sub.randint(0, 3)
        if c == 0:
            yield {"stream": "random", "op": "dt", "dt": min(max(2 ** sub.randint(0, 50) + sub.randint(-3, 3), 1), 2**50) if sub.chance(0.5) else sub.randint(1, 2**50), "subseed": i}
            continue
        n = sub.choice([sub.randint(1, 200), sub.randint(1, 10**6), sub.randint(1, 2**40)])
        if c == 1:
            rate = 1e9 / (n + 0.5)
        elif c == 2:
            rate = float(np.nextafter(1e9 / (n + 0.5), sub.choice([0.0, 1e300])))
        else:
            rate = sub.randint(1, 10**9) / sub.choice([1, 3, 7, 1000, 4096])
        yield {"stream": "random", "op": "dtr", "rate": enc_float(rate), "subseed": i}
        if i % 4 == 0:
            yield {"stream": "random", "op": "num", "what": "fl", "x": f"{sub.randint(1, 2**62)}/{sub.randint(1, 2**40)}", "subseed": i}
    for i in range(40 if quick else 400):
        sub = r.fork(("omit", i))
        ps = ["G%d/d%d" % (sub.randint(0, 2), sub.randint(0, 3)) for _ in range(sub.randint(1, 4))] + ["Force HF/Force 1x"]
        ps = sorted(set(ps))
        pats_ = [gen_pattern(sub, ps) for _ in range(sub.randint(1, 3))]
        yield {"stream": "random", "op": "omit", "pats": pats_, "paths": ps, "subseed": i}

    # ---- datasets: channel_class on every (Kind spelling, dataset shape, sample-rate attribute) combination
    for kd in ["absent"] + [f"{sp}:{t}" for sp in ("str", "bytes") for t in ("Continuous", "TimeSeries", "TimeTags", "Scan", "continuous", "Kymograph")]:
        for shape in ("plain", "compound"):
            for rate in (False, True):
                yield {"stream": "small-scope", "op": "class", "kind": kd, "shape": shape, "rate": rate}
    # ---- to_dataset -> channel_class -> from_dataset, and the cropped variant, on every small channel / window
    small_srcs = []
    for start in (100,):
        for dt in (1, 3, 55):
            for n in range(0, 4):
                small_srcs.append({"kind": "cont", "start": start, "dt": dt, "data": [7 + i for i in range(n)]})
    for ts in ([], [100], [100, 103], [100, 103, 103], [100, 101, 106, 109]):
        small_srcs.append({"kind": "ts", "ts": ts})
        small_srcs.append({"kind": "tags", "ts": ts})
    for e in small_srcs:
        yield {"stream": "small-scope", "op": "dset", "src": e}
    wgrid = [94, 97, 100, 101, 103, 104, 106, 109, 110, 155, 156, 300]
    for e in small_srcs:
        for a in wgrid:
            for b in wgrid:
                if quick and (a > b + 10 or (len(src_samples(e)) == 0 and a != 100)):
                    continue
                yield {"stream": "small-scope", "op": "cropread", "src": e, "crop": [a, b]}
    w2 = [97, 100, 103, 106, 110, 300]
    for e in small_srcs:
        if len(src_samples(e)) < 2:
            continue
        for a in w2:
            for b in w2:
                for c in w2:
                    for d_ in w2:
                        if a < b and c < d_ and (not quick or (a + b + c + d_) % 3 == 0):
                            yield {"stream": "small-scope", "op": "cropread2", "src": e, "crop": [a, b], "crop2": [c, d_]}
    r = rng.fork("c05-dset")
    for i in range(300 if quick else 3000):
        sub = r.fork(i)
        kind = sub.choice(["cont", "cont", "ts", "tags"])
        base = sub.choice([0, 1_600_000_000_000_000_000])
        n = sub.randint(0, 12)
        if kind == "cont":
            dt = sub.choice([sub.randint(1, 200), sub.randint(1, 10**9), 2 ** sub.randint(0, 40), 12800])
            e = {"kind": "cont", "start": base + sub.randint(0, 1000), "dt": dt, "data": [sub.randint(-50, 50) for _ in range(n)]}
            lo, hi, step = e["start"], e["start"] + n * dt, dt
        else:
            step = sub.choice([1, 3, 1000])
            ts, t = [], base + sub.randint(0, 1000)
            for _ in range(n):
                ts.append(t)
                t += sub.randint(0 if kind == "ts" else 1, 3) * step
            e = {"kind": kind, "ts": ts}
            lo, hi = (ts[0], ts[-1] + 1) if ts else (base, base + 1)
        if sub.chance(0.3):
            yield {"stream": "random", "op": "dset", "src": e, "subseed": i}
        else:
            pts = [lo, hi, lo - 1, lo + 1, hi - 1, hi + 1, lo + step, hi - step, lo - 3 * step, hi + 3 * step, (lo + hi) // 2, (lo + hi) // 2 + 1]
            a, b = sub.choice(pts), sub.choice(pts)
            if a > b and sub.chance(0.8):
                a, b = b, a
            if sub.chance(0.35):
                c, d_ = sorted([sub.choice(pts), sub.choice(pts)])
                yield {"stream": "random", "op": "cropread2", "src": e, "crop": [int(a), int(b)], "crop2": [int(c), int(d_)], "subseed": i}
                continue
            yield {"stream": "random", "op": "cropread", "src": e, "crop": [int(a), int(b)], "compression": sub.choice([0, 1, 5, 9]), "subseed": i}

    # ---- calibration of a channel: Calibration groups -> from_field -> slice -> filter
    ent = [None, "absent", 95, 100, 105, 110, 130]
    csrc = [{"kind": "cont", "start": 100, "dt": 10, "data": [1, 2, 3]}, {"kind": "ts", "ts": [100, 104, 110]}]
    wins = [None, [100, 130], [101, 111], [105, 125], [111, 200], [0, 100]]
    for e in csrc:
        for w in wins:
            for g1 in ent:
                yield {"stream": "small-scope", "op": "calchan", "groups": [] if g1 == "absent" else [{"Force 1x": g1, "Force 2x": 100}], "ch": "Force 1x", "src": e, "win": w}
                for g2 in ent:
                    if quick and w not in (None, [105, 125]):
                        continue
                    groups = [({} if g == "absent" else {"Force 1x": g}) for g in (g1, g2)]
                    yield {"stream": "small-scope", "op": "calchan", "groups": groups, "ch": "Force 1x", "src": e, "win": w}
    r = rng.fork("c05-calchan")
    for i in range(200 if quick else 2000):
        sub = r.fork(i)
        base = sub.choice([0, 1_600_000_000_000_000_000])
        dt = sub.choice([1, 3, 10, 55])
        n = sub.randint(0, 8)
        if sub.chance(0.5):
            e = {"kind": "cont", "start": base + 100, "dt": dt, "data": list(range(n))}
        else:
            e = {"kind": "ts", "ts": sorted(base + 100 + sub.randint(0, 8 * dt) for _ in range(n))}
        groups = []
        for _ in range(sub.randint(0, 5)):
            g = {}
            for nm in ("Force 1x", "Force 1y", "Force 2x"):
                c = sub.randint(0, 5)
                if c == 0:
                    continue
                g[nm] = None if c == 1 else base + 100 + sub.randint(-2, 9) * dt + sub.choice([0, 0, 1, -1])
            groups.append(g)
        pts = [base + 100 + j * dt + d for j in (-1, 0, 1, n - 1, n, n + 1) for d in (-1, 0, 1)]
        w = None if sub.chance(0.3) else sorted([sub.choice(pts), sub.choice(pts)])
        yield {"stream": "random", "op": "calchan", "groups": groups, "ch": sub.choice(["Force 1x", "Force 1x", "Force 2x"]), "src": e, "win": w, "subseed": i}

    # ---- the whole output tree under omit patterns (nested groups with/without attributes, bare parents)
    tree = [["A", "g", True], ["A/B", "g", True], ["A/B/y", "d", True], ["A/x", "d", True], ["C", "g", False], ["C/z", "d", True], ["D", "g", True]]
    tpats = ["A", "A/B", "A/*", "*", "A/B/y", "A/x", "C", "C/z", "*/x", "?", "A/?", "*y", "D", "*/*/*", "A*", "Nope"]
    yield {"stream": "small-scope", "op": "omittree", "pats": [], "tree": tree}
    for tp in tpats:
        yield {"stream": "small-scope", "op": "omittree", "pats": [tp], "tree": tree}
    for tp, tq in itertools.combinations(tpats[:9], 2):
        if not quick or (len(tp) + len(tq)) % 2 == 0:
            yield {"stream": "small-scope", "op": "omittree", "pats": [tp, tq], "tree": tree}

    # ---- channels by attribute: the whole table on a file with every channel, with none, with each one missing,
    #      and on random subsets
    uni = [p for p, _ in attr_universe()]
    for v in (1, 2):
        yield {"stream": "small-scope", "op": "attrs", "present": list(uni), "version": v}
    yield {"stream": "small-scope", "op": "attrs", "present": [], "version": 2}
    # trap totals: stored total / Trap n / rebuilt from components / a component missing
    for n in (1, 2, 3, 4):
        comp = [f"Force LF/Force {n}x", f"Force LF/Force {n}y", f"Force LF/Force {n}z"]
        for extra in ([], [f"Force LF/Trap {n}"], [f"Force LF/Force {n}"], [f"Force LF/Force {n}", f"Force LF/Trap {n}"]):
            yield {"stream": "small-scope", "op": "attrs", "present": comp + extra, "version": 2}
        yield {"stream": "small-scope", "op": "attrs", "present": comp[:1] + comp[2:], "version": 2}
    for i, p in enumerate(uni):
        if not quick or i % 3 == 0:
            yield {"stream": "small-scope", "op": "attrs", "present": [q for q in uni if q != p], "version": 2}
    r = rng.fork("c05-attrs")
    for i in range(25 if quick else 600):
        sub = r.fork(i)
        keep = sub.choice([0.2, 0.5, 0.8])
        yield {"stream": "random", "op": "attrs", "present": [p for p in uni if sub.chance(keep)], "version": sub.choice([1, 2]), "subseed": i}

    # ---- the constructor option of File (rgb_to_detectors: colour -> detector name) on both construction routes:
    #      files recorded with custom detector names, with the standard names, with both; mappings that permute the
    #      standard names, use the custom ones, leave a colour out ("None"), name a detector the file lacks, or send two
    #      colours to one detector; and the option not given at all on a file that has custom detectors
    det = [p for p, _ in attr_detectors()]
    std = [p for p in uni if p.startswith("Photon")]
    names = list(COLOURS) + list(DETECTORS)
    maps = [dict(zip(COLOURS, perm)) for perm in itertools.permutations(COLOURS)]
    maps += [dict(zip(COLOURS, perm)) for perm in itertools.permutations(DETECTORS)]
    maps += [
        {"Red": "Detector 2", "Green": "None", "Blue": "Red"},
        {"Red": "None", "Green": "None", "Blue": "None"},
        {"Red": "Detector 1", "Green": "Detector 1", "Blue": "Green"},
        {"Red": "Detector 9", "Green": "Blue", "Blue": "Detector 3"},
        {"Blue": "Detector 1", "Red": "Detector 3", "Green": "Detector 2"},  # another key order
    ]
    layouts = [std + det, det, det + ["Photon count/Red"], std, list(uni) + det]
    for li, present in enumerate(layouts):
        yield {"stream": "small-scope", "op": "attrs", "present": present, "version": 2, "mapping": None}
        for mi, m in enumerate(maps):
            if not quick or li < 2 or (mi + li) % 3 == 0:
                yield {"stream": "small-scope", "op": "attrs", "present": present, "version": 1 if (mi + li) % 5 == 0 else 2, "mapping": m}
    r = rng.fork("c05-attrs-mapping")
    for i in range(25 if quick else 600):
        sub = r.fork(i)
        keep = sub.choice([0.3, 0.6, 0.9])
        pool = uni if sub.chance(0.3) else std
        m = None if sub.chance(0.1) else {c: sub.choice(names + ["None", "Detector 9"]) for c in sub.sample(list(COLOURS), 3)}
        yield {"stream": "random", "op": "attrs", "present": [p for p in list(pool) + det if sub.chance(keep)], "version": sub.choice([1, 2]), "mapping": m, "subseed": i}

    # ---- generated files
    r = rng.fork("c05-files")
    for i in range(120 if quick else 2500):
        sub = r.fork(i)
        yield dict(file_case(sub, "random-files", size="small" if sub.chance(0.8) else "large"), subseed=i)


def extra_coverage(results):
    modes, versions, kinds, absent, errs = {}, {}, {}, 0, {}
    ops_n, branches = {}, {}

    def hit(name):
        branches[name] = branches.get(name, 0) + 1

    for r in results:
        c = r["case"]
        ops_n[c["op"]] = ops_n.get(c["op"], 0) + 1
        if c["op"] == "file":
            modes[c["mode"]] = modes.get(c["mode"], 0) + 1
            versions[c["spec"]["version"]] = versions.get(c["spec"]["version"], 0) + 1
            for ch in c["spec"]["channels"]:
                kinds[ch["kind"]] = kinds.get(ch["kind"], 0) + 1
            absent += sum(1 for a in r["impl"] if a == "absent")
            if c.get("crop2"):
                hit("file:exported-twice")
            for (line, kind, payload), a in zip(file_plan(c), r["impl"]):
                hit("file-op:" + kind)
                if kind == "keep":
                    sl = c.get("_obs", {}).get("keep", {}).get("/".join(payload))
                    hit(f"file-keep:{payload[0]}:" + ("cannot-crop-itself" if sl is None else "dropped" if a == "N" else "kept"))
                if kind in ("cal", "calslice"):
                    hit(f"file-{kind}:" + ("none-listed" if a == "[]" else "listed"))
            if any("Stop time (ns)" not in a_ for cal in c["spec"]["calibrations"] for a_ in cal["channels"].values()):
                hit("file:calibration-entry-without-time-field")
        elif c["op"] == "class":
            hit("class:" + r["impl"][0])
        elif c["op"] == "calchan":
            if not c["groups"]:
                hit("calchan:no-Calibration-group")
            elif not any(g.get(c["ch"]) is not None for g in c["groups"]):
                hit("calchan:no-item-for-channel")
            elif r["impl"][0] == "[]":
                hit("calchan:items-but-none-applies-or-empty-slice")
            else:
                hit("calchan:listed-" + str(min(r["impl"][0].count(",") + 1, 3)) + ("+" if r["impl"][0].count(",") >= 2 else ""))
            if any(t is None for g in c["groups"] for t in g.values()):
                hit("calchan:entry-without-time-field")
            hit("calchan:" + ("sliced" if c.get("win") else "whole"))
        elif c["op"] in ("cropread", "cropread2"):
            hit(f"{c['op']}:{c['src']['kind']}:" + ("absent" if r["impl"][0] == "absent" else "written"))
        elif c["op"] == "dset":
            hit(f"dset:{c['src']['kind']}:" + ("IndexError" if r["impl"][0] == "IndexError" else "written"))
        elif c["op"] == "dt":
            hit("dt:" + ("<=1e5" if c["dt"] <= 10**5 else "<=1e9" if c["dt"] <= 10**9 else "<=2^50"))
        elif c["op"] == "dtr":
            hit("dtr:arbitrary-rate")
        elif c["op"] == "tsrate":
            hit("tsrate:" + ("None" if r["impl"][0] == "N" else "regular"))
        elif c["op"] == "omittree":
            for st in set(r["impl"][0].strip("[]").split(",")):
                hit("omittree:some-node-" + st)
        elif c["op"] == "num":
            hit("num:" + c["what"])
        elif c["op"] == "dtu":
            hit("dtu:" + ("truncation-loses-1ns" if r["impl"][0] != str(c["dt"]) else "same"))
        for a in r["impl"]:
            if a.endswith("Error"):
                errs[a] = errs.get(a, 0) + 1
    return {"file_modes": modes, "file_versions": versions, "channel_kinds": kinds, "channels_dropped_by_crop": absent, "error_kinds": errs,
            "cases_per_op": ops_n, "branches": dict(sorted(branches.items()))}
