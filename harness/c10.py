"""C10 — power spectra: correspondence + oracle (see DESIGN.md 6/C10).

Case kinds
  op="psd"    PowerSpectrum(x, fs, window_seconds) and the same for a*x and x+c (metamorphic pair)
  op="chain"  a spectrum (computed from data, or injected frequency/power arrays) followed by a sequence of
              in_range / _exclude_range / downsampled_by / identify_peaks / with_spectrum steps, or the
              calculate_power_spectrum pipeline; every step is compared with the model run on the
              implementation's own doubles (sent as exact rationals).  The sequence runs on the real objects, each
              step on what the previous one returned; ["again"] repeats the latest step on the same source object,
              ["back"] continues from the source object of the latest step (see plan()).  Model op and oracle see
              only the arrays of the spectrum a step is applied to and the step's arguments, so anything a call
              remembers on an object (or hands on through copy()) and lets influence a later answer shows up.
              Optional arguments may be LEFT OUT of a call (peaks: 5th element, pipeline: 7th element {"omit": [...]},
              with_spectrum: block count None); model and oracle are then given the documented default (DOC_*).
"""
import itertools
import math
import warnings
from fractions import Fraction

import numpy as np

from common import dec_float, dec_list, dec_rat, enc_float, enc_list, enc_rat, errname

PROP = "C10"
THEOREMS = [
    "Verif.C10.in_range_spec",
    "Verif.C10.exclude_spec",
    "Verif.C10.notExcluded_iff",
    "Verif.C10.block_spec",
    "Verif.C10.block_spec_spectrum",
    "Verif.C10.block_block_nppb",
    "Verif.C10.pipeline_order",
    "Verif.C10.exclude_memoryless",
    "Verif.C10.peaks_total",
    "Verif.C10.peaks_cover",
    "Verif.C10.peaks_above_baseline",
    "Verif.C10.peaks_ordered",
    "Verif.C10.peaks_frequency_edges",
    "Verif.C10.psd_scale",
    "Verif.C10.psd_shift_invariant",
    "Verif.C10.frequency_axis",
    "Verif.C10.psd_lengths",
    "Verif.C10.bin_width",
    "Verif.C10.windowed_is_mean",
    "Verif.C10.psd_bin0",
    "Verif.C10.parseval_one_sided",
    "Verif.C10.parseval_windowed",
    "Verif.C10.parseval_windowed_divides",
    "Verif.C10.block_block",
    "Verif.C10.in_range_in_range",
    "Verif.C10.exclude_exclude",
    "Verif.C10.in_range_exclude_comm",
    "Verif.C10.paired_preserved",
    "Verif.C10.fit_range_invariant",
    "Verif.C10.initial_invariants",
    "Verif.C10.chain_invariants",
    "Verif.C10.chain_filter",
    "Verif.C10.chain_order_irrelevant",
    "Verif.C10.pipeline_in_fit_range",
    "Verif.C10.window_points_le",
    "Verif.C10.window_bookkeeping",
    "Verif.C10.bin_width_constructed",
    "Verif.C10.edge_contains_iff",
    "Verif.C10.peaks_ranges_exact",
    "Verif.C10.peaks_range_only_baseline",
    "Verif.C10.peaks_then_exclude",
    "Verif.C10.excludePeaks_ok",
    "Verif.C10.F_C10_1_witness",
]
RULE = "filled in below"
TRUSTED = [
    "numpy.fft.rfft is assumed to compute the DFT (checked against the O(N^2) cos/sin model dftSq at Float and against "
    "an independent complex-exponential matrix DFT in the oracle for every generated signal, N <= 96, tolerance "
    "1e-9 of the largest bin)",
    "RealLike formulas are executed at Float and proved at R; rounding and the pairwise summation order of np.mean "
    "are absorbed by the tolerance 1e-9*scale",
    "the normalised spectrum power/model_fun(frequency) of identify_peaks is computed by the harness with the same "
    "IEEE division the code uses and handed to the model as exact rationals (the model function is a table); a bin "
    "whose exact quotient lies within 1e-12 (relative) of the baseline or the cut-off without being exactly on it by "
    "exact arithmetic is not determined by the property (it depends on how the comparison is rounded): model and "
    "oracle read it the way the implementation's answer does (inside a returned range = at/above the threshold) and "
    "check the answer against that reading in full; exact ties (tables of ones, powers of two) stay determined",
]
ASSUMPTIONS = [
    "frequencies and powers are finite doubles (no NaN/inf); model functions for identify_peaks are positive",
    "identify_peaks theorems assume baseline < peak_cutoff (the code raises ValueError otherwise; that branch is "
    "compared as an error)",
    "block size k >= 1 (k = 0 raises ZeroDivisionError in the code; compared as an error)",
    "the mean/std ratio of generated signals stays below 1e3 so that the global mean removal does not eat the "
    "tolerance",
    "sample magnitudes (also after scaling by a) stay within 1e-30 .. 1e12, far from the subnormal/overflow range "
    "of the squared values; all tolerances are relative to the signal's own mean square",
]

TOL = 1e-9

# ------------------------------------------------------------------ implementation access
#
# How the harness reaches pylake (robustness against behaviour-preserving refactorings, DESIGN.md C10):
#  * what the package exports is taken from the package: lk.calculate_power_spectrum;
#  * PowerSpectrum has no exported name: it is imported from its documented module (docs/api.rst lists
#    force_calibration.power_spectrum.PowerSpectrum); should that module have moved, the class is the type of what
#    the public lk.calculate_power_spectrum returns;
#  * injected spectra are made through the PUBLIC attributes only (frequency, power, num_points_per_block);
#  * `_exclude_range` is an anchored mechanism without a public name: it is called directly while it is reachable.
#    When it is gone the step goes through the public lk.calculate_power_spectrum(…, num_points_per_block=1,
#    excluded_ranges=…) wherever the spectrum it is applied to is a function of the source data the public call can
#    rebuild (the raw spectrum, or the raw spectrum restricted by in_range steps); anywhere else the step cannot be
#    observed: it is answered "?" (ignored by agree/oracle/nontrivial) and the chain ends there.  The public route is
#    ALSO tied all the time (pipeline steps with k = 1 in the random stream, small scope on integer axes);
#  * `_fit_range` is private bookkeeping the property does not speak about: observed only while reachable (`priv`), "?"
#    otherwise - never an implementation answer.


_reach = {}  # private name -> reachable the last time the harness reached for it (printed in the coverage)
_cls = {}


def priv(obj, name, fallback="?"):
    """a private attribute of a pylake object, observed only while it is reachable"""
    try:
        v = getattr(obj, name)
    except AttributeError:
        _reach[name] = False
        return fallback
    _reach[name] = True
    return v


def _pub():
    import lumicks.pylake as lk

    return lk


def _PS():
    if "ps" not in _cls:
        try:
            from lumicks.pylake.force_calibration.power_spectrum import PowerSpectrum
        except ImportError:
            with warnings.catch_warnings():
                warnings.simplefilter("ignore")
                PowerSpectrum = type(_pub().calculate_power_spectrum(np.arange(4.0), 1.0, fit_range=(-1.0, 1.0), num_points_per_block=1))
        _cls["ps"] = PowerSpectrum
    return _cls["ps"]


def F(x):
    return Fraction(float(x))


def ratlist(a):
    return enc_list([float(v) for v in a], enc_rat)


def floatlist(a):
    return enc_list([float(v) for v in a], enc_float)


def make_ps(case):
    """PowerSpectrum of the case's source (data driven, or injected arrays on a dummy object)."""
    src = case["src"]
    with warnings.catch_warnings():
        warnings.simplefilter("ignore")
        if "x" in src:
            return _PS()(np.array(src["x"], dtype=float), src["fs"], window_seconds=src.get("ws"))
        # injected arrays: the public attributes of a one-window spectrum (which has no block variance)
        ps = _PS()(np.arange(4.0), 1.0)
        ps.frequency = np.array(src["freq"], dtype=float)
        ps.power = np.array(src["power"], dtype=float)
        ps.num_points_per_block = src.get("nppb", 1)
        if not isinstance(priv(ps, "_fit_range"), str):
            # bookkeeping kept consistent with the injected axis while it exists under this name (a name that is gone
            # must not be created: a stale attribute would be carried along by copy() and read back as an observation)
            try:
                ps._fit_range = (min(src["freq"], default=0.0), max(src["freq"], default=0.0))
            except AttributeError:  # readable but not writable any more: left as the dummy's
                pass
        return ps


def show_ps(ps):
    return f"{ratlist(ps.frequency)} {ratlist(ps.power)} {int(ps.num_points_per_block)}"


def show_psd(ps):
    return f"{int(ps.total_sampled_used)} {int(ps.num_points_per_block)} {floatlist(ps.frequency)} {floatlist(ps.power)}"


def psd_of(x, fs, ws, ndim=1):
    data = np.array(x, dtype=float)
    if ndim == 2:
        data = data.reshape(1, -1)
    with warnings.catch_warnings():
        warnings.simplefilter("ignore")
        return _PS()(data, fs, window_seconds=ws)


def psd_op(x, fs, ws, ndim=1):
    return f"c10.psd {ndim} {enc_float(fs)} {'N' if ws is None else enc_float(ws)} {floatlist(x)}"


# Arguments a caller may leave out take the values the signatures / docstrings document ("Default: 2000.", "The default
# is 1.0", "Default is 20.0", fit_range=(1e2, 23e3), with_spectrum(..., num_points_per_block=1)).  A step that lists a name
# under "omit" is CALLED WITHOUT that argument; model and oracle are given the documented value.
DOC_FIT_RANGE = (1e2, 23e3)
DOC_BLOCK = 2000
DOC_BASELINE = 1.0
DOC_CUTOFF = 20.0
DOC_WITHSPEC_NPPB = 1
_omitted = {}


def pipeline_args(st):
    """(lo, hi, ranges, k, opts) of a pipeline step; opts = {"omit": [names left out of the call], "data": how the
    data argument is handed over ("list", "2d", "0d": not a one-dimensional numpy array)}"""
    opts = st[6] if len(st) > 6 and isinstance(st[6], dict) else {}
    omit = opts.get("omit", [])
    lo, hi = DOC_FIT_RANGE if "fit_range" in omit else (st[1], st[2])
    k = DOC_BLOCK if "num_points_per_block" in omit else st[4]
    rs = [] if "excluded_ranges" in omit else [(a, b) for a, b in st[3]]
    return lo, hi, rs, k, opts


def peaks_args(st):
    """(table, baseline, cutoff, omit) of an identify_peaks step"""
    omit = st[4] if len(st) > 4 and isinstance(st[4], list) else []
    return st[1], (DOC_BASELINE if "baseline" in omit else st[2]), (DOC_CUTOFF if "peak_cutoff" in omit else st[3]), omit


EPS_TIE = 1e-12  # a normalised power within this (relative) of a threshold is within rounding of it


def _ranges_of(ans):
    return [] if ans == "[]" else [tuple(dec_rat(v) for v in r.split(":")) for r in ans[1:-1].split(",")]


def peaks_flat(f, p, table, baseline, cutoff, ans):
    """The normalised spectrum power/model of an identify_peaks step as exact rationals (f, p: Fractions of the
    implementation's doubles; ans: the implementation's answer).  It is the IEEE quotient the code computes - the
    decisions the code takes on doubles are taken by model and oracle on the same doubles - EXCEPT at bins whose exact
    quotient lies within EPS_TIE of a threshold without being determined by exact arithmetic (exactly on the threshold
    with a model value that is a power of two, e.g. the tables of ones of the small scope): on which side of the
    threshold such a bin falls depends on how the comparison is rounded (power/model >= b, power >= b*model, ...),
    the property does not determine it.  Such a bin is put on the side the implementation's answer puts it: at or
    above the threshold iff it lies inside a returned range (every bin when the call ran into the missing second
    frequency); the answer is then checked against that reading in full.  Only on axes of distinct frequencies (where a
    returned range identifies its bins); on injected axes with duplicates the plain quotient is used (and the
    generator keeps such bins off the thresholds, peaks_table)."""
    if len(table) != len(p):
        return list(p)
    pf, tab = np.array([float(v) for v in p], dtype=float), np.array(table, dtype=float)
    with np.errstate(all="ignore"):
        quot = pf / tab
    plain = quot.tolist()
    if not cutoff > baseline >= 0:
        return plain
    # candidates by a float pre-filter (the double quotient is within 2e-16 of the exact one), decided exactly
    cand = np.flatnonzero((np.abs(quot - baseline) <= 4 * EPS_TIE * abs(baseline)) | (np.abs(quot - cutoff) <= 4 * EPS_TIE * abs(cutoff)))
    if cand.size == 0 or not np.all(np.isfinite(quot)) or not np.all(np.isfinite(tab) & (tab > 0)):
        return plain
    B, C, eps = Fraction(baseline), Fraction(cutoff), Fraction(EPS_TIE)
    if C - B <= 4 * eps * C:
        return plain  # thresholds within rounding of each other: no side to follow
    near = {}
    for i in cand.tolist():
        if plain[i] in (baseline, cutoff) and (plain[i] == 0 or math.frexp(table[i])[0] == 0.5) and pf[i] == plain[i] * tab[i]:
            continue  # exactly on the threshold, by exact arithmetic
        q = Fraction(float(pf[i])) / Fraction(float(tab[i]))
        for T, which in ((B, "b"), (C, "c")):
            if abs(q - T) <= eps * abs(T) and not (q == T and (T == 0 or math.frexp(float(tab[i]))[0] == 0.5)):
                near[i] = which
    if not near:
        return plain
    f = [Fraction(float(v)) for v in f]
    if len(set(f)) != len(f):
        return plain
    if ans == "IndexError":
        inside = set(range(len(f)))
    elif _is_err(ans):
        return plain
    else:
        inside = set()
        rngs = _ranges_of(ans)
        if rngs and len(f) < 2:
            return plain
        for lo, hi in rngs:
            if lo not in f:
                return plain
            first = f.index(lo)
            df = f[1] - f[0]
            # the run ends at the bin before the one whose frequency is the reported upper edge (or with the spectrum);
            # an answer that follows neither reading (the rule before the fix of F-C10-1) is read by the nearest sum
            ends = [j for j in range(first, len(f)) if (j + 1 < len(f) and f[j + 1] == hi)]
            if not ends and abs(f[-1] + df - hi) <= Fraction(TOL) * abs(hi):
                ends = [len(f) - 1]
            last = ends[0] if ends else min(range(first, len(f)), key=lambda j: abs(f[j] + df - hi))
            inside.update(range(first, last + 1))
    flat = [Fraction(v) for v in plain]
    for i, which in near.items():
        if which == "b":
            flat[i] = B if i in inside else B * (1 - Fraction(1, 2**30))
        else:
            flat[i] = C * (1 + Fraction(1, 2**30)) if i in inside else C
    return flat


_last = {}
_chain_stats = {"whole_chain_ops": 0, "with_block>=2": 0, "range_steps_only": 0, "steps_in_whole_chains": 0,
                "skipped_rounded_block_mean_decides_differently": 0, "skipped_other_step_kinds": 0}


def run_chain(case):
    """Apply the steps on the real objects; returns (answers, ops). Cached for the ops() call that follows."""
    key = id(case)
    if _last.get("key") == key and _last.get("case") is case:
        return _last["val"]
    lk = _pub()
    answers, ops = [], []
    src = case["src"]
    ps = None
    raw_f = raw_p = None
    try:
        ps = make_ps(case)
        raw_f, raw_p = ps.frequency.copy(), ps.power.copy()
        if "x" in src:
            answers.append(show_psd(ps))
            ops.append(psd_op(src["x"], src["fs"], src.get("ws")))
    except Exception as e:
        answers.append(errname(e))
        ops.append(psd_op(src["x"], src["fs"], src.get("ws")))
    objs = [ps]  # objs[0] the initial spectrum, objs[j + 1] the object returned by the j-th applied step
    # recipes[j]: the fit range (lo, hi) with which the PUBLIC lk.calculate_power_spectrum(x, fs, fit_range=(lo, hi),
    # num_points_per_block=1) rebuilds the bins of objs[j] from the source data - the raw un-windowed spectrum and what
    # in_range steps make of it; None for every other object (only used when `_exclude_range` is out of reach)
    recipes = [(-1.0, float(src["fs"])) if "x" in src and src.get("ws") is None and float(src["fs"]) > 0 else None]
    # paths[j]: the in_range / _exclude_range / downsampled_by calls that lead from the initial spectrum to objs[j] (as
    # protocol tokens) together with the frequencies the MODEL has at that point (exact block means where the code
    # carries rounded ones); None when the object is not the result of such calls alone, or when that difference makes
    # a later range step decide differently on the exact and on the code's frequencies (an edge on / within rounding of
    # a block mean: the step is then only compared on the code's own doubles, as before).  The whole path is run by the
    # model in ONE op (c10.chain) and compared with the final object.
    paths = [([], [F(v) for v in raw_f], False)] if raw_f is not None else [None]
    enc_rs = lambda rs: enc_list(rs, lambda r: enc_rat(r[0]) + ":" + enc_rat(r[1]))  # noqa: E731

    def extend(src_path, token, keep, f_now, blocked=False):
        """the path extended by a range step, unless exact and rounded frequencies are told apart by it"""
        if src_path is None or len(src_path[1]) != len(f_now):
            return None
        m_exact, m_code = [keep(v) for v in src_path[1]], [keep(F(v)) for v in f_now]
        if m_exact != m_code:
            return None
        return (src_path[0] + [token], [v for v, k_ in zip(src_path[1], m_exact) if k_], src_path[2])

    completed = False
    last_peaks = None  # (object the latest identify_peaks ran on, its answer, flat, baseline, cutoff)
    for st, src_obj, _ in plan(case):
        if objs[0] is None:
            break
        # the step is applied to the object an earlier step returned or was applied to (plan()): "again" repeats a
        # step ON THE SAME SOURCE OBJECT, "back" continues from the source of a step after it has been used; whatever
        # a call remembers on / changes in its source (or hands on through copy()) must not show in later answers
        ps = objs[src_obj]
        recipe = None
        path = None
        kind = st[0]
        f_in, p_in, nppb_in = ps.frequency.copy(), ps.power.copy(), int(ps.num_points_per_block)
        try:
            if kind == "inrange":
                lo, hi = st[1], st[2]
                fit = priv(ps, "_fit_range")  # private bookkeeping: handed to the model / compared only while reachable
                flo, fhi = (0.0, 0.0) if isinstance(fit, str) else fit
                ops.append(f"c10.inrange {enc_rat(lo)} {enc_rat(hi)} {enc_rat(float(flo))} {enc_rat(float(fhi))} {ratlist(f_in)} {ratlist(p_in)}")
                if recipes[src_obj] is not None:
                    recipe = (max(recipes[src_obj][0], lo), min(recipes[src_obj][1], hi))
                path = extend(paths[src_obj], f"i:{enc_rat(lo)}:{enc_rat(hi)}", lambda v: F(lo) < v <= F(hi), f_in)
                ps = ps.in_range(lo, hi)
                fit = "?" if isinstance(fit, str) else priv(ps, "_fit_range")
                answers.append(f"{ratlist(ps.frequency)} {ratlist(ps.power)} " + ("? ?" if isinstance(fit, str) else f"{enc_rat(float(fit[0]))} {enc_rat(float(fit[1]))}"))
            elif kind == "exclude":
                from_peaks = len(st) > 2 and st[2] == "from-peaks"
                if st[1] is None:
                    # the ranges the latest identify_peaks call returned (filled in once, then part of the case)
                    st[1] = [] if last_peaks is None else [[float(a), float(b)] for a, b in last_peaks[1]]
                rs = [(a, b) for a, b in st[1]]
                composite = False
                if from_peaks and last_peaks is not None and last_peaks[0] is ps and len(f_in) >= 2 and [list(r) for r in rs] == [[float(a), float(b)] for a, b in last_peaks[1]]:
                    # identify_peaks -> _exclude_range as ONE model run, where the reported upper edges are frequencies of
                    # the axis (the next bin) or, for a run that ends with the spectrum, the exact sum frequency[-1] + df
                    # (the model adds exactly); otherwise the plain exclusion with the code's own ranges
                    fq = [F(v) for v in f_in]
                    dfq = fq[1] - fq[0]
                    composite = all(F(b) in fq or F(b) == fq[-1] + dfq for _, b in rs)
                if composite:
                    _chain_stats["peaks_then_exclude_composite"] = _chain_stats.get("peaks_then_exclude_composite", 0) + 1
                    ops.append(f"c10.peaksexclude {nppb_in} {enc_rat(last_peaks[3])} {enc_rat(last_peaks[4])} {enc_list(last_peaks[2], enc_rat)} {ratlist(f_in)} {ratlist(p_in)}")
                else:
                    if from_peaks:
                        _chain_stats["peaks_then_exclude_plain"] = _chain_stats.get("peaks_then_exclude_plain", 0) + 1
                    ops.append(f"c10.exclude {enc_list(rs, lambda r: enc_rat(r[0]) + ':' + enc_rat(r[1]))} {ratlist(f_in)} {ratlist(p_in)}")
                direct = priv(ps, "_exclude_range", None)
                if direct is not None:
                    if not from_peaks:
                        path = extend(paths[src_obj], "e:" + enc_rs(rs), lambda v: not any(F(a) <= v < F(b) for a, b in rs), f_in)
                    ps = direct(rs)
                elif recipes[src_obj] is not None:
                    # the anchored private method is gone: the same exclusion on the same bins through the public call
                    # (in_range(lo, hi) -> exclusion -> block average of 1, which is the identity)
                    with warnings.catch_warnings():
                        warnings.simplefilter("ignore")
                        ps = lk.calculate_power_spectrum(np.array(src["x"], dtype=float), src["fs"], fit_range=recipes[src_obj], num_points_per_block=1, excluded_ranges=rs)
                else:
                    answers.append("?")  # not observable: no private method, no public route to this spectrum
                    break
                answers.append(f"{ratlist(ps.frequency)} {ratlist(ps.power)}")
            elif kind == "block":
                k = st[1]
                ops.append(f"c10.block {k} {nppb_in} {ratlist(f_in)} {ratlist(p_in)}")
                if paths[src_obj] is not None and k >= 1:
                    ex = paths[src_obj][1]
                    path = (paths[src_obj][0] + [f"b:{int(k)}"], [sum(ex[j * k : (j + 1) * k]) / k for j in range(len(ex) // k)], paths[src_obj][2] or k >= 2)
                ps = ps.downsampled_by(k)
                answers.append(show_ps(ps))
            elif kind == "pipeline":
                # calculate_power_spectrum on the source data; the model runs on the raw spectrum's doubles.  Arguments
                # listed under "omit" are left out of the call (the documented defaults apply, pipeline_args)
                lo, hi, rs, k, opts = pipeline_args(st)
                omit = opts.get("omit", [])
                f_in, p_in = raw_f, raw_p
                data = np.array(src["x"], dtype=float)
                how = opts.get("data")
                if how is not None:
                    # not a one-dimensional numpy array: the documented TypeError, before anything is computed
                    data = {"list": lambda: [float(v) for v in src["x"]], "2d": lambda: data.reshape(1, -1), "0d": lambda: np.array(float(src["x"][0]))}[how]()
                    ops.append(f"c10.pipelinearg {0 if how == 'list' else 1} {0 if how == '0d' else 2 if how == '2d' else 1}")
                else:
                    ops.append(f"c10.pipeline {enc_rat(lo)} {enc_rat(hi)} {enc_list(rs, lambda r: enc_rat(r[0]) + ':' + enc_rat(r[1]))} {k} {ratlist(f_in)} {ratlist(p_in)}")
                kw = {}
                if "fit_range" not in omit:
                    kw["fit_range"] = (lo, hi)
                if "num_points_per_block" not in omit:
                    kw["num_points_per_block"] = k
                if "excluded_ranges" not in omit:
                    kw["excluded_ranges"] = rs if rs or st[5] else None
                for name in omit:
                    _omitted["pipeline." + name] = _omitted.get("pipeline." + name, 0) + 1
                with warnings.catch_warnings():
                    warnings.simplefilter("ignore")
                    ps = lk.calculate_power_spectrum(data, src["fs"], **kw)
                answers.append("accepted" if how is not None else show_ps(ps))
            elif kind == "withspec":
                m, nppb = st[1], st[2]
                ops.append(f"c10.withspec {len(p_in)} {m} {DOC_WITHSPEC_NPPB if nppb is None else nppb}")
                if nppb is None:  # left out of the call: the documented default (an unblocked spectrum)
                    _omitted["with_spectrum.num_points_per_block"] = _omitted.get("with_spectrum.num_points_per_block", 0) + 1
                    ps = ps.with_spectrum(np.ones(m))
                else:
                    ps = ps.with_spectrum(np.ones(m), nppb)
                answers.append(f"{int(ps.num_points_per_block)} {len(ps.power)}")
            elif kind == "binwidth":
                recipe = recipes[src_obj]
                path = paths[src_obj]
                ops.append(f"c10.binwidth {enc_rat(float(ps.sample_rate))} {int(ps.total_sampled_used)} {nppb_in}")
                answers.append(enc_rat(float(ps.frequency_bin_width)))
            elif kind == "peaks":
                recipe = recipes[src_obj]
                path = paths[src_obj]
                table, baseline, cutoff, omit = peaks_args(st)
                tab = np.array(table, dtype=float)
                failed = None
                kw = {}
                if "peak_cutoff" not in omit:
                    kw["peak_cutoff"] = cutoff
                if "baseline" not in omit:
                    kw["baseline"] = baseline
                for name in omit:
                    _omitted["identify_peaks." + name] = _omitted.get("identify_peaks." + name, 0) + 1
                try:
                    res = ps.identify_peaks(lambda f: tab, **kw)
                    ans = enc_list(res, lambda r: enc_rat(float(r[0])) + ":" + enc_rat(float(r[1])))
                except Exception as e:
                    failed = e
                    ans = errname(e)
                # the normalised spectrum the model works on: the code's own division, except at bins within rounding
                # of a threshold, which are put on the side the implementation's answer puts them (peaks_flat)
                flat = peaks_flat(f_in, p_in, table, baseline, cutoff, ans)
                ops.append(f"c10.peaks {nppb_in} {enc_rat(baseline)} {enc_rat(cutoff)} {enc_list(flat, enc_rat)} {ratlist(f_in)}")
                if failed is not None:
                    raise failed
                answers.append(ans)
                last_peaks = (ps, [(float(r[0]), float(r[1])) for r in res], flat, baseline, cutoff)
            else:
                raise ValueError(kind)
        except Exception as e:  # mapped to the small enum, compared with the model's error answer
            answers.append(errname(e))
            if len(ops) < len(answers):
                ops.append("c10.missing-op")
            break
        objs.append(ps)
        recipes.append(recipe)
        paths.append(path)
    else:
        completed = objs[0] is not None
    if completed and len(objs) > 1 and paths[-1] is None:
        _chain_stats["skipped_rounded_block_mean_decides_differently" if chain_path(case) is not None else "skipped_other_step_kinds"] += 1
    if completed and len(objs) > 1 and paths[-1] is not None and len(paths[-1][0]) >= 2:
        _chain_stats["whole_chain_ops"] += 1
        _chain_stats["with_block>=2" if paths[-1][2] else "range_steps_only"] += 1
        _chain_stats["steps_in_whole_chains"] += len(paths[-1][0])
        # the whole chain of derivations in one model run, from the arrays of the initial spectrum to the final object
        root, fin = objs[0], objs[-1]
        try:
            fit0, fit1 = priv(root, "_fit_range"), priv(fin, "_fit_range")
            exc0, exc1 = priv(root, "_excluded_ranges"), priv(fin, "_excluded_ranges")
            flo, fhi = (0.0, 0.0) if isinstance(fit0, str) else fit0
            ops.append(f"c10.chain {int(root.num_points_per_block)} {enc_rat(float(flo))} {enc_rat(float(fhi))} {ratlist(raw_f)} {ratlist(raw_p)} " + " ".join(paths[-1][0]))
            fit_s = "? ?" if isinstance(fit0, str) or isinstance(fit1, str) else f"{enc_rat(float(fit1[0]))} {enc_rat(float(fit1[1]))}"
            exc_s = "?" if isinstance(exc0, str) or isinstance(exc1, str) or list(exc0) else enc_rs([(float(a), float(b)) for a, b in exc1])
            answers.append(f"{show_ps(fin)} {fit_s} {exc_s}")
        except Exception as e:
            answers.append(errname(e))
            if len(ops) < len(answers):
                ops.append("c10.missing-op")
    _last.update(key=key, case=case, val=(answers, ops))
    return answers, ops


# ------------------------------------------------------------------ impl / ops


def impl(case):
    if case["op"] == "psd":
        out = []
        x = np.array(case["x"], dtype=float)
        for data in (x, case["a"] * x, x + case["c"]):
            try:
                out.append(show_psd(psd_of(data, case["fs"], case.get("ws"), case.get("ndim", 1))))
            except Exception as e:
                out.append(errname(e))
        if case.get("ndim", 1) == 1:
            # the constructor's bookkeeping: total_sampled_used, num_points_per_block, the bin width before and after a
            # block average, the initial fit range (private: only while reachable)
            try:
                ps = psd_of(x, case["fs"], case.get("ws"))
                fit = priv(ps, "_fit_range")
                fit_s = "? ?" if isinstance(fit, str) else f"{enc_float(fit[0])} {enc_float(fit[1])}"
                k = initial_block(case)
                out.append(f"{int(ps.total_sampled_used)} {int(ps.num_points_per_block)} {enc_rat(float(ps.frequency_bin_width))} "
                           f"{enc_rat(float(ps.downsampled_by(k).frequency_bin_width))} {fit_s}")
            except Exception as e:
                out.append(errname(e))
        return out
    if case["op"] == "chain":
        return run_chain(case)[0]
    raise ValueError(case["op"])


def ops(case):
    if case["op"] == "psd":
        x = np.array(case["x"], dtype=float)
        out = [psd_op(d, case["fs"], case.get("ws"), case.get("ndim", 1)) for d in (x, case["a"] * x, x + case["c"])]
        if case.get("ndim", 1) == 1:
            ws = case.get("ws")
            out.append(f"c10.initial {enc_rat(case['fs'])} {enc_float(case['fs'])} {'N' if ws is None else enc_float(ws)} {len(x)} {initial_block(case)}")
        return out
    if case["op"] == "chain":
        return run_chain(case)[1]
    raise ValueError(case["op"])


def initial_block(case):
    """the block size of the bin-width-after-block-averaging observation of a psd case (1..3, from the case itself)"""
    return 1 + (len(case["x"]) + (0 if case.get("ws") is None else 1)) % 3


def _is_err(s):
    return s.endswith("Error") or s.startswith("Error:")


def _close_rat(impl_rat, model_rat, scale=None):
    a, b = dec_rat(impl_rat), dec_rat(model_rat)
    s = max(abs(a), abs(b)) if scale is None else scale
    return abs(a - b) <= Fraction(TOL) * s


def _rats(s):
    return dec_list(s, dec_rat)


def plan(case):
    """The applied steps of a chain as (step, index of the object it is applied to, is-a-repetition): object 0 is the
    initial spectrum, object j + 1 what the j-th applied step returned (its source again for the steps that only read).
    ["again"] repeats the latest step that has not been taken back on the same source object; ["back"] takes the
    latest step back: the chain continues from that step's source object (which has been used once by then)."""
    out, hist, cur = [], [], 0
    for st in case["steps"]:
        if st[0] == "back":
            if hist:
                cur = out[hist.pop()][1]
        elif st[0] == "again":
            if hist:
                out.append((out[hist[-1]][0], out[hist[-1]][1], True))
                cur = len(out)
        else:
            out.append((st, cur, False))
            hist.append(len(out) - 1)
            cur = len(out)
    return out


def eff_steps(case):
    return [st for st, _, _ in plan(case)]


def op_kind(case, i):
    if case["op"] == "psd":
        return "c10.psd" if i < 3 else "c10.initial"
    off = 1 if "x" in case["src"] else 0
    if i < off:
        return "c10.psd"
    es = eff_steps(case)
    if i - off >= len(es):
        return "c10.chain"  # the whole chain in one model run (appended by run_chain after the last step)
    return "c10." + es[i - off][0]


def agree(case, i, ia, ma):
    if ia == "?":
        return True  # a step that could not be observed (private method out of reach, no public route): says nothing
    if _is_err(ia) or _is_err(ma) or ma == "bad-op":
        return ia == ma
    op = op_kind(case, i)
    ti, tm = ia.split(" "), ma.split(" ")
    if op == "c10.psd":
        if ti[:2] != tm[:2]:
            return False
        fi, fm = dec_list(ti[2], dec_float), dec_list(tm[2], dec_float)
        pi, pm = dec_list(ti[3], dec_float), dec_list(tm[3], dec_float)
        if len(fi) != len(fm) or len(pi) != len(pm) or len(fi) != len(pi):
            return False
        fmax = max(map(abs, fi), default=0.0)
        # conditioning-aware scale: the value a bin takes when the whole (raw, mean included) power sits in it
        if case["op"] == "psd":
            x = np.array(case["x"], dtype=float)
            x = (x, case["a"] * x, x + case["c"])[i]
            fs = case["fs"]
        else:
            x = np.array(case["src"]["x"], dtype=float)
            fs = case["src"]["fs"]
        npw = int(ti[0]) // max(1, int(ti[1]))
        psc = 2.0 / (fs * npw) * npw * npw * float(np.mean(x * x)) if len(x) else 0.0
        return all(abs(a - b) <= TOL * fmax for a, b in zip(fi, fm)) and all(abs(a - b) <= TOL * psc + 1e-300 for a, b in zip(pi, pm))
    if op == "c10.inrange":
        # no arithmetic: exact; the private fit-range bookkeeping only where it could be observed
        return ti[:2] == tm[:2] and (ti[2:] == ["?", "?"] or ti[2:] == tm[2:])
    if op in ("c10.exclude", "c10.withspec"):
        return ia == ma  # no arithmetic: exact
    if op in ("c10.block", "c10.pipeline"):
        if ti[2] != tm[2]:
            return False
        for k in (0, 1):
            a, b = _rats(ti[k]), _rats(tm[k])
            if len(a) != len(b) or any(abs(x - y) > Fraction(TOL) * max(abs(x), abs(y)) for x, y in zip(a, b)):
                return False
        return True
    if op == "c10.chain":
        # [f] [p] nppb fitlo fithi [excluded]: block means within the tolerance, everything else exact (private
        # bookkeeping only where it could be observed)
        if len(ti) != 6 or len(tm) != 6 or ti[2] != tm[2]:
            return False
        for k in (0, 1):
            a, b = _rats(ti[k]), _rats(tm[k])
            if len(a) != len(b) or any(abs(x - y) > Fraction(TOL) * max(abs(x), abs(y)) for x, y in zip(a, b)):
                return False
        return (ti[3:5] == ["?", "?"] or ti[3:5] == tm[3:5]) and (ti[5] == "?" or ti[5] == tm[5])
    if op == "c10.initial":
        if len(ti) != 6 or len(tm) != 6 or ti[:2] != tm[:2]:
            return False
        if not (_close_rat(ti[2], tm[2]) and _close_rat(ti[3], tm[3])):
            return False
        if ti[4] == "?":
            return True
        hi = abs(dec_float(tm[5]))
        return all(abs(dec_float(a) - dec_float(b)) <= TOL * hi for a, b in zip(ti[4:], tm[4:]))
    if op == "c10.binwidth":
        return _close_rat(ia, ma)
    if op == "c10.peaks":
        # the model answers "[i:j,...] [lo:hi,...]"; the implementation's lower edges are exact, the upper ones rounded sums
        mi = [] if tm[1] == "[]" else [tuple(dec_rat(v) for v in r.split(":")) for r in tm[1][1:-1].split(",")]
        ii = [] if ia == "[]" else [tuple(dec_rat(v) for v in r.split(":")) for r in ia[1:-1].split(",")]
        if len(mi) != len(ii):
            return False
        for n_, ((a, b), (c, d)) in enumerate(zip(ii, mi)):
            # the upper edge is the frequency of the next bin: exact; only the last range can end with the spectrum,
            # where the edge is the rounded sum frequency[-1] + df
            if a != c or (b != d and (n_ + 1 < len(ii) or abs(b - d) > Fraction(TOL) * max(abs(b), abs(d)))):
                return False
        return True
    return ia == ma


# ------------------------------------------------------------------ oracle (plain Python from the property text)


def naive_power(x, fs, npw):
    """one-sided PSD by the definition: complex-exponential matrix DFT of every window of the globally
    de-meaned signal, mean over windows, times 2/(fs*npw)."""
    x = np.asarray(x, dtype=float)
    d = x - x.sum() / len(x)
    n = np.arange(npw)
    k = np.arange(npw // 2 + 1)
    E = np.exp(-2j * np.pi * np.outer(k, n) / npw)
    acc = np.zeros(len(k))
    nwin = len(x) // npw
    for c in range(nwin):
        X = E @ d[c * npw : (c + 1) * npw]
        acc += X.real**2 + X.imag**2
    return acc / nwin * 2.0 / (fs * npw)


def _parse_psd(s):
    t = s.split(" ")
    return int(t[0]), int(t[1]), np.array(dec_list(t[2], dec_float)), np.array(dec_list(t[3], dec_float))


def expected_npw(case, n):
    ws = case.get("ws")
    if ws is None:
        return n
    prod = Fraction(float(ws * case["fs"]))  # the product the code rounds (a double)
    fl = prod.numerator // prod.denominator
    rem = prod - fl
    k = fl if rem < Fraction(1, 2) else fl + 1 if rem > Fraction(1, 2) else (fl if fl % 2 == 0 else fl + 1)
    return n if k > n else k


def oracle_psd(case, ia):
    x = np.array(case["x"], dtype=float)
    n, fs = len(x), case["fs"]
    ws = case.get("ws")
    if ws is not None and ws <= 0 or case.get("ndim", 1) != 1:
        return None if all(a == "ValueError" for a in ia) else f"arguments: expected ValueError, got {ia[0][:60]}"
    npw = expected_npw(case, n)
    if npw == 0:
        return None if all(_is_err(a) for a in ia) else f"zero-length window accepted: {ia[0][:60]}"
    if any(_is_err(a) for a in ia):
        return f"unexpected error {[a for a in ia if _is_err(a)][0]} for a valid signal"
    tsu, nppb, f, p = _parse_psd(ia[0])
    nwin = n // npw
    if (tsu, nppb) != (npw * nwin, nwin):
        return f"window bookkeeping: total_sampled_used={tsu}, num_points_per_block={nppb}, expected {npw * nwin}, {nwin}"
    if len(f) != npw // 2 + 1 or len(p) != len(f):
        return f"frequency axis: {len(f)} bins for a window of {npw} points"
    if any(abs(f[k] - k * fs / npw) > TOL * fs for k in range(len(f))):
        return "frequency axis: f_k != k*fs/N_w"
    msq = float(np.mean(x * x))
    scale = 2.0 / (fs * npw) * npw * npw * msq  # the largest value a bin can take (all power in one bin)
    tol = TOL * scale + 1e-300
    ref = naive_power(x, fs, npw)
    if np.max(np.abs(ref - p)) > tol:
        k = int(np.argmax(np.abs(ref - p)))
        return f"psd-definition: bin {k} is {p[k]!r}, the definition gives {ref[k]!r}"
    df = fs / npw
    if nwin == 1 and npw == n:
        # Parseval, Nyquist bin counted once, zero-frequency bin empty
        var = float(np.mean((x - np.mean(x)) ** 2))
        inner = p[1 : (n + 1) // 2].sum()
        total = df * (inner + (0.5 * p[n // 2] if n % 2 == 0 else 0.0))
        if abs(total - var) > TOL * msq + 1e-300:
            return f"parseval: spectrum integrates to {total!r}, variance is {var!r}"
        if abs(p[0]) > tol:
            return f"parseval: zero-frequency bin {p[0]!r} is not empty"
    else:
        # windowed spectrum = mean of the per-window spectra (bins k >= 1; the mean is removed globally)
        acc = np.zeros(len(p))
        for c in range(nwin):
            acc += naive_power(x[c * npw : (c + 1) * npw], fs, npw)
        acc /= nwin
        if len(p) > 1 and np.max(np.abs(acc[1:] - p[1:])) > tol:
            return "windowed: spectrum is not the mean of the per-window spectra"
    # Parseval for every window length (zero-frequency and Nyquist bins counted once): the one-sided spectrum integrates
    # to the mean square deviation, from the mean of the whole signal, of the samples the windows use - the variance
    # of the signal when the window length divides its length (parseval_windowed / parseval_windowed_divides)
    used = x[: npw * nwin]
    ms_used = float(np.mean((used - x.sum() / n) ** 2))
    total_w = df * (0.5 * p[0] + p[1 : (npw + 1) // 2].sum() + (0.5 * p[npw // 2] if npw % 2 == 0 else 0.0))
    if abs(total_w - ms_used) > TOL * msq + 1e-300:
        return f"parseval (window of {npw} points): spectrum integrates to {total_w!r}, mean square of the used samples is {ms_used!r}"
    if npw * nwin == n and abs(total_w - float(np.var(x))) > TOL * msq + 1e-300:
        return f"parseval (window of {npw} points divides N): spectrum integrates to {total_w!r}, variance is {float(np.var(x))!r}"
    if len(ia) > 3:
        # the constructor's bookkeeping as the property reads it: bin width fs/N_w (matches the window length, whatever
        # the remainder), multiplied by k by a block average
        if _is_err(ia[3]):
            return f"bookkeeping: unexpected {ia[3]}"
        t = ia[3].split(" ")
        k = initial_block(case)
        bw, bwk = float(dec_rat(t[2])), float(dec_rat(t[3]))
        if (int(t[0]), int(t[1])) != (npw * nwin, nwin) or abs(bw - fs / npw) > TOL * fs / npw or abs(bwk - k * fs / npw) > TOL * k * fs / npw:
            return f"bookkeeping: bin width {bw!r} / {bwk!r} after blocks of {k}, expected fs/N_w = {fs / npw!r} and {k}*fs/N_w"
        if abs(bw - (f[1] - f[0] if len(f) > 1 else bw)) > TOL * fs:
            return "bookkeeping: frequency_bin_width is not the spacing of the frequency axis"
    a, c = case["a"], case["c"]
    _, _, _, pa = _parse_psd(ia[1])
    _, _, _, pc = _parse_psd(ia[2])
    if len(pa) != len(p) or np.max(np.abs(pa - a * a * p)) > TOL * a * a * scale + 1e-300:
        return f"scaling: P(a*x) != a^2 P(x) for a={a}"
    scale_c = 2.0 / (fs * npw) * npw * npw * float(np.mean((x + c) ** 2))
    if len(pc) != len(p) or np.max(np.abs(pc - p)) > TOL * (scale + scale_c) + 1e-300:
        return f"shift: P(x+c) != P(x) for c={c}"
    return None


def _pairs(s):
    return [] if s == "[]" else [tuple(dec_rat(v) for v in r.split(":")) for r in s[1:-1].split(",")]


_STOP = "\0stop"  # verdict of a step after which nothing further is determined by the property


def oracle_step(st, state, ans, ctx):
    """One step judged from the property text.  state = (f, p, nppb) of the spectrum the step is applied to (exact
    rationals of the implementation's own doubles); returns (verdict, state after): verdict None = as stated,
    _STOP = as stated and the chain ends here, otherwise the violated clause.  Nothing but `state` and the step's own
    arguments enters: what was done to the spectrum before (or to the object it was derived from) is irrelevant."""
    f, p, nppb = state
    kind = st[0]
    if kind == "inrange":
        lo, hi = F(st[1]), F(st[2])
        keep = [(a, b) for a, b in zip(f, p) if lo < a <= hi]
        t = ans.split(" ")
        if _is_err(ans) or list(zip(_rats(t[0]), _rats(t[1]))) != keep:
            return f"in_range({st[1]!r}, {st[2]!r}): kept bins are not exactly those with f_min < f <= f_max", state
        return None, ([a for a, _ in keep], [b for _, b in keep], nppb)
    if kind == "exclude":
        rs = [(F(a), F(b)) for a, b in st[1]]
        keep = [(a, b) for a, b in zip(f, p) if not any(lo <= a < hi for lo, hi in rs)]
        t = ans.split(" ")
        if _is_err(ans) or list(zip(_rats(t[0]), _rats(t[1]))) != keep:
            return f"exclude_range({st[1]!r}): removed bins are not exactly those with f_min <= f < f_max", state
        return None, ([a for a, _ in keep], [b for _, b in keep], nppb)
    if kind in ("block", "pipeline"):
        if kind == "pipeline":
            lo, hi, rs, k, opts = pipeline_args(st)  # arguments left out of the call: the documented defaults
            if opts.get("data") is not None:
                return (_STOP if ans == "TypeError" else f"calculate_power_spectrum: data that is not a one-dimensional numpy array: expected TypeError, got {ans[:40]}"), state
            lo, hi, rs = F(lo), F(hi), [(F(a), F(b)) for a, b in rs]
            f, p = ctx["raw"]
            keep = [(a, b) for a, b in zip(f, p) if lo < a <= hi and not any(l <= a < h for l, h in rs)]
            f, p = [a for a, _ in keep], [b for _, b in keep]
            nppb = 1
        else:
            k = st[1]
        if k == 0:
            return (_STOP if _is_err(ans) else "block size 0 accepted"), state
        if _is_err(ans):
            return f"{kind}: unexpected {ans}", state
        nb = len(f) // k
        ef = [sum(f[i * k : (i + 1) * k]) / k for i in range(nb)]
        ep = [sum(p[i * k : (i + 1) * k]) / k for i in range(nb)]
        t = ans.split(" ")
        gf, gp = _rats(t[0]), _rats(t[1])
        if len(gf) != nb or len(gp) != nb:
            return f"{kind}: {len(gf)} blocks of {k} from {len(f)} bins (expected {nb})", state
        for e, g, what in [(ef, gf, "frequency"), (ep, gp, "power")]:
            for i in range(nb):
                if abs(e[i] - g[i]) > Fraction(TOL) * max(abs(e[i]), abs(g[i])):
                    return f"{kind}: block {i} {what} {float(g[i])!r} is not the mean {float(e[i])!r} of bins {i * k}..{(i + 1) * k - 1}", state
        if int(t[2]) != nppb * k:
            return f"{kind}: num_points_per_block={t[2]}, expected {nppb}*{k}", state
        return None, (gf, gp, nppb * k)
    if kind == "withspec":
        m, nn = st[1], (DOC_WITHSPEC_NPPB if st[2] is None else st[2])
        if m != len(p):
            return (_STOP if ans == "ValueError" else "with_spectrum accepted a vector of the wrong length"), state
        if ans != f"{nn} {m}":
            return f"with_spectrum: got {ans}", state
        return None, (f, [Fraction(1)] * m, nn)
    if kind == "binwidth":
        if ctx["data"]:
            nwin = ctx["nwin"]
            npw = ctx["tsu"] // nwin
            exp = Fraction(float(ctx["fs"])) / npw * Fraction(nppb, nwin)  # (spacing of the raw bins) * (bins per block)
            if _is_err(ans) or abs(dec_rat(ans) - exp) > Fraction(TOL) * exp:
                return f"bin width {float(dec_rat(ans))!r} != fs/N_w*k = {float(exp)!r}", state
        return None, state
    if kind == "peaks":
        return oracle_peaks(st, state, ans), state
    return None, state


def oracle_peaks(st, state, ans):
    """the clause identify_peaks violates, None, or _STOP where the call raises (as it must) and the chain ends"""
    f, p, nppb = state
    table, baseline, cutoff, _ = peaks_args(st)
    if nppb != 1 or cutoff <= baseline or baseline < 0:
        return _STOP if ans == "ValueError" else f"identify_peaks: expected ValueError, got {ans[:60]}"
    if len(table) != len(p):
        return _STOP
    flat = peaks_flat(f, p, table, baseline, cutoff, ans)  # the code's quotient; bins within rounding of a threshold as answered
    above = [i for i in range(len(flat)) if flat[i] > cutoff]
    if _is_err(ans):
        if ans == "IndexError" and above and len(f) < 2:
            return _STOP  # df = frequency[1] - frequency[0] does not exist
        return f"identify_peaks: unexpected {ans}"
    rngs = _pairs(ans)
    if not above:
        return None if not rngs else "identify_peaks: ranges reported although no bin exceeds the cut-off"
    df = f[1] - f[0]
    increasing = all(f[i] < f[i + 1] for i in range(len(f) - 1))
    if not increasing:
        return None  # not a spectrum's frequency axis: left to the model comparison (index level)
    for i in above:
        if not any(lo <= f[i] < hi for lo, hi in rngs):
            return f"identify_peaks: bin {i} exceeds the cut-off but lies in no returned range"
    for lo, hi in rngs:
        # read literally, NO slack at the upper edge (finding F-C10-1): the bins with lo <= f < hi
        inside = [i for i in range(len(f)) if lo <= f[i] < hi]
        if not inside:
            return "identify_peaks: a returned range contains no bin"
        if any(flat[i] < baseline for i in inside):
            i = [i for i in inside if flat[i] < baseline][0]
            return f"identify_peaks: the returned range [{float(lo)!r}, {float(hi)!r}) contains bin {i} (f = {float(f[i])!r}), which is below the baseline"
        if not any(flat[i] > cutoff for i in inside):
            return "identify_peaks: a returned range contains no bin above the cut-off"
        # maximal: the neighbours are below the baseline; edges = (first frequency, frequency of the next bin)
        first, last = inside[0], inside[-1]
        if first > 0 and flat[first - 1] >= baseline or last + 1 < len(f) and flat[last + 1] >= baseline:
            return "identify_peaks: a returned range is not a maximal baseline run"
        if lo != f[first]:
            return "identify_peaks: a range does not start at the frequency of its first bin"
        if last + 1 == len(f) and abs(hi - (f[last] + df)) > Fraction(TOL) * abs(hi):
            return "identify_peaks: the range that ends with the spectrum does not end at last frequency + df"
    if any(rngs[i][1] > rngs[i + 1][0] for i in range(len(rngs) - 1)):
        return "identify_peaks: ranges overlap or are out of order"
    return None


def oracle_chain(case, ia):
    src = case["src"]
    idx = 0
    ctx = {"data": "x" in src, "raw": None, "tsu": 4, "fs": 1.0, "nwin": 1}
    if "x" in src:
        if _is_err(ia[0]):
            if expected_npw(src, len(src["x"])) == 0:
                return None
            return f"unexpected error {ia[0]} constructing the spectrum"
        tsu, nppb, f, p = _parse_psd(ia[0])
        f, p = [F(v) for v in f], [F(v) for v in p]
        idx = 1
        ctx.update(raw=(list(f), list(p)), tsu=tsu, fs=src["fs"], nwin=int(ia[0].split(" ")[1]))
    else:
        f, p, nppb = [F(v) for v in src["freq"]], [F(v) for v in src["power"]], src.get("nppb", 1)
    last_pk = None
    states = [(f, p, nppb)]  # states[j + 1]: the spectrum after the j-th applied step, as the property determines it
    for st, src_state, again in plan(case):
        if idx >= len(ia):
            return "harness-bug: fewer answers than steps"
        ans = ia[idx]
        idx += 1
        if ans == "?":
            return None  # the step could not be observed; nothing after it was run
        verdict, state = oracle_step(st, states[src_state], ans, ctx)
        if verdict == _STOP:
            return None
        if verdict:
            return ("second call on the same spectrum object: " if again else "") + verdict
        if st[0] == "peaks" and not _is_err(ans) and len(st[1]) == len(states[src_state][1]):
            last_pk = (src_state, st, ans)
        if st[0] == "exclude" and len(st) > 2 and st[2] == "from-peaks" and last_pk is not None and states[last_pk[0]] == states[src_state] \
                and [tuple(F(v) for v in r) for r in st[1]] == _pairs(last_pk[2]):
            # the ranges identify_peaks returned, handed to the exclusion: no bin above the cut-off survives
            f0, p0, _ = states[src_state]
            pst = [None] + list(peaks_args(last_pk[1])[:3])
            flat = peaks_flat(f0, p0, pst[1], pst[2], pst[3], last_pk[2])
            if all(f0[i] < f0[i + 1] for i in range(len(f0) - 1)):
                kept = set(state[0])
                for i in range(len(f0)):
                    if flat[i] > pst[3] and f0[i] in kept:
                        return f"identify_peaks -> exclude: bin {i} exceeds the cut-off and survives the exclusion of the returned ranges"
                    if flat[i] < pst[2] and f0[i] not in kept:
                        return f"identify_peaks -> exclude: bin {i} (f = {float(f0[i])!r}) is below the baseline and is removed by the exclusion of the returned ranges"
        states.append(state)
    if idx < len(ia) and not _is_err(ia[idx]) and ia[idx] != "?":
        # the final object of the whole chain: a chain of range steps (no block average of >= 2 bins) keeps exactly the
        # bins of the INITIAL spectrum that every step keeps, whatever the order; num_points_per_block is the product
        path = chain_path(case)
        if path is not None:
            t = ia[idx].split(" ")
            f0, p0, n0 = states[0]
            prod = n0
            for st in path:
                if st[0] == "block":
                    prod *= st[1]
            if int(t[2]) != prod:
                return f"chain: num_points_per_block={t[2]} at the end of the chain, expected {prod}"
            if all(st[0] != "block" or st[1] == 1 for st in path):
                keep = list(zip(f0, p0))
                for st in sorted((st for st in path if st[0] != "block"), key=repr):
                    if st[0] == "inrange":
                        keep = [(a, b) for a, b in keep if F(st[1]) < a <= F(st[2])]
                    else:
                        keep = [(a, b) for a, b in keep if not any(F(lo) <= a < F(hi) for lo, hi in st[1])]
                if list(zip(_rats(t[0]), _rats(t[1]))) != keep:
                    return "chain: the final spectrum is not the initial one filtered by every range step"
    return None


def chain_path(case):
    """the steps leading from the initial spectrum to the last object of a chain (following plan()'s sources), or None
    when something other than in_range / exclude / block produced an object on the way"""
    pl = plan(case)
    parents = [None]  # object j + 1 is produced by step j from object pl[j][1]
    for st, src_obj, _ in pl:
        parents.append((st, src_obj))
    path, cur = [], len(pl)
    while cur != 0:
        st, src_obj = parents[cur]
        if st[0] in ("binwidth", "peaks"):
            cur = src_obj
            continue
        if st[0] not in ("inrange", "exclude", "block") or (st[0] == "exclude" and len(st) > 2):
            return None
        path.append(st)
        cur = src_obj
    return path[::-1]


def oracle(case, ia):
    if case["op"] == "psd":
        return oracle_psd(case, ia)
    return oracle_chain(case, ia)


def nontrivial(case, ia):
    if case["op"] == "psd":
        return not _is_err(ia[0]) and len(set(case["x"])) > 1
    if any(_is_err(a) for a in ia):
        return True
    for st, ans in zip(eff_steps(case), ia[1 if "x" in case["src"] else 0 :]):
        if ans == "?":
            break
        if st[0] in ("inrange", "exclude", "block", "pipeline"):
            n_out = 0 if ans.startswith("[]") else ans.split(" ")[0].count(",") + 1
            if n_out > 0:
                return True
        if st[0] == "peaks" and ans != "[]":
            return True
    return False


def tags(case, r):
    return {"op": case["op"]}


def shrink(case):
    if case["op"] == "psd":
        x = case["x"]
        if len(x) > 4:
            for cut in (x[: len(x) // 2], x[1:], x[:-1]):
                if len(cut) >= 4:
                    c = dict(case)
                    c["x"] = cut
                    yield c
        if case.get("ws") is not None:
            c = dict(case)
            c["ws"] = None
            yield c
        for i, v in enumerate(x):
            if v != round(v):
                c = dict(case)
                c["x"] = [float(round(w)) for w in x]
                yield c
                break
    else:
        if len(case["steps"]) > 1:
            for i in range(len(case["steps"])):
                c = dict(case)
                c["steps"] = case["steps"][:i] + case["steps"][i + 1 :]
                if plan(c):
                    yield c
        src = case["src"]
        if "x" in src and len(src["x"]) > 4:
            for cut in (src["x"][: len(src["x"]) // 2], src["x"][:-1]):
                if len(cut) >= 4:
                    c = dict(case)
                    c["src"] = dict(src, x=cut)
                    yield c
        if "freq" in src and len(src["freq"]) > 1 and not any(s[0] == "peaks" for s in case["steps"]):
            c = dict(case)
            c["src"] = dict(src, freq=src["freq"][:-1], power=src["power"][:-1])
            yield c


# ------------------------------------------------------------------ generators


def gen_signal(rng, n):
    kind = rng.randint(0, 7)
    if kind == 0:
        x = [float(rng.randint(-8, 8)) for _ in range(n)]
    elif kind == 1:
        x = [rng.randint(-64, 64) / 16.0 for _ in range(n)]
    elif kind == 2:
        k = rng.randint(0, n // 2)
        ph = rng.uniform(0, 6.28)
        amp = rng.loguniform(1e-3, 1e3)
        x = [amp * math.cos(2 * math.pi * k * i / n + ph) + 0.1 * amp * rng.normal() for i in range(n)]
    elif kind == 3:
        x = [rng.normal() for _ in range(n)]
    elif kind == 4:
        x = [0.0] * n
        x[rng.randint(0, n - 1)] = float(rng.randint(1, 9))
    elif kind == 5:
        x = [(-1.0) ** i * 2.5 + (0.25 if rng.chance(0.3) else 0.0) for i in range(n)]
    elif kind == 6:
        off = rng.choice([10.0, 100.0, -37.5])
        x = [off + rng.normal() for _ in range(n)]
    else:
        v = float(rng.randint(-3, 3))
        x = [v] * n  # constant: the spectrum vanishes
    return x


UNITS = [1e-15, 1e-12, 1e-9, 1e-8, 1e-6, 1e-3, 1e3, 1e6]  # N, m, nm-in-m, ... : the unit a signal is expressed in
SCALES = [1e-12, 1e-9, 1e-6, 1e-3, 1e3, 1e6, -1e-9, -1e-6]  # unit conversions used as the scale factor a


def gen_unit(rng):
    """the unit the signal is expressed in: mostly 1; otherwise a power of ten between 1e-15 and 1e6 (forces in
    newtons, displacements in metres, raw detector counts) or log-uniform over that span.  The property is stated for
    every real signal: nothing in it depends on the absolute magnitude of the samples."""
    c = rng.randint(0, 9)
    if c <= 5:
        return 1.0
    if c <= 8:
        return rng.choice(UNITS)
    return rng.loguniform(1e-15, 1e6)


def in_unit(x, u):
    return x if u == 1.0 else [u * v for v in x]


FS = [1.0, 2.0, 10.0, 78125.0, 1000.0 / 3.0, 0.125, 12800.0]


def gen_fs(rng):
    return rng.choice(FS) if rng.chance(0.7) else rng.loguniform(0.1, 1e5)


def gen_ws(rng, n, fs):
    """None, or a window of npw points given in seconds (exact, perturbed, tie, longer than the data)."""
    c = rng.randint(0, 9)
    if c <= 3:
        return None
    npw = rng.randint(1, n + 2) if c <= 7 else rng.choice([1, 2, n // 2, n // 2 + 1, n - 1, n, n + 1])
    npw = max(1, npw)
    d = rng.choice([0.0, 0.0, 0.3, -0.3, 0.5, -0.5, 0.49, -0.49])
    return (npw + d) / fs


def bin_freqs(n, fs):
    return [float(v) for v in np.fft.rfftfreq(n, 1.0 / fs)]


def edge_value(rng, fr):
    """a frequency on a bin, one ulp beside it, between two bins, or outside the spectrum"""
    c = rng.randint(0, 9)
    f = rng.choice(fr)
    if c <= 2:
        return f
    if c == 3:
        return float(np.nextafter(f, np.inf))
    if c == 4:
        return float(np.nextafter(f, -np.inf))
    if c <= 6:
        j = rng.randint(0, max(0, len(fr) - 2))
        return 0.5 * (fr[j] + fr[min(j + 1, len(fr) - 1)])
    if c == 7:
        return -1.0 - abs(fr[0])
    if c == 8:
        return fr[-1] * 1.5 + 1.0
    return rng.uniform(-0.1 * fr[-1] - 0.1, 1.1 * fr[-1] + 0.1)


def gen_ranges(rng, fr, maxn=3):
    rs = []
    for _ in range(rng.randint(0, maxn)):
        a, b = edge_value(rng, fr), edge_value(rng, fr)
        if rng.chance(0.8) and a > b:
            a, b = b, a
        rs.append([a, b])
    return rs


LEVELS20 = [0.96875, 1.0, 2.0, 20.0, 20.5]  # five levels close around the documented defaults (baseline 1, cut-off 20)
EDGE_DELTAS = [0.0, 1e-3, -1e-3, 1e-9, -1e-9, 0.05, -0.05]


def fs_for_edge(n, k, edge, delta):
    """a sample rate that puts bin k of an n-point spectrum on (delta = 0) or beside a given frequency"""
    return edge * (1.0 + delta) * n / k


def gen_fs_default_range(rng, n):
    """sample rates for calls that leave fit_range out: bins on / just beside an edge of the documented default
    (100, 23000], or anywhere"""
    if n >= 2 and rng.chance(0.7):
        return fs_for_edge(n, rng.randint(1, n // 2), rng.choice(DOC_FIT_RANGE), rng.choice(EDGE_DELTAS))
    return rng.choice([78125.0, 50000.0, 12800.0, 2000.0, rng.loguniform(300.0, 1e5)])
LEVELS = [0.25, 1.0, 2.0, 5.0, 7.0]  # below baseline, = baseline, between, = cut-off, above (baseline 1, cut-off 5)


def gen_peaks_step(rng, m):
    """model-function table and thresholds; most tables are built so that power/table hits chosen levels"""
    baseline, cutoff = rng.choice([(1.0, 5.0), (1.0, 20.0), (0.0, 1.0), (0.5, 0.75), (2.0, 3.0)])
    c = rng.randint(0, 9)
    if c == 0:
        baseline, cutoff = cutoff, baseline  # ValueError
    elif c == 1:
        baseline = -0.5  # ValueError (when below the cut-off)
    elif c == 2:
        cutoff = baseline  # ValueError
    return baseline, cutoff


def peaks_table(rng, p, baseline, cutoff, exact_ties_only=False):
    """table such that p/table ~ chosen level per bin (runs of levels to make contiguous ranges).  exact_ties_only (axes
    with duplicate frequencies, where peaks_flat cannot read the side of a bin off the answer): a bin aimed at a
    threshold that would land within rounding of it without being on it by exact arithmetic is aimed at the level
    between the thresholds instead."""
    lv_choices = [0.5 * baseline if baseline > 0 else -1.0, baseline, 0.5 * (baseline + cutoff), cutoff, 2.0 * cutoff + 1.0]
    table = []
    cur = rng.choice(lv_choices)
    for v in p:
        if rng.chance(0.45):
            cur = rng.choice(lv_choices)
        lvl = cur
        if v <= 0 or lvl <= 0:
            table.append(1.0 if lvl > 0 else 1e30)
        else:
            t = v / lvl
            if exact_ties_only and lvl in (baseline, cutoff) and not (math.frexp(t)[0] == 0.5 and t * lvl == v):
                t = v / lv_choices[2]
            table.append(t)
    return table


def gap_ranges(rng, cur):
    """ranges that cut bins out of the MIDDLE of the running axis (both neighbours survive), so that a later block
    average has blocks that straddle the gap and whose mean frequency lies inside the range that made it"""
    rs = []
    if len(cur) >= 3:
        for _ in range(rng.choice([1, 1, 2])):
            i = rng.randint(1, len(cur) - 2)
            j = rng.randint(i, min(len(cur) - 2, i + rng.choice([0, 1, 2, 3])))
            lo = cur[i] if rng.chance(0.6) else 0.5 * (cur[i - 1] + cur[i])
            hi = cur[j + 1] if rng.chance(0.6) else 0.5 * (cur[j] + cur[j + 1])
            rs.append([lo, hi])
    return rs


def chain_steps(rng, fr, pw, data_src):
    """1-6 steps; the running frequency list is tracked approximately to aim the edges.  Later steps come back to
    the arguments of earlier ones (the same ranges excluded / selected again after the axis has changed under them,
    the same block size again) and steps are repeated on the object they were first applied to: the answer of a step
    is determined by the spectrum it is applied to and its arguments, not by what was asked before."""
    steps = []
    nsteps = rng.choice([1, 1, 2, 2, 3, 3, 4, 5, 6])
    cur = list(fr)
    blocked = False
    seen = []  # every [lo, hi] used so far by an exclude or in_range step
    stale = False  # a block average has put new frequencies under the ranges in `seen`
    for _ in range(nsteps):
        if not cur:
            cur = [0.0]
        before = cur
        c = rng.randint(0, 11)
        if c <= 2:
            if seen and rng.chance(0.6 if stale else 0.3):
                a, b = rng.choice(seen)
            else:
                a, b = edge_value(rng, cur), edge_value(rng, cur)
                if rng.chance(0.85) and a > b:
                    a, b = b, a
            steps.append(["inrange", a, b])
            seen.append([a, b])
            cur = [f for f in cur if a < f <= b]
        elif c <= 5:
            m = rng.randint(0, 3) if stale and rng.chance(0.5) else rng.randint(0, 9)
            if seen and m <= 3:
                # the very ranges of an earlier step again (all of them, or some, or together with new ones)
                rs = [list(r) for r in (seen if m == 0 else rng.sample(seen, rng.randint(1, min(3, len(seen)))))]
                if m == 3:
                    rs += gen_ranges(rng, cur, 2)
                    rng.shuffle(rs)
            elif m <= 5:
                rs = gap_ranges(rng, cur)
            else:
                rs = gen_ranges(rng, cur)
            steps.append(["exclude", rs])
            seen.extend(list(r) for r in rs)
            cur = [f for f in cur if not any(a <= f < b for a, b in rs)]
        elif c <= 8:
            k = rng.choice([1, 2, 3, rng.randint(1, max(1, len(cur) + 1))])
            steps.append(["block", k])
            cur = [sum(cur[i * k : (i + 1) * k]) / k for i in range(len(cur) // k)]
            blocked = blocked or k != 1
            stale = stale or (k != 1 and bool(seen))
        elif c == 9:
            steps.append(["binwidth"])
        elif c == 10:
            steps.append(["withspec", len(cur) + rng.choice([0, 0, 0, 1, -1]) if len(cur) > 0 else 0, rng.randint(1, 5)])
            if rng.chance(0.5):
                break
            if rng.chance(0.4):
                steps[-1][2] = None  # num_points_per_block left out of the call: the documented default 1
        else:
            break
        u = rng.randint(0, 19)
        if u <= 1:
            steps.append(["again"])
        elif u == 2 and steps[-1][0] in ("inrange", "exclude", "block", "withspec"):
            steps.append(["back"])  # go on from the object that step was applied to
            cur = before
    return steps


def small_scope(quick):
    # in_range: every (lo, hi) on the half-integer grid around small integer frequency grids (incl. duplicates)
    grids = [[0, 1, 2, 3], [1, 1, 2], [2], []] if quick else [[0, 1, 2, 3, 4], [1, 1, 2, 4], [2], [], [3, 2, 1]]
    for g in grids:
        top = (max(g) if g else 0) + 1
        vals = [v / 2.0 for v in range(-1, 2 * top + 1)]
        pw = [float(10 + i) for i in range(len(g))]
        src = {"freq": [float(v) for v in g], "power": pw}
        for lo, hi in itertools.product(vals, vals):
            yield {"stream": "small-scope", "op": "chain", "src": src, "steps": [["inrange", lo, hi]]}
        ex_vals = vals if not quick else vals[::2]
        for lo, hi in itertools.product(ex_vals, ex_vals):
            yield {"stream": "small-scope", "op": "chain", "src": src, "steps": [["exclude", [[lo, hi]]]]}
        two = vals[1::2] if not quick else vals[1::3]
        for a, b, c, d in itertools.product(two, repeat=4):
            yield {"stream": "small-scope", "op": "chain", "src": src, "steps": [["exclude", [[a, b], [c, d]]]]}
    # block averaging: every length <= 12 (quick 9) and every block size up to length + 1, twice in a row
    nmax = 9 if quick else 13
    for n in range(0, nmax + 1):
        src = {"freq": [float(i) for i in range(n)], "power": [float((i * 7) % 5 + 0.5) for i in range(n)]}
        for k in range(0, n + 2):
            yield {"stream": "small-scope", "op": "chain", "src": src, "steps": [["block", k]]}
            if 1 <= k <= n // 2:
                for k2 in range(1, n // k + 2):
                    yield {"stream": "small-scope", "op": "chain", "src": src, "steps": [["block", k], ["block", k2]]}
    # coming back with the same arguments after the axis has changed: range step, block average, the SAME range step
    # again (the block means are new frequencies: a block that straddles the gap an exclusion left has its mean inside
    # the excluded range; one that straddles the edge of a selected range has its mean outside ...), every range with
    # integer / half-integer edges on an integer axis, every block size 1..3 (4); the step twice in a row, twice on the
    # same object, on an object that has been block averaged / restricted before (taken back), and the exclusion again
    # together with a second, different one
    nmax = 7 if quick else 10
    for n in range(2, nmax + 1):
        src = {"freq": [float(i) for i in range(n)], "power": [float((i * 5) % 7 + 0.25) for i in range(n)]}
        edges = [float(v) for v in range(0, n + 1)] if quick else [v / 2.0 for v in range(-1, 2 * n + 1)]
        for lo, hi in itertools.combinations(edges, 2):
            for first in (["exclude", [[lo, hi]]], ["inrange", lo, hi]):
                for k in range(1, (3 if quick else 4) + 1):
                    yield {"stream": "small-scope", "op": "chain", "src": src, "steps": [first, ["block", k], first]}
                yield {"stream": "small-scope", "op": "chain", "src": src, "steps": [first, first]}
                yield {"stream": "small-scope", "op": "chain", "src": src, "steps": [first, ["again"], ["block", 2], ["again"]]}
                yield {"stream": "small-scope", "op": "chain", "src": src, "steps": [["block", 2], ["back"], first, ["block", 2], ["back"], ["back"], first]}
            if n <= 6:
                for lo2, hi2 in itertools.combinations(edges[:: 1 if quick else 2], 2):
                    yield {"stream": "small-scope", "op": "chain", "src": src,
                           "steps": [["exclude", [[lo, hi]]], ["block", 2], ["exclude", [[lo2, hi2], [lo, hi]]]]}
    # identify_peaks: every pattern of five levels on up to L bins (baseline 1, cut-off 5, table of ones)
    L = 6 if quick else 7
    for n in range(1, L + 1):
        for pat in itertools.product(range(5), repeat=n):
            p = [LEVELS[i] for i in pat]
            src = {"freq": [0.5 * i for i in range(n)], "power": p}
            yield {"stream": "small-scope", "op": "chain", "src": src, "steps": [["peaks", [1.0] * n, 1.0, 5.0]]}
            if n >= 2 and any(i == 4 for i in pat) and (n <= 5 or not quick):
                yield {"stream": "small-scope", "op": "chain", "src": src, "steps": [["peaks", [1.0] * n, 1.0, 5.0], ["exclude", None, "from-peaks"]]}
    # identify_peaks called WITHOUT baseline and / or peak_cutoff (documented defaults 1.0 and 20.0): every pattern of the
    # five levels around the thresholds in force on up to 4 (5) bins
    for n in range(1, (4 if quick else 5) + 1):
        for pat in itertools.product(range(5), repeat=n):
            src5 = {"freq": [0.5 * i for i in range(n)], "power": [LEVELS[i] for i in pat]}
            src20 = {"freq": [0.5 * i for i in range(n)], "power": [LEVELS20[i] for i in pat]}
            yield {"stream": "small-scope", "op": "chain", "src": src5, "steps": [["peaks", [1.0] * n, DOC_BASELINE, 5.0, ["baseline"]]]}
            yield {"stream": "small-scope", "op": "chain", "src": src20, "steps": [["peaks", [1.0] * n, 1.0, DOC_CUTOFF, ["peak_cutoff"]]]}
            yield {"stream": "small-scope", "op": "chain", "src": src20, "steps": [["peaks", [1.0] * n, DOC_BASELINE, DOC_CUTOFF, ["baseline", "peak_cutoff"]]]}
    # with_spectrum called WITHOUT num_points_per_block (documented default 1: the new spectrum counts as unblocked, so
    # identify_peaks accepts it) on unblocked, block averaged and injected blocked spectra
    for n in range(2, 7):
        src = {"freq": [float(i) for i in range(n)], "power": [float((i * 5) % 7 + 0.25) for i in range(n)]}
        tab = lambda m: [0.125 if i % 3 == 1 else 1.0 for i in range(m)]  # noqa: E731  (ones / table: 8 > 5 at every third bin)
        yield {"stream": "small-scope", "op": "chain", "src": src, "steps": [["withspec", n, None], ["peaks", tab(n), 1.0, 5.0]]}
        yield {"stream": "small-scope", "op": "chain", "src": src, "steps": [["block", 2], ["withspec", n // 2, None], ["peaks", tab(n // 2), 1.0, 5.0]]}
        yield {"stream": "small-scope", "op": "chain", "src": dict(src, nppb=3), "steps": [["withspec", n, None], ["peaks", tab(n), 1.0, 5.0, ["baseline"]]]}
        yield {"stream": "small-scope", "op": "chain", "src": dict(src, nppb=3), "steps": [["withspec", n, 2], ["withspec", n, None], ["binwidth"]]}
    # calculate_power_spectrum called WITHOUT fit_range / num_points_per_block / excluded_ranges (documented defaults
    # (100, 23000], 2000, none): every subset of omitted arguments on a 16-point signal sampled at 50 kHz (bins 1..7 lie in
    # the default fit range, the default block is larger than the spectrum) ...
    subsets = [list(c) for r in (1, 2, 3) for c in itertools.combinations(["fit_range", "num_points_per_block", "excluded_ranges"], r)]
    x16 = [float(((i * i * 3 + i) % 11) - 5) + (0.25 if i % 4 == 1 else 0.0) for i in range(16)]
    fr16 = bin_freqs(16, 50000.0)
    for omit in subsets:
        for k in (1, 2):
            for lo, hi in ((-1.0, 1e6), (fr16[1], fr16[-2])):
                yield {"stream": "small-scope", "op": "chain", "src": {"x": x16, "fs": 50000.0},
                       "steps": [["pipeline", lo, hi, [[fr16[2], fr16[4]]], k, True, {"omit": omit}]]}
    # ... with sample rates that put every bin 1..8 of that signal on, and just beside, either edge of the default fit
    # range (kept are the bins with 100 < f <= 23000) ...
    for k in range(1, 9):
        for edge in DOC_FIT_RANGE:
            for delta in EDGE_DELTAS[:5]:
                yield {"stream": "small-scope", "op": "chain", "src": {"x": x16, "fs": fs_for_edge(16, k, edge, delta)},
                       "steps": [["pipeline", -1.0, 1e6, [], 1, False, {"omit": ["fit_range", "excluded_ranges"]}]]}
    # ... and on signals long enough for the default block of 2000 bins to be filled: 4000 samples with only the block size
    # left out (2001 bins, one block), 4400 samples at 50 kHz with every optional argument left out (2016 bins in the
    # default fit range); thorough: two full blocks
    big = [(4000, 78125.0, ["num_points_per_block"]), (4400, 50000.0, ["fit_range", "num_points_per_block", "excluded_ranges"])]
    if not quick:
        big += [(8002, 78125.0, ["num_points_per_block", "excluded_ranges"]), (4001, 1000.0 / 3.0, ["num_points_per_block"])]
    for n, fs, omit in big:
        xb = [float(((i * i * 3 + i) % 11) - 5) + (0.25 if i % 4 == 1 else 0.0) + 3.0 * math.cos(0.7 * i) for i in range(n)]
        yield {"stream": "small-scope", "op": "chain", "src": {"x": xb, "fs": fs}, "steps": [["pipeline", -1.0, 1e9, [], 1, False, {"omit": omit}]]}
    # calculate_power_spectrum: one exclusion range between every pair of bin positions, block sizes 1..3
    n = 16 if quick else 24
    x = [float(((i * i * 3 + i) % 11) - 5) + (0.25 if i % 4 == 1 else 0.0) for i in range(n)]
    fr = bin_freqs(n, 8.0)
    for a, b in itertools.combinations(range(0, len(fr), 1 if not quick else 2), 2):
        for k in (1, 2, 3):
            for lo, hi in ((-1.0, 100.0), (fr[1], fr[-2])):
                yield {"stream": "small-scope", "op": "chain", "src": {"x": x, "fs": 8.0},
                       "steps": [["pipeline", lo, hi, [[fr[a], fr[b]]], k, True]]}
    # the exclusion through the PUBLIC entry point alone (lk.calculate_power_spectrum with blocks of one bin; the tie
    # that remains when the private `_exclude_range` is renamed): every single range and pairs of ranges on the
    # half-integer grid around the integer axis 0..4 of an 8-point signal sampled at 8 Hz, whole axis and a fit range
    # between bins
    x8 = x[:8]
    vals = [v / 2.0 for v in range(-1, 11)]
    for lo, hi in itertools.product(vals, vals):
        for flo, fhi in ((-1.0, 100.0), (0.5, 3.5)):
            yield {"stream": "small-scope", "op": "chain", "src": {"x": x8, "fs": 8.0}, "steps": [["pipeline", flo, fhi, [[lo, hi]], 1, True]]}
    two = vals[1::2] if not quick else vals[1::3]
    for a, b, c, d in itertools.product(two, repeat=4):
        yield {"stream": "small-scope", "op": "chain", "src": {"x": x8, "fs": 8.0}, "steps": [["pipeline", -1.0, 100.0, [[a, b], [c, d]], 1, True]]}
    # spectra of every length 4..Nmax with every window length 1..N+1
    nmax = 12 if quick else 33
    for n in range(4, nmax + 1):
        x = [float(((i * i + 3 * i) % 7) - 3) + (0.5 if i % 3 == 0 else 0.0) for i in range(n)]
        for npw in [None] + list(range(1, n + 2)):
            yield {"stream": "small-scope", "op": "psd", "x": x, "fs": 2.0, "ws": None if npw is None else npw / 2.0, "a": -1.5, "c": 2.0}
    # the same signals expressed in every unit 1e-15 .. 1e6 (odd and even length, no window / 2 windows / windows
    # with a remainder), scaled by a unit conversion and shifted by offsets of the signal's own size
    lens = (4, 5, 8, 9) if quick else (4, 5, 6, 7, 8, 9, 12, 13, 32, 33)
    for n in lens:
        base = [float(((i * i + 3 * i) % 7) - 3) + (0.5 if i % 3 == 0 else 0.0) for i in range(n)]
        for e in range(-15, 7):
            u = 10.0**e
            x = [u * v for v in base]
            for j, npw in enumerate([None, n // 2, 3]):
                a = (1e-9, 1e-3, 1e3, -1e-6, 1e-12, 1e6)[(e + j) % 6]
                c = (2.0, -0.75, 100.0)[(e + 2 * j) % 3] * u
                yield {"stream": "small-scope", "op": "psd", "x": x, "fs": 2.0, "ws": None if npw is None else npw / 2.0, "a": a, "c": c}


def cases(tier, rng):
    quick = tier == "quick"
    # ---- corpus
    import glob
    import json
    import os

    here = os.path.dirname(os.path.dirname(os.path.abspath(__file__)))
    for pth in sorted(glob.glob(os.path.join(here, "corpus", "C10", "*.json"))):
        c = json.load(open(pth))
        c["stream"] = "corpus"
        yield c
    # ---- malformed
    xs = [1.0, 2.0, 0.5, -1.0, 3.0, 2.5]
    for ws in (0.0, -1.0, -1e-9):
        yield {"stream": "malformed", "op": "psd", "x": xs, "fs": 10.0, "ws": ws, "a": 2.0, "c": 1.0}
    yield {"stream": "malformed", "op": "psd", "x": xs, "fs": 10.0, "ws": None, "a": 2.0, "c": 1.0, "ndim": 2}
    yield {"stream": "malformed", "op": "psd", "x": xs, "fs": 10.0, "ws": 0.5, "a": 2.0, "c": 1.0, "ndim": 2}
    for ws in (0.04, 0.05, 1e-9):  # rounds to a window of zero points
        yield {"stream": "malformed", "op": "psd", "x": xs, "fs": 10.0, "ws": ws, "a": 2.0, "c": 1.0}
    yield {"stream": "malformed", "op": "psd", "x": [], "fs": 10.0, "ws": None, "a": 2.0, "c": 1.0}
    src = {"freq": [0.0, 1.0, 2.0, 3.0], "power": [1.0, 9.0, 1.0, 9.0]}
    yield {"stream": "malformed", "op": "chain", "src": src, "steps": [["block", 0]]}
    yield {"stream": "malformed", "op": "chain", "src": src, "steps": [["block", 2], ["peaks", [1.0, 1.0], 1.0, 5.0]]}
    yield {"stream": "malformed", "op": "chain", "src": src, "steps": [["peaks", [1.0] * 4, 5.0, 1.0]]}
    yield {"stream": "malformed", "op": "chain", "src": src, "steps": [["peaks", [1.0] * 4, 5.0, 5.0]]}
    yield {"stream": "malformed", "op": "chain", "src": src, "steps": [["peaks", [1.0] * 4, -1.0, 5.0]]}
    yield {"stream": "malformed", "op": "chain", "src": src, "steps": [["inrange", 0.5, 1.5], ["peaks", [1.0], 1.0, 5.0]]}
    yield {"stream": "malformed", "op": "chain", "src": src, "steps": [["withspec", 3, 2]]}
    yield {"stream": "malformed", "op": "chain", "src": src, "steps": [["withspec", 5, 2]]}
    yield {"stream": "malformed", "op": "chain", "src": src, "steps": [["inrange", 3.0, 1.0]]}
    yield {"stream": "malformed", "op": "chain", "src": src, "steps": [["exclude", [[3.0, 1.0]]]]}
    yield {"stream": "malformed", "op": "chain", "src": {"x": xs, "fs": 10.0}, "steps": [["pipeline", 0.0, 10.0, [], 0, False]]}
    for how in ("list", "2d", "0d"):  # data that is not a one-dimensional numpy array: the documented TypeError
        yield {"stream": "malformed", "op": "chain", "src": {"x": xs, "fs": 10.0}, "steps": [["pipeline", 0.0, 10.0, [], 1, False, {"data": how}]]}
        yield {"stream": "malformed", "op": "chain", "src": {"x": xs, "fs": 10.0}, "steps": [["pipeline", 0.0, 10.0, [[1.0, 2.0]], 2, True, {"data": how, "omit": ["fit_range"]}]]}

    # ---- exhaustive small scope
    yield from small_scope(quick)

    # ---- random spectra: Parseval / scale / shift / windows
    N = 1500 if quick else 12000
    r = rng.fork("c10-psd")
    for i in range(N):
        sub = r.fork(i)
        n = sub.choice([4, 5, 8, 9, 32, 33, 95, 96]) if sub.chance(0.3) else sub.randint(4, 96 if sub.chance(0.3) else 24)
        fs = gen_fs(sub)
        a = sub.choice([2.0, -1.0, 0.5, 3.0, -0.1, 1e3, 1e-3]) if sub.chance(0.6) else sub.uniform(-10, 10) or 1.0
        c = sub.choice([1.0, -2.5, 10.0, 0.1]) if sub.chance(0.6) else sub.uniform(-50, 50)
        x = gen_signal(sub, n)
        ws = gen_ws(sub, n, fs)
        # magnitude: the signal in another unit (shift in the same unit, or, rarely, an absolute one), and unit
        # conversions as the scale factor
        u = gen_unit(sub)
        if u != 1.0 and sub.chance(0.85):
            c = c * u
        if sub.chance(0.25):
            a = sub.choice(SCALES) if sub.chance(0.7) else sub.choice([-1.0, 1.0]) * sub.loguniform(1e-12, 1e6)
        yield {"stream": "random", "op": "psd", "x": in_unit(x, u), "fs": fs, "ws": ws, "a": a, "c": c, "subseed": i}

    # ---- random chains on computed spectra and on injected arrays
    M = 3000 if quick else 25000
    r = rng.fork("c10-chain")
    for i in range(M):
        sub = r.fork(i)
        if sub.chance(0.6):
            n = sub.randint(4, 96 if sub.chance(0.25) else 30)
            fs = gen_fs(sub)
            ws = gen_ws(sub, n, fs) if sub.chance(0.25) else None
            x = gen_signal(sub, n)
            src = {"x": x, "fs": fs}
            if ws is not None:
                src["ws"] = ws
            rescale = True
            npw = expected_npw({"ws": ws, "fs": fs}, n) or 1
            fr = bin_freqs(npw, fs)
            pw = None
        else:
            m = sub.randint(0, 14)
            style = sub.randint(0, 3)
            if style == 0:
                fr = [float(j) for j in range(m)]
            elif style == 1:
                fr = sorted(sub.choice([0.0, 0.5, 1.0, 1.5, 2.0, 3.0, 4.5]) for _ in range(m))  # duplicates
            elif style == 2:
                fr = [sub.uniform(0, 10) for _ in range(m)]  # unsorted
            else:
                fr = [0.1 * j for j in range(m)]
            pw = [sub.choice([0.0, 0.25, 1.0, 2.0, 7.0, sub.loguniform(1e-6, 1e6)]) for _ in range(m)]
            src = {"freq": fr, "power": pw}
            if sub.chance(0.15):
                src["nppb"] = sub.randint(2, 7)
            rescale = False
        which = sub.randint(0, 9)
        if which <= 4 or not fr:
            steps = chain_steps(sub, fr or [0.0], pw, "x" in src)
        elif which <= 6 and "x" in src and "ws" not in src:
            lo, hi = edge_value(sub, fr), edge_value(sub, fr)
            if sub.chance(0.85) and lo > hi:
                lo, hi = hi, lo
            rs = gen_ranges(sub, fr, 2)
            steps = [["pipeline", lo, hi, rs, sub.choice([1, 2, 3, sub.randint(1, len(fr) + 1)]), sub.chance(0.5)]]
            if sub.chance(0.25):
                # arguments left out of the call (the documented defaults apply); a sample rate that puts bins into the
                # default fit range when that one is left out
                omit = sub.choice([["num_points_per_block"], ["fit_range"], ["excluded_ranges"], ["fit_range", "excluded_ranges"],
                                   ["fit_range", "num_points_per_block", "excluded_ranges"]])
                steps[0].append({"omit": omit})
                if "fit_range" in omit:
                    src["fs"] = gen_fs_default_range(sub, len(src["x"]))
                    fr = bin_freqs(len(src["x"]), src["fs"])
                    steps[0][3] = gen_ranges(sub, fr, 2)  # exclusion ranges aimed at the new axis
        else:
            # identify_peaks (optionally after in_range so that the grid does not start at 0)
            steps = []
            cur = list(fr)
            if sub.chance(0.3) and len(cur) > 3:
                a_, b_ = sorted([edge_value(sub, cur), edge_value(sub, cur)])
                steps.append(["inrange", a_, b_])
                cur = [f for f in cur if a_ < f <= b_]
            baseline, cutoff = gen_peaks_step(sub, len(cur))
            steps.append(["peaks", None, baseline, cutoff])
            if sub.chance(0.5):
                steps.append(["exclude", None, "from-peaks"])
            if sub.chance(0.2):
                # thresholds left out of the call: the documented defaults (baseline 1.0, peak_cutoff 20.0) apply; the
                # other threshold stays as drawn (also the combinations the call must refuse)
                omit = sub.choice([["baseline"], ["peak_cutoff"], ["baseline", "peak_cutoff"]])
                pk = [st for st in steps if st[0] == "peaks"][0]
                pk.append(omit)
                pk[2], pk[3] = peaks_args(pk)[1:3]
        if which > 4 and fr and sub.chance(0.15):
            steps.append(["again"])  # the pipeline / peak identification a second time on the same object
        if rescale:
            src["x"] = in_unit(src["x"], gen_unit(sub))  # the steps act on frequencies: unaffected by the unit
        yield {"stream": "random", "op": "chain", "src": src, "steps": steps, "subseed": i}


def _fill_peaks_tables(case):
    """the table of a random peaks step depends on the powers the implementation computes: fill it lazily
    (deterministically from the case) the first time the case is evaluated"""
    for idx, st in enumerate(case["steps"]):
        if st[0] == "peaks" and st[1] is None:
            from common import Rng

            try:
                ps = make_ps(case)
            except Exception:
                st[1] = []  # the spectrum cannot be built (window of zero points): the step is never reached
                continue
            for prev in case["steps"][:idx]:
                if prev[0] == "inrange":
                    ps = ps.in_range(prev[1], prev[2])
            rng = Rng(case.get("subseed", 0) * 7919 + 13)
            fr = [float(v) for v in ps.frequency]
            _, b_, c_, _ = peaks_args(st)
            st[1] = peaks_table(rng, [float(v) for v in ps.power], b_, c_, exact_ties_only=len(set(fr)) != len(fr))


_impl0 = impl


def impl(case):  # noqa: F811  (wrap: complete lazily generated parts of a case before it is used)
    if case["op"] == "chain":
        _fill_peaks_tables(case)
    return _impl0(case)


RULE = (
    "corpus + malformed stream (window <= 0, window rounding to 0 points, 2-D data, empty data, block size 0, "
    "identify_peaks on a blocked spectrum / cutoff <= baseline / negative baseline / single-bin spectrum, "
    "with_spectrum of the wrong length, inverted ranges) + exhaustive small scope (in_range: every (lo,hi) on the "
    "half-integer grid around 4-5 small frequency grids incl. duplicates/unsorted; _exclude_range: every single range "
    "and every pair of ranges on that grid; block averaging: every length <= 13 (quick 9) x every block size 0..n+1, "
    "and twice in a row; identify_peaks: every pattern of the five levels {below baseline, = baseline, between, "
    "= cut-off, above} on 1..7 (quick 6) bins; PowerSpectrum of every length 4..33 (quick 12) with every window "
    "length 1..N+1 and no window) + seeded random: signals of length 4-96 (integers, dyadic rationals, noisy "
    "sines, noise, impulses, Nyquist alternation, large offsets, constants; 40% of them expressed in another unit: "
    "multiplied by 1e-15..1e6, shifts in the same unit, unit conversions 1e-12..1e6 as scale factors; small scope: "
    "one signal per length in every unit 1e-15..1e6), sample rates (dyadic, 1000/3, "
    "log-uniform), windows given in seconds (exact, +-0.3, +-0.49 and +-0.5 sample ties, longer than the data), "
    "scale factors and shifts; chains of 1-6 in_range/_exclude_range/downsampled_by/with_spectrum/bin-width steps "
    "and calculate_power_spectrum pipelines (through the exported lk.calculate_power_spectrum; small scope: every "
    "single exclusion range and pairs of ranges on the half-integer grid around the integer axis of an 8-point signal, "
    "blocks of one bin) on computed spectra and on injected arrays, with range edges placed on "
    "a bin, one ulp beside it, between bins and outside the spectrum, overlapping/inverted exclusion ranges, ranges "
    "that cut bins out of the middle of the axis; later steps of a chain come back to the ranges of earlier ones "
    "(all / some / mixed with new ones, preferably once a block average has changed the axis under them), steps are "
    "repeated on the object they were first applied to ('again') and chains continue from an object that has been "
    "used before ('back'); small scope: range step -> block average k -> the same range step (exclude and in_range, "
    "every range with integer (thorough: half-integer) edges on integer axes of 2..7 (10) bins, k = 1..3 (4)), the "
    "step twice in a row / twice on the same object / on an object block averaged before, and re-exclusion together "
    "with every second range after blocks of two; "
    "identify_peaks with model tables built so that power/model hits the five levels in runs; calls that LEAVE OUT "
    "optional arguments (model and oracle get the documented defaults): identify_peaks without baseline / peak_cutoff "
    "(small scope: every pattern of five levels close around 1 and 20 on <= 4 (5) bins; 20% of the random peak chains), "
    "with_spectrum without num_points_per_block (then identify_peaks / bin width), calculate_power_spectrum without any "
    "subset of fit_range / num_points_per_block / excluded_ranges (16-point signal with sample rates putting each bin on, "
    "1e-9 and 1e-3 beside either edge of the default (100, 23000]; 4000 / 4400-sample signals that fill the default "
    "block of 2000; 25% of the random pipelines); malformed: data handed to calculate_power_spectrum as a list, 2-D or "
    "0-D array (TypeError). Non-trivial: the "
    "signal is not constant (psd), or some step keeps at least one bin / reports a peak / raises."
)


def extra_coverage(results):
    kinds, errs, steps = {}, {}, {}
    sizes = {"n<=8": 0, "n<=32": 0, "n<=96": 0}
    windows = {"none": 0, "divides": 0, "remainder": 0, "longer": 0}
    peaks = {"no-peak": 0, "one": 0, "several": 0}
    for r in results:
        c = r["case"]
        kinds[c["op"]] = kinds.get(c["op"], 0) + 1
        for a in r["impl"]:
            if _is_err(a):
                errs[a] = errs.get(a, 0) + 1
        x = c.get("x") or c.get("src", {}).get("x")
        if x is not None:
            n = len(x)
            sizes["n<=8" if n <= 8 else "n<=32" if n <= 32 else "n<=96"] += 1
        if c["op"] == "psd" and not _is_err(r["impl"][0]):
            t = r["impl"][0].split(" ")
            tsu, nb = int(t[0]), int(t[1])
            n = len(c["x"])
            if c.get("ws") is None:
                windows["none"] += 1
            elif tsu // nb == n and nb == 1:
                windows["longer"] += 1
            elif tsu == n:
                windows["divides"] += 1
            else:
                windows["remainder"] += 1
        if c["op"] == "chain":
            off = 1 if "x" in c["src"] else 0
            for (st, src_obj, again), a in zip(plan(c), r["impl"][off:]):
                steps[st[0]] = steps.get(st[0], 0) + 1
                if again:
                    steps["again"] = steps.get("again", 0) + 1
            for st in c["steps"]:
                if st[0] == "back":
                    steps["back"] = steps.get("back", 0) + 1
                if st[0] == "peaks" and not _is_err(a):
                    k = 0 if a == "[]" else a.count(",") + 1
                    peaks["no-peak" if k == 0 else "one" if k == 1 else "several"] += 1
    opk = {}
    for r in results:
        for o in r.get("ops", []):
            nm = o.split(" ", 1)[0]
            opk[nm] = opk.get(nm, 0) + 1
    return {
        "protocol_ops_by_kind": dict(sorted(opk.items())),
        "whole_chain_tie": dict(_chain_stats),
        "case_kinds": kinds,
        "error_kinds": errs,
        "chain_steps": steps,
        "signal_sizes": sizes,
        "window_kinds": windows,
        "peak_results": peaks,
        "private_names_reachable": dict(sorted(_reach.items())),
        "calls_with_argument_left_out": dict(sorted(_omitted.items())),
        "steps_not_observable": sum(1 for r in results for a in r["impl"] if a == "?"),
        "dropped_for_margin": 0,
        "exhaustive": False,
        "exhaustive_note": "the small-scope stream enumerates its finite space completely; the random streams do not",
    }
