"""Self-test of lean/Verif/Py.lean against CPython/NumPy (run by every check; see DESIGN §2.1)."""
import itertools

import numpy as np

from common import enc_list, enc_opt


def ops_and_expected(rng):
    out = []
    for a in range(-7, 8):
        for b in (-3, -2, -1, 1, 2, 3, 5):
            out.append((f"py.floordiv {a} {b}", str(a // b)))
            out.append((f"py.mod {a} {b}", str(a % b)))
    lists = [[], [7], [7, 8], [5, 6, 7, 8], [1, 2, 3, 4, 5, 6]]
    for l in lists:
        n = len(l)
        bounds = [None] + list(range(-n - 2, n + 3))
        for i, j in itertools.product(bounds, bounds):
            out.append((f"py.slice {enc_list(l)} {enc_opt(i)} {enc_opt(j)}", enc_list(l[i:j])))
        for i in range(-n - 2, n + 3):
            try:
                e = str(l[i])
            except IndexError:
                e = "IndexError"
            out.append((f"py.index {enc_list(l)} {i}", e))
        for i, j in itertools.product([None, -n - 1, -2, 0, 1, n, n + 1], repeat=2):
            for c in (1, 2, 3, 7):
                out.append((f"py.slicestep {enc_list(l)} {enc_opt(i)} {enc_opt(j)} {c}", enc_list(l[i:j:c])))
        out.append((f"py.cumsum {enc_list(l)}", enc_list(np.cumsum(np.array(l, dtype=np.int64)).tolist() if l else [])))
    for _ in range(200):
        n = rng.randint(0, 8)
        l = sorted(rng.randint(-5, 5) for _ in range(n))
        v = rng.randint(-6, 6)
        arr = np.array(l, dtype=np.int64)
        out.append((f"py.searchsorted left {enc_list(l)} {v}", str(int(np.searchsorted(arr, v, side="left")))))
        out.append((f"py.searchsorted right {enc_list(l)} {v}", str(int(np.searchsorted(arr, v, side="right")))))
        u = [rng.randint(-3, 3) for _ in range(n)]
        out.append((f"py.argmax {enc_list(u)}", str(int(np.argmax(u))) if u else "ValueError"))
    return out
