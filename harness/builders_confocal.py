"""Generators of info waves, photon-count streams and REAL Kymo / Scan objects (shared by C02, C03, C05, C06,
C18, C19).  No dependency on the repository's test helpers; objects are made only through the public
`lumicks.pylake.low_level.create_confocal_object` / `make_continuous_slice`.

Everything is plain data (lists / dicts of ints) so that a case stays JSON-serialisable, and every random choice
comes from the `common.Rng` handed in.

API
===
Constants
    START = 1_600_000_000_000_000_000   default timestamp (ns) of the first info-wave sample
    DT    = 12_800                      default sample period (ns) (Bluelake's 78.125 kHz)
    FIRST_TIMESTAMP = 1_388_534_400_000_000_000   low_level.make_continuous_slice refuses earlier starts (ValueError):
                                        keep `start - lead*dt >= FIRST_TIMESTAMP` for every colour
    COLORS = ("red", "green", "blue")
    DISCARD, USE, BOUNDARY = 0, 1, 2    info-wave codes

Info waves
    infowave(P, lines, k=1, *, lead_in=0, dead=0, L=None, frame_dead=0, intra=0, tail=0, trunc=None) -> list[int]
        `lines` complete scan lines of `P` pixels.  A pixel is `k` used samples, the last one carrying the
        boundary code (k-1 times USE, then BOUNDARY); `k` may be an int (constant) or a list that is cycled pixel by
        pixel (non-constant samples per pixel: fine for image sums, NOT for pylake's timestamp reconstruction).
        `lead_in`  discard samples before the first pixel.
        `dead`     discard samples after each line: int, or list cycled line by line (per-line dead time).
        `L`, `frame_dead`   scans: after every `L`-th line `frame_dead` further discard samples are added.
        `intra`    discard samples inserted after the first sample of every pixel with k >= 2 (the interleaved
                   discards of real data; breaks the constant-k assumption of timestamp reconstruction as well).
        `tail`     discard samples appended at the very end.
        `trunc`    keep only the first `trunc` samples (cuts anywhere: in a dead time, between pixels, inside a pixel)
                   -> unfinished last line / frame.
    layout_infowave(layout: dict) -> list[int]
        the same from a dict with those keys (handy inside JSON cases).
    pixel_of_sample(iw) -> list[int]
        for every sample the index (acquisition order) of the pixel it belongs to, or -1 for discarded samples and
        for samples after the last boundary (plain walk of the codes; usable as an oracle ingredient).
    count_pixels(iw) -> int     number of boundary codes.

Photon counts
    counts(rng, iw, style="mixed", hi=9) -> list[int]
        a count for every sample of `iw`; ALWAYS non-zero counts in (some) discarded samples:
        "mixed"  small counts 0..hi everywhere (used and discarded alike)
        "loud"   discarded samples get counts 50..99, used ones 0..hi
        "ids"    sample i gets 2**(i % 32) (a pixel value then identifies exactly which samples were summed; only
                 meaningful for fewer than 32 samples per pixel; totals stay far below 2**53)
        "big"    used samples up to 2**20
        "ones"   every sample 1 (pixel = number of used samples in it)

Objects
    confocal_json(axes, scan_count=0, pixel_time_ms=0.2) -> str
        Bluelake-style JSON metadata; `axes` = [(axis_number 0|1|2, num_pixels, pixel_size_nm), ...] in SCAN order
        (fast axis first).  One axis -> Kymo, two -> Scan.
    continuous(data, start, dt, dtype=np.int64) -> lumicks.pylake.channel.Slice
    make_confocal(iw, axes, channels, *, start=START, dt=DT, scan_count=0, lead=None, name="obj",
                  count_dtype="int64") -> Kymo | Scan
        `channels` = {"red": list|None, "green": ..., "blue": ...}; None / missing = colour absent (empty slice).
        A channel list may be shorter than `iw` (photon stream ends early -> pylake truncates + RuntimeWarning) or
        longer.  `lead` = {colour: m}: the photon stream of that colour starts `m` samples BEFORE the info wave
        (m >= 0; its first m counts precede the scan and must be ignored); a negative m means it starts |m| samples
        AFTER the info wave (pylake: Kymo drops its first line [F5 territory], Scan raises RuntimeError).
    make_kymo(iw, P, channels, *, axis=0, pixel_size_nm=100.0, **kw) -> Kymo
    make_scan(iw, P, L, channels, *, fast_axis=0, slow_axis=1, scan_count=0, pixel_size_nm=(100.0, 150.0), **kw) -> Scan
        `fast_axis < slow_axis` (e.g. X fast) -> image[frame][slow][fast]; otherwise image[frame][fast][slow].
    object_from_case(case) -> Kymo | Scan
        case keys: kind ("kymo"|"scan"), iw, P, [L, fast, slow, scan_count], channels, [lead], [start], [dt],
        [count_dtype].
    quiet()   context manager silencing pylake's RuntimeWarnings (truncation) while calling the implementation.

Random structured cases
    random_layout(rng, kind, max_p=8, max_l=8, max_frames=3, max_k=4, constant_k=False) -> dict
        a layout dict (keys of `infowave` + "P", "L", "lines") biased towards boundaries: lead-in 0/1/k, dead time 0,
        per-line dead times, truncation inside the last line / last frame / first line, exactly full frames.
    random_channels(rng, iw, modes=None, style=None) -> (channels, lead)
        for each colour one of: "full", "absent", "short" (ends early, at a boundary-biased position), "long"
        (extra samples after the end), "early" (starts before the info wave), "early+short", "late" (starts after
        the first info-wave sample; never chosen by default).  `modes` may be a list to choose from or an explicit
        dict colour -> mode; `style` a name or a dict colour -> style (see `counts`).
"""
import contextlib
import json
import warnings

import numpy as np

START = 1_600_000_000_000_000_000
DT = 12_800
FIRST_TIMESTAMP = 1_388_534_400_000_000_000
COLORS = ("red", "green", "blue")
DISCARD, USE, BOUNDARY = 0, 1, 2


# ----------------------------------------------------------------------------- info waves


def _cyc(v, i):
    return v[i % len(v)] if isinstance(v, (list, tuple)) else v


def infowave(P, lines, k=1, *, lead_in=0, dead=0, L=None, frame_dead=0, intra=0, tail=0, trunc=None):
    iw = [DISCARD] * lead_in
    pix = 0
    for line in range(lines):
        for _ in range(P):
            kk = max(1, int(_cyc(k, pix)))
            pix += 1
            if kk == 1:
                iw.append(BOUNDARY)
            else:
                iw.append(USE)
                iw.extend([DISCARD] * intra)
                iw.extend([USE] * (kk - 2))
                iw.append(BOUNDARY)
        iw.extend([DISCARD] * int(_cyc(dead, line)))
        if L and (line + 1) % L == 0:
            iw.extend([DISCARD] * frame_dead)
    iw.extend([DISCARD] * tail)
    if trunc is not None:
        iw = iw[: max(0, int(trunc))]
    return iw


def layout_infowave(layout):
    return infowave(
        layout["P"],
        layout["lines"],
        layout.get("k", 1),
        lead_in=layout.get("lead_in", 0),
        dead=layout.get("dead", 0),
        L=layout.get("L"),
        frame_dead=layout.get("frame_dead", 0),
        intra=layout.get("intra", 0),
        tail=layout.get("tail", 0),
        trunc=layout.get("trunc"),
    )


def pixel_of_sample(iw):
    out = []
    n = 0
    total = sum(1 for c in iw if c == BOUNDARY)
    for c in iw:
        if c == DISCARD or n >= total:
            out.append(-1)
        else:
            out.append(n)
        if c == BOUNDARY:
            n += 1
    return out


def count_pixels(iw):
    return sum(1 for c in iw if c == BOUNDARY)


# ----------------------------------------------------------------------------- photon counts


def counts(rng, iw, style="mixed", hi=9):
    out = []
    for i, c in enumerate(iw):
        if style == "ids":
            out.append(1 << (i % 32))
        elif style == "ones":
            out.append(1)
        elif style == "loud":
            out.append(rng.randint(50, 99) if c == DISCARD else rng.randint(0, hi))
        elif style == "big":
            out.append(rng.randint(1, 99) if c == DISCARD else rng.randint(0, 1 << 20))
        else:
            out.append(rng.randint(0, hi))
    return out


# ----------------------------------------------------------------------------- objects


def confocal_json(axes, scan_count=0, pixel_time_ms=0.2):
    return json.dumps(
        {
            "value0": {
                "cereal_class_version": 1,
                "fluorescence": True,
                "force": False,
                "scan count": int(scan_count),
                "scan volume": {
                    "center point (um)": {"x": 58.075877109272604, "y": 31.978375270573267, "z": 0},
                    "cereal_class_version": 1,
                    "pixel time (ms)": pixel_time_ms,
                    "scan axes": [
                        {
                            "axis": int(a),
                            "cereal_class_version": 1,
                            "num of pixels": int(n),
                            "pixel size (nm)": float(sz),
                            "scan time (ms)": 0,
                            "scan width (um)": float(sz) * int(n) / 1000.0,
                        }
                        for a, n, sz in axes
                    ],
                },
            }
        }
    )


def continuous(data, start, dt, dtype=np.int64):
    from lumicks.pylake.low_level import make_continuous_slice

    return make_continuous_slice(np.asarray(data, dtype=dtype), int(start), int(dt))


def make_confocal(iw, axes, channels, *, start=START, dt=DT, scan_count=0, lead=None, name="obj", count_dtype="int64"):
    from lumicks.pylake.low_level import create_confocal_object

    lead = lead or {}
    kw = {}
    for color in COLORS:
        data = (channels or {}).get(color)
        if data is None or len(data) == 0:
            pass  # absent colour: the default of create_confocal_object (no need to name channel.empty_slice)
        else:
            m = int(lead.get(color, 0))
            dtype = np.dtype(count_dtype)
            if max(data) > np.iinfo(dtype).max or min(data) < np.iinfo(dtype).min:
                dtype = np.dtype("int64")  # a count that does not fit the requested dtype: fall back to int64
            kw[f"{color}_channel"] = continuous(data, start - m * dt, dt, dtype=dtype)
    return create_confocal_object(
        name, continuous(iw, start, dt, dtype=np.uint8), confocal_json(axes, scan_count), **kw
    )


def make_kymo(iw, P, channels, *, axis=0, pixel_size_nm=100.0, **kw):
    return make_confocal(iw, [(axis, P, pixel_size_nm)], channels, **kw)


def make_scan(iw, P, L, channels, *, fast_axis=0, slow_axis=1, scan_count=0, pixel_size_nm=(100.0, 150.0), **kw):
    axes = [(fast_axis, P, pixel_size_nm[0]), (slow_axis, L, pixel_size_nm[1])]
    return make_confocal(iw, axes, channels, scan_count=scan_count, **kw)


def object_from_case(case):
    kw = dict(
        start=case.get("start", START),
        dt=case.get("dt", DT),
        lead=case.get("lead"),
        count_dtype=case.get("count_dtype", "int64"),
    )
    if case["kind"] == "kymo":
        return make_kymo(case["iw"], case["P"], case["channels"], axis=case.get("fast", 0), **kw)
    return make_scan(
        case["iw"],
        case["P"],
        case["L"],
        case["channels"],
        fast_axis=case.get("fast", 0),
        slow_axis=case.get("slow", 1),
        scan_count=case.get("scan_count", 0),
        **kw,
    )


@contextlib.contextmanager
def quiet():
    with warnings.catch_warnings():
        warnings.simplefilter("ignore")
        yield


# ----------------------------------------------------------------------------- random structured cases


def random_layout(rng, kind, max_p=8, max_l=8, max_frames=3, max_k=4, constant_k=False):
    scan = kind == "scan"
    P = rng.randint(2 if scan else 1, max_p)
    L = rng.randint(2, max_l) if scan else None
    if scan:
        frames = rng.randint(1, max_frames)
        lines = frames * L
    else:
        lines = rng.randint(1, max(1, max_l * max_frames))
    kmode = 0 if constant_k else rng.randint(0, 3)
    if kmode == 3:
        k = [rng.randint(1, max_k) for _ in range(rng.randint(2, 5))]  # non-constant samples per pixel
    else:
        k = rng.choice([1, 1, 2, 3, max_k, rng.randint(1, max_k)])
    kmin = min(k) if isinstance(k, list) else k
    dmode = rng.randint(0, 3)
    if dmode == 0:
        dead = 0
    elif dmode == 1:
        dead = rng.choice([1, 2, kmin, rng.randint(1, 9)])
    else:
        dead = [rng.randint(0, 6) for _ in range(rng.randint(2, 4))]  # per-line dead time
    layout = {
        "P": P,
        "L": L,
        "lines": lines,
        "k": k,
        "lead_in": rng.choice([0, 0, 1, kmin, rng.randint(0, 7)]),
        "dead": dead,
        "frame_dead": rng.choice([0, 0, 1, rng.randint(0, 9)]) if scan else 0,
        "intra": 0 if constant_k else rng.choice([0, 0, 0, 1, 2]),
        "tail": rng.choice([0, 0, 1, rng.randint(0, 5)]),
        "trunc": None,
    }
    full = layout_infowave(layout)
    n = len(full)
    t = rng.randint(0, 9)
    if t <= 3 or n < 2:
        pass  # complete
    else:
        # truncation targets: inside the last line, inside the last frame, inside the first line, anywhere
        bpos = [i for i, c in enumerate(full) if c == BOUNDARY]
        if t <= 5 and len(bpos) >= 2:
            lo = bpos[max(0, len(bpos) - P - 1)]
            layout["trunc"] = rng.randint(lo, n)
        elif t == 6 and scan and len(bpos) > P * L:
            lo = bpos[len(bpos) - P * L]
            layout["trunc"] = rng.randint(lo, n)
        elif t == 7:
            layout["trunc"] = rng.randint(1, min(n, bpos[min(len(bpos) - 1, P)] + 2))
        else:
            b = rng.choice(bpos)
            layout["trunc"] = max(1, min(n, b + rng.choice([-1, 0, 1, 2])))
    return layout


def random_channels(rng, iw, modes=None, style=None):
    """modes: None (default mix), a list of mode names to choose from, or a dict colour -> mode (explicit);
    style: None (random per colour), a style name, or a dict colour -> style.
    Extra mode "late": the photon stream starts 1..3 samples AFTER the info wave (negative lead)."""
    n = len(iw)
    channels, lead = {}, {}
    bpos = [i for i, c in enumerate(iw) if c == BOUNDARY] or [0]
    for color in COLORS:
        if isinstance(modes, dict):
            mode = modes.get(color, "full")
        else:
            mode = rng.choice(modes or ["full", "full", "full", "absent", "short", "long", "early", "early+short"])
        if isinstance(style, dict):
            st = style.get(color, "mixed")
        else:
            st = style or rng.choice(["mixed", "mixed", "loud", "ids", "big", "ones"])
        base = counts(rng, iw, st)
        m = 0
        if mode == "absent":
            channels[color] = None
            lead[color] = 0
            continue
        if mode == "late":
            late = min(rng.randint(1, 3), max(n - 1, 0))
            channels[color] = base[late:] or None
            lead[color] = -late
            continue
        if "early" in mode:
            m = rng.randint(1, 5)
        data = [rng.randint(1, 99) for _ in range(m)] + base
        if "short" in mode and n >= 2:
            b = rng.choice(bpos)
            keep = max(1, min(n - 1, b + rng.choice([-1, 0, 1, 2, rng.randint(-3, 3)])))
            data = data[: m + keep]
        if mode == "long":
            data = data + [rng.randint(1, 99) for _ in range(rng.randint(1, 6))]
        channels[color] = data
        lead[color] = m
    return channels, lead
